(* Reference object of property C01: a sorted association list (Map) / sorted multi-list
   (MultiMap) of entries (key, value, slot).  Nothing here looks at the code.

   The slot is the identity of the element (the harness numbers the nodes in allocation
   order); it is created with the entry, never changes and disappears with it.

   Two operations of a MultiMap have a result the property text does not pin down; both take the
   container's decision as an extra input [choice] and *check* it:
   - the hinted insert (the place inside a run of equal keys): [choice] = position taken, the
     reference checks that the list stays sorted there;
   - remove(key) when several entries have that key (the text does not say which of them goes):
     [choice] = rank of the removed entry, the reference checks that an entry of that rank exists
     and has the key.  When the key is present a choice must be made (nothing removed = rejected). *)
From Coq Require Import ZArith List Bool Arith Lia.
Import ListNotations.
Local Open Scope Z_scope.

Definition entry := (Z * Z * nat)%type.
Definition ekey (e : entry) : Z := fst (fst e).
Definition eval (e : entry) : Z := snd (fst e).
Definition eslot (e : entry) : nat := snd e.

Inductive flavour := FMap | FMulti.

(* ---- ordering ------------------------------------------------------------------------- *)
Definition klt (f : flavour) (a b : Z) : Prop := match f with FMap => a < b | FMulti => a <= b end.

Fixpoint sorted (f : flavour) (l : list entry) : Prop :=
  match l with
  | [] => True
  | e :: t => (forall e', In e' t -> klt f (ekey e) (ekey e')) /\ sorted f t
  end.

(* ---- list operations ------------------------------------------------------------------ *)
(* Map: update in place (the entry keeps its slot) or insert before the first larger key.
   MultiMap: insert after all entries with key <= k. *)
Fixpoint ins_list (f : flavour) (k v : Z) (s : nat) (l : list entry) : list entry :=
  match l with
  | [] => [(k, v, s)]
  | e :: t =>
      if k <? ekey e then (k, v, s) :: l
      else match f with
           | FMap => if k =? ekey e then (k, v, eslot e) :: t else e :: ins_list f k v s t
           | FMulti => e :: ins_list f k v s t
           end
  end.

Definition count_lt (k : Z) (l : list entry) : nat := length (filter (fun e => ekey e <? k) l).
Definition count_le (k : Z) (l : list entry) : nat := length (filter (fun e => ekey e <=? k) l).
Definition count_list (k : Z) (l : list entry) : nat := length (filter (fun e => ekey e =? k) l).
Definition has_key (k : Z) (l : list entry) : bool := existsb (fun e => ekey e =? k) l.

(* position of the entry an insert returns *)
Definition ins_pos (f : flavour) (k : Z) (l : list entry) : nat :=
  match f with FMap => count_lt k l | FMulti => count_le k l end.

(* index of the first entry with key k *)
Fixpoint find_list (k : Z) (l : list entry) : option nat :=
  match l with
  | [] => None
  | e :: t => if ekey e =? k then Some O else option_map S (find_list k t)
  end.

Fixpoint remove_nth {A} (n : nat) (l : list A) : list A :=
  match l, n with
  | [], _ => []
  | _ :: t, O => t
  | h :: t, S n' => h :: remove_nth n' t
  end.

Definition insert_at {A} (p : nat) (x : A) (l : list A) : list A := firstn p l ++ x :: skipn p l.

(* a position at which (k, _) may be placed so that the list stays sorted *)
Definition valid_pos (k : Z) (p : nat) (l : list entry) : bool :=
  (p <=? length l)%nat && forallb (fun e => ekey e <=? k) (firstn p l) && forallb (fun e => k <=? ekey e) (skipn p l).

(* the entry of rank p exists and has key k *)
Definition key_at (k : Z) (p : nat) (l : list entry) : bool :=
  match nth_error l p with Some e => ekey e =? k | None => false end.

Fixpoint renumber (n : nat) (l : list entry) : list entry :=
  match l with
  | [] => []
  | e :: t => (ekey e, eval e, n) :: renumber (S n) t
  end.

(* ---- observations --------------------------------------------------------------------- *)
Inductive itr := IEnd | IAt (rank : nat) (e : entry).
Inductive res := RNone | RIter (i : itr) | RBool (b : bool) | RNat (n : nat) | RVal (v : option Z) | RBad.

Definition itr_at (l : list entry) (i : nat) : itr :=
  match nth_error l i with Some e => IAt i e | None => IEnd end.

Inductive op :=
| OIns (k v : Z)
| OHint (pos : nat) (k v : Z)       (* pos = rank of the hint in iteration order; >= size means end() *)
| ORemKey (k : Z)
| ORemAt (pos : nat)
| ORemFront | ORemBack | OClear
| OFind (k : Z) | OHas (k : Z) | OCount (k : Z)
| OFront | OBack
| OSel (b : bool)                   (* two containers; every other operation acts on the selected one *)
| OCopy                             (* selected := other   (operator= / copy construction; Map and MultiMap) *)
| OBulk                             (* selected.insert(other)   (Map only; MultiMap has no such member) *)
| OSelf.                            (* selected = selected      (self-assignment: nothing may change) *)

Record sstate := { s_a : list entry; s_b : list entry; s_cur : bool; s_next : nat }.
Definition s_init : sstate := {| s_a := []; s_b := []; s_cur := false; s_next := O |}.
Definition s_sel (st : sstate) : list entry := if s_cur st then s_b st else s_a st.
Definition s_other (st : sstate) : list entry := if s_cur st then s_a st else s_b st.
Definition s_set (st : sstate) (l : list entry) (n : nat) : sstate :=
  if s_cur st then {| s_a := s_a st; s_b := l; s_cur := true; s_next := n |}
  else {| s_a := l; s_b := s_b st; s_cur := false; s_next := n |}.

(* plain insert: new list, new slot counter, returned iterator *)
Definition s_insert (f : flavour) (k v : Z) (l : list entry) (n : nat) : list entry * nat * itr :=
  let l' := ins_list f k v n l in
  let fresh := match f with FMap => negb (has_key k l) | FMulti => true end in
  (l', if fresh then S n else n, itr_at l' (ins_pos f k l)).

Definition s_bulk (f : flavour) (src : list entry) (l : list entry) (n : nat) : list entry * nat :=
  fold_left (fun acc e => let '(l1, n1, _) := s_insert f (ekey e) (eval e) (fst acc) (snd acc) in (l1, n1)) src (l, n).

Definition last_error {A} (l : list A) : option A :=
  match l with [] => None | _ => nth_error l (length l - 1) end.

Definition spec_step (f : flavour) (st : sstate) (o : op) (choice : nat) : sstate * res :=
  let l := s_sel st in
  let n := s_next st in
  match o with
  | OIns k v => let '(l', n', it) := s_insert f k v l n in (s_set st l' n', RIter it)
  | OHint pos k v =>
      match f with
      | FMap => let '(l', n', it) := s_insert f k v l n in (s_set st l' n', RIter it)
      | FMulti =>
          if valid_pos k choice l
          then let l' := insert_at choice (k, v, n) l in (s_set st l' (S n), RIter (itr_at l' choice))
          else (st, RBad)
      end
  | ORemKey k =>
      match f with
      | FMap =>
          match find_list k l with
          | Some i => (s_set st (remove_nth i l) n, RNone)
          | None => (st, RNone)
          end
      | FMulti =>
          if has_key k l
          then if key_at k choice l then (s_set st (remove_nth choice l) n, RNone) else (st, RBad)
          else (st, RNone)
      end
  | ORemAt pos =>
      if (pos <? length l)%nat
      then let l' := remove_nth pos l in (s_set st l' n, RIter (itr_at l' pos))
      else (st, RNone)
  | ORemFront =>
      match l with
      | [] => (st, RNone)
      | _ :: t => (s_set st t n, RIter (itr_at t O))
      end
  | ORemBack =>
      match l with
      | [] => (st, RNone)
      | _ => (s_set st (removelast l) n, RIter IEnd)
      end
  | OClear => (s_set st [] n, RNone)
  | OFind k => (st, RIter (match find_list k l with Some i => itr_at l i | None => IEnd end))
  | OHas k => (st, RBool (has_key k l))
  | OCount k => (st, RNat (count_list k l))
  | OFront => (st, RVal (option_map eval (hd_error l)))
  | OBack => (st, RVal (option_map eval (last_error l)))
  | OSel b => ({| s_a := s_a st; s_b := s_b st; s_cur := b; s_next := n |}, RNone)
  | OCopy => let src := s_other st in (s_set st (renumber n src) (n + length src)%nat, RNone)
  | OBulk =>
      match f with
      | FMap => let '(l', n') := s_bulk f (s_other st) l n in (s_set st l' n', RNone)
      | FMulti => (st, RNone)
      end
  | OSelf => (st, RNone)
  end.

