(* Pointer-level machine for include/nstd/Map.hpp and MultiMap.hpp.  No proofs in this file.

   A container is a heap of Items plus the header fields.  An Item is addressed by its slot (the
   allocation number the harness gives to every `new(item) Item(...)`; the free list / block allocator
   that recycles addresses is not modelled - a removed slot is simply never used again).  The nine
   fields of an Item are kept in two maps (structure of arrays):
     T : slot -> { key, value, parent, left, right, height, slope }      (written by the tree code)
     L : slot -> { prev, next }                                          (written by the list code)
   and the header is  root | _begin.item, endItem.prev, _size  (endItem.parent / endItem.next are
   never read or written after the constructor; _end.item is the constant &endItem).
   Every function below performs the individual field writes of the C++ in the C++'s order; a
   dereference of a null pointer (or running out of loop fuel) yields None. *)
From Coq Require Import ZArith List Bool Arith.
From Avl Require Import AvlSpec AvlModel.
Import ListNotations.
Local Open Scope Z_scope.

Definition ptr := option nat.                       (* Item* that is null or an Item *)
Inductive lptr := LEnd | LCell (a : nat).           (* Item* that is &endItem or an Item *)

Record tcell := { ckey : Z; cval : Z; cpar : ptr; cleft : ptr; cright : ptr; cht : nat; cslope : Z }.
Record lcell := { cprev : ptr; cnext : lptr }.

Definition theap := nat -> tcell.
Definition lheap := nat -> lcell.

Definition upd {A} (h : nat -> A) (a : nat) (c : A) : nat -> A := fun x => if Nat.eqb x a then c else h x.

Definition set_val (v : Z) (c : tcell) : tcell :=
  {| ckey := ckey c; cval := v; cpar := cpar c; cleft := cleft c; cright := cright c; cht := cht c; cslope := cslope c |}.
Definition set_par (p : ptr) (c : tcell) : tcell :=
  {| ckey := ckey c; cval := cval c; cpar := p; cleft := cleft c; cright := cright c; cht := cht c; cslope := cslope c |}.
Definition set_left (p : ptr) (c : tcell) : tcell :=
  {| ckey := ckey c; cval := cval c; cpar := cpar c; cleft := p; cright := cright c; cht := cht c; cslope := cslope c |}.
Definition set_right (p : ptr) (c : tcell) : tcell :=
  {| ckey := ckey c; cval := cval c; cpar := cpar c; cleft := cleft c; cright := p; cht := cht c; cslope := cslope c |}.
Definition set_hs (h : nat) (s : Z) (c : tcell) : tcell :=
  {| ckey := ckey c; cval := cval c; cpar := cpar c; cleft := cleft c; cright := cright c; cht := h; cslope := s |}.
Definition set_prev (p : ptr) (c : lcell) : lcell := {| cprev := p; cnext := cnext c |}.
Definition set_next (p : lptr) (c : lcell) : lcell := {| cprev := cprev c; cnext := p |}.

Definition w_val a v (T : theap) : theap := upd T a (set_val v (T a)).
Definition w_par a p (T : theap) : theap := upd T a (set_par p (T a)).
Definition w_left a p (T : theap) : theap := upd T a (set_left p (T a)).
Definition w_right a p (T : theap) : theap := upd T a (set_right p (T a)).

Definition ptr_eqb (p q : ptr) : bool :=
  match p, q with None, None => true | Some a, Some b => Nat.eqb a b | _, _ => false end.
Definition lptr_eqb (p q : lptr) : bool :=
  match p, q with LEnd, LEnd => true | LCell a, LCell b => Nat.eqb a b | _, _ => false end.

(* ---- tree part: (T, root) -------------------------------------------------------------------------- *)
Definition tstate := (theap * ptr)%type.

(* `x ? x->height : 0` *)
Definition hgt (T : theap) (p : ptr) : nat := match p with None => O | Some b => cht (T b) end.

(* Item::updateHeightAndSlope (Map.hpp:367-374) *)
Definition m_update (a : nat) (T : theap) : theap :=
  let lh := hgt T (cleft (T a)) in
  let rh := hgt T (cright (T a)) in
  upd T a (set_hs (S (Nat.max lh rh)) (Z.of_nat lh - Z.of_nat rh) (T a)).

(* an `Item**` / `Item*&`: &root, &a->left or &a->right *)
Inductive cref := CRoot | CLeft (a : nat) | CRight (a : nat).
Definition rd_cell (cr : cref) (st : tstate) : ptr :=
  match cr with CRoot => snd st | CLeft a => cleft (fst st a) | CRight a => cright (fst st a) end.
Definition wr_cell (cr : cref) (p : ptr) (st : tstate) : tstate :=
  match cr with
  | CRoot => (fst st, p)
  | CLeft a => (w_left a p (fst st), snd st)
  | CRight a => (w_right a p (fst st), snd st)
  end.

(* rotr (Map.hpp:498-511) *)
Definition m_rotr (cr : cref) (st : tstate) : option tstate :=
  match rd_cell cr st with
  | None => None
  | Some oldTop =>
      let T := fst st in
      match cleft (T oldTop) with
      | None => None
      | Some result =>
          let tmp := cright (T result) in
          let T := w_par result (cpar (T oldTop)) T in          (* result->parent = oldTop->parent *)
          let T := w_right result (Some oldTop) T in            (* result->right = oldTop *)
          let T := w_left oldTop tmp T in                       (* oldTop->left = tmp *)
          let T := match tmp with Some tm => w_par tm (Some oldTop) T | None => T end in   (* tmp->parent = oldTop *)
          let T := w_par oldTop (Some result) T in              (* oldTop->parent = result *)
          let st := wr_cell cr (Some result) (T, snd st) in     (* cell = result *)
          let T := m_update oldTop (fst st) in
          let T := m_update result T in
          Some (T, snd st)
      end
  end.

(* rotl (Map.hpp:513-526) *)
Definition m_rotl (cr : cref) (st : tstate) : option tstate :=
  match rd_cell cr st with
  | None => None
  | Some oldTop =>
      let T := fst st in
      match cright (T oldTop) with
      | None => None
      | Some result =>
          let tmp := cleft (T result) in
          let T := w_par result (cpar (T oldTop)) T in
          let T := w_left result (Some oldTop) T in
          let T := w_right oldTop tmp T in
          let T := match tmp with Some tm => w_par tm (Some oldTop) T | None => T end in
          let T := w_par oldTop (Some result) T in
          let st := wr_cell cr (Some result) (T, snd st) in
          let T := m_update oldTop (fst st) in
          let T := m_update result T in
          Some (T, snd st)
      end
  end.

(* shiftr / shiftl (Map.hpp:528-542) *)
Definition m_shiftr (cr : cref) (st : tstate) : option tstate :=
  match rd_cell cr st with
  | None => None
  | Some oldTop =>
      match cleft (fst st oldTop) with
      | None => None
      | Some l =>
          if cslope (fst st l) =? -1
          then match m_rotl (CLeft oldTop) st with Some st1 => m_rotr cr st1 | None => None end
          else m_rotr cr st
      end
  end.
Definition m_shiftl (cr : cref) (st : tstate) : option tstate :=
  match rd_cell cr st with
  | None => None
  | Some oldTop =>
      match cright (fst st oldTop) with
      | None => None
      | Some r =>
          if cslope (fst st r) =? 1
          then match m_rotr (CRight oldTop) st with Some st1 => m_rotl cr st1 | None => None end
          else m_rotl cr st
      end
  end.

(* `parent ? (parent->left == item ? parent->left : parent->right) : root` *)
Definition cell_of (T : theap) (parent : ptr) (item : nat) : cref :=
  match parent with
  | Some pa => if ptr_eqb (cleft (T pa)) (Some item) then CLeft pa else CRight pa
  | None => CRoot
  end.

(* rebal (Map.hpp:473-496): the Item now standing in the cell *)
Definition m_rebal (item : nat) (st : tstate) : option (tstate * nat) :=
  let T := fst st in
  if cslope (T item) >? 1 then
    let cr := cell_of T (cpar (T item)) item in
    match m_shiftr cr st with
    | Some st1 => match rd_cell cr st1 with Some a => Some (st1, a) | None => None end
    | None => None
    end
  else if cslope (T item) <? -1 then
    let cr := cell_of T (cpar (T item)) item in
    match m_shiftl cr st with
    | Some st1 => match rd_cell cr st1 with Some a => Some (st1, a) | None => None end
    | None => None
    end
  else Some (st, item).

(* the loop of insert (Map.hpp:439-447; entered with parent != 0, so do-while = while) and
   rebalParentUpwards (Map.hpp:327-336):
     while(parent) { oldHeight = parent->height; parent->updateHeightAndSlope(); parent = rebal(parent);
                     if(oldHeight == parent->height) break; parent = parent->parent; } *)
Fixpoint m_up (fuel : nat) (st : tstate) (parent : ptr) : option tstate :=
  match parent with
  | None => Some st
  | Some pa =>
      match fuel with
      | O => None
      | S fuel' =>
          let oldHeight := cht (fst st pa) in
          let st1 := (m_update pa (fst st), snd st) in
          match m_rebal pa st1 with
          | None => None
          | Some (st2, p2) =>
              if Nat.eqb oldHeight (cht (fst st2 p2)) then Some st2
              else m_up fuel' st2 (cpar (fst st2 p2))
          end
      end
  end.

(* ---- list part -------------------------------------------------------------------------------------- *)
Record lstate := { lh : lheap; l_begin : lptr; l_eprev : ptr; l_size : nat }.

Definition rd_prev (ls : lstate) (p : lptr) : ptr :=
  match p with LEnd => l_eprev ls | LCell a => cprev (lh ls a) end.
Definition wr_prev (p : lptr) (v : ptr) (ls : lstate) : lstate :=
  match p with
  | LEnd => {| lh := lh ls; l_begin := l_begin ls; l_eprev := v; l_size := l_size ls |}
  | LCell a => {| lh := upd (lh ls) a (set_prev v (lh ls a)); l_begin := l_begin ls; l_eprev := l_eprev ls; l_size := l_size ls |}
  end.
Definition wr_next (a : nat) (v : lptr) (ls : lstate) : lstate :=
  {| lh := upd (lh ls) a (set_next v (lh ls a)); l_begin := l_begin ls; l_eprev := l_eprev ls; l_size := l_size ls |}.
Definition wr_begin (v : lptr) (ls : lstate) : lstate :=
  {| lh := lh ls; l_begin := v; l_eprev := l_eprev ls; l_size := l_size ls |}.
Definition wr_size (n : nat) (ls : lstate) : lstate :=
  {| lh := lh ls; l_begin := l_begin ls; l_eprev := l_eprev ls; l_size := n |}.

(* threading of a new Item (Map.hpp:417-435); `after_parent` is `cell == &parent->right` *)
Definition l_thread (item : nat) (parent : ptr) (after_parent : bool) (ls : lstate) : lstate :=
  match parent with
  | None =>
      let ls := wr_prev (LCell item) None ls in               (* item->prev = 0 *)
      let ls := wr_next item (l_begin ls) ls in                (* item->next = _begin.item *)
      let ls := wr_begin (LCell item) ls in                    (* _begin.item = item *)
      wr_prev LEnd (Some item) ls                              (* endItem.prev = item *)
  | Some pa =>
      let insertPos := if after_parent then cnext (lh ls pa) else LCell pa in
      let pv := rd_prev ls insertPos in
      let ls := wr_prev (LCell item) pv ls in                  (* item->prev = insertPos->prev *)
      let ls := match pv with
                | Some q => wr_next q (LCell item) ls          (* insertPos->prev->next = item *)
                | None => wr_begin (LCell item) ls             (* _begin.item = item *)
                end in
      let ls := wr_next item insertPos ls in                   (* item->next = insertPos *)
      wr_prev insertPos (Some item) ls                         (* insertPos->prev = item *)
  end.

(* un-threading of a removed Item (Map.hpp:338-342) *)
Definition l_unthread (item : nat) (ls : lstate) : lstate :=
  let nx := cnext (lh ls item) in
  let ls :=
    match cprev (lh ls item) with
    | None => wr_prev nx None (wr_begin nx ls)                 (* (_begin.item = item->next)->prev = 0 *)
    | Some q => wr_prev nx (Some q) (wr_next q nx ls)          (* (item->prev->next = item->next)->prev = item->prev *)
    end in
  wr_size (pred (l_size ls)) ls.                               (* --_size *)

(* ---- one container ---------------------------------------------------------------------------------- *)
Record cstate := { ts : tstate; ls : lstate }.
Definition cs_empty : cstate :=
  {| ts := (fun _ => {| ckey := 0; cval := 0; cpar := None; cleft := None; cright := None; cht := O; cslope := 0 |}, None);
     ls := {| lh := fun _ => {| cprev := None; cnext := LEnd |}; l_begin := LEnd; l_eprev := None; l_size := O |} |}.

(* insert(Item** cell, Item* parent, key, value)  (Map.hpp:391-471, MultiMap.hpp same with the
   two-way comparison); [n] is the slot of the Item that `new(item) Item(parent, key, value)` creates.
   Result: the container, the returned Item, whether an Item was created. *)
Fixpoint m_insert (fuel : nat) (f : flavour) (k v : Z) (n : nat) (cr : cref) (parent : ptr) (cs : cstate)
  : option (cstate * nat * bool) :=
  match fuel with
  | O => None
  | S fuel' =>
      let T := fst (ts cs) in
      match rd_cell cr (ts cs) with
      | None =>
          let T := upd T n {| ckey := k; cval := v; cpar := parent; cleft := None; cright := None; cht := 1; cslope := 0 |} in
          let st := wr_cell cr (Some n) (T, snd (ts cs)) in                              (* *cell = item *)
          let l := wr_size (S (l_size (ls cs))) (ls cs) in                               (* ++_size *)
          let l := l_thread n parent (match cr with CRight _ => true | _ => false end) l in
          match m_up (S (l_size l)) st parent with
          | Some st' => Some ({| ts := st'; ls := l |}, n, true)
          | None => None
          end
      | Some position =>
          let pk := ckey (T position) in
          match f with
          | FMap =>
              if k >? pk then m_insert fuel' f k v n (CRight position) (Some position) cs
              else if k <? pk then m_insert fuel' f k v n (CLeft position) (Some position) cs
              else Some ({| ts := (w_val position v T, snd (ts cs)); ls := ls cs |}, position, false)
          | FMulti =>
              if k <? pk then m_insert fuel' f k v n (CLeft position) (Some position) cs
              else m_insert fuel' f k v n (CRight position) (Some position) cs
          end
      end
  end.

Definition m_insert_plain (f : flavour) (k v : Z) (n : nat) (cs : cstate) : option (cstate * nat * bool) :=
  m_insert (S (l_size (ls cs))) f k v n CRoot None cs.

(* insert(position, key, value)  (Map.hpp:125-155, MultiMap.hpp:141-169) *)
Definition m_insert_hint (f : flavour) (pos : lptr) (k v : Z) (n : nat) (cs : cstate) : option (cstate * nat * bool) :=
  let T := fst (ts cs) in
  let fuel := S (l_size (ls cs)) in
  let plain := m_insert fuel f k v n CRoot None cs in
  match pos with
  | LEnd =>
      match l_eprev (ls cs) with
      | Some prev => if k >? ckey (T prev) then m_insert fuel f k v n (CRight prev) (Some prev) cs else plain
      | None => plain
      end
  | LCell ip =>
      if k <? ckey (T ip) then
        match cprev (lh (ls cs) ip) with
        | None => m_insert fuel f k v n (CLeft ip) (Some ip) cs
        | Some prev =>
            if gt_prev f k (ckey (T prev)) then m_insert fuel f k v n (CLeft ip) (Some ip) cs else plain
        end
      else if (match f with FMap => k >? ckey (T ip) | FMulti => true end) then
        match cnext (lh (ls cs) ip) with
        | LEnd => m_insert fuel f k v n (CRight ip) (Some ip) cs
        | LCell next =>
            if lt_next f k (ckey (T next)) then m_insert fuel f k v n (CRight ip) (Some ip) cs else plain
        end
      else Some ({| ts := (w_val ip v T, snd (ts cs)); ls := ls cs |}, ip, false)
  end.

(* the rebalParent loop of remove (Map.hpp:311-326) *)
Fixpoint m_rebal_parent (fuel : nat) (st : tstate) (cell : cref) (origParent : ptr) (parent : nat) : option (tstate * ptr) :=
  match fuel with
  | O => None
  | S fuel' =>
      let oldHeight := cht (fst st parent) in
      let st1 := (m_update parent (fst st), snd st) in
      match m_rebal parent st1 with
      | None => None
      | Some (st2, p2) =>
          if Nat.eqb oldHeight (cht (fst st2 p2)) then
            match rd_cell cell st2 with                                      (* parent = *cell *)
            | None => None
            | Some top =>
                let st3 := (m_update top (fst st2), snd st2) in
                match m_rebal top st3 with
                | None => None
                | Some (st4, p4) => Some (st4, cpar (fst st4 p4))
                end
            end
          else
            let up := cpar (fst st2 p2) in
            if ptr_eqb up origParent then Some (st2, up)
            else match up with
                 | Some q => m_rebal_parent fuel' st2 cell origParent q
                 | None => None
                 end
      end
  end.

(* remove(const Iterator&), the tree part up to the label rebalParentUpwards (Map.hpp:199-326):
   the state and `parent`.  [nextp] / [prevp] are item->next / item->prev. *)
Definition m_remove_tree (fuel : nat) (item : nat) (nextp : lptr) (prevp : ptr) (st : tstate) : option (tstate * ptr) :=
  let T := fst st in
  let origParent := cpar (T item) in
  let cell := match origParent with
              | Some pa => if ptr_eqb (Some item) (cleft (T pa)) then CLeft pa else CRight pa
              | None => CRoot
              end in
  let left := cleft (T item) in
  let right := cright (T item) in
  match left, right with
  | None, None => Some (wr_cell cell None st, origParent)
  | None, Some r =>
      let st1 := wr_cell cell (Some r) st in
      Some ((w_par r origParent (fst st1), snd st1), origParent)
  | Some l, None =>
      let st1 := wr_cell cell (Some l) st in
      Some ((w_par l origParent (fst st1), snd st1), origParent)
  | Some l, Some r =>
      if (cht (T l) <? cht (T r))%nat then
        match nextp with
        | LEnd => None
        | LCell next =>
            let nextParent := cpar (T next) in
            if ptr_eqb nextParent (Some item) then
              let st1 := wr_cell cell (Some next) st in                       (* *cell = next *)
              let T1 := w_par next origParent (fst st1) in                    (* next->parent = parent *)
              let T1 := w_left next (Some l) T1 in                            (* next->left = left *)
              let T1 := w_par l (Some next) T1 in                             (* left->parent = next *)
              m_rebal_parent fuel (T1, snd st1) cell origParent next
            else
              match nextParent with
              | None => None
              | Some np =>
                  let nextRight := cright (T next) in
                  let T1 := w_left np nextRight T in                          (* nextParent->left = nextRight *)
                  let T1 := match nextRight with Some nr => w_par nr (Some np) T1 | None => T1 end in
                  let st1 := wr_cell cell (Some next) (T1, snd st) in         (* *cell = next *)
                  let T1 := w_par next origParent (fst st1) in
                  let T1 := w_left next (Some l) T1 in
                  let T1 := w_par l (Some next) T1 in
                  let T1 := w_right next (Some r) T1 in
                  let T1 := w_par r (Some next) T1 in
                  m_rebal_parent fuel (T1, snd st1) cell origParent np
              end
        end
      else
        match prevp with
        | None => None
        | Some prev =>
            let prevParent := cpar (T prev) in
            if ptr_eqb prevParent (Some item) then
              let st1 := wr_cell cell (Some prev) st in
              let T1 := w_par prev origParent (fst st1) in
              let T1 := w_right prev (Some r) T1 in
              let T1 := w_par r (Some prev) T1 in
              m_rebal_parent fuel (T1, snd st1) cell origParent prev
            else
              match prevParent with
              | None => None
              | Some pp =>
                  let prevLeft := cleft (T prev) in
                  let T1 := w_right pp prevLeft T in
                  let T1 := match prevLeft with Some pl => w_par pl (Some pp) T1 | None => T1 end in
                  let st1 := wr_cell cell (Some prev) (T1, snd st) in
                  let T1 := w_par prev origParent (fst st1) in
                  let T1 := w_right prev (Some r) T1 in
                  let T1 := w_par r (Some prev) T1 in
                  let T1 := w_left prev (Some l) T1 in
                  let T1 := w_par l (Some prev) T1 in
                  m_rebal_parent fuel (T1, snd st1) cell origParent pp
              end
        end
  end.

(* remove(const Iterator&)  (Map.hpp:197-348): tree part, the rebalParentUpwards loop, the list
   un-threading; result: the container and `item->next` *)
Definition m_remove (item : nat) (cs : cstate) : option (cstate * lptr) :=
  let fuel := S (l_size (ls cs)) in
  match m_remove_tree fuel item (cnext (lh (ls cs) item)) (cprev (lh (ls cs) item)) (ts cs) with
  | None => None
  | Some (st1, parent) =>
      match m_up fuel st1 parent with
      | None => None
      | Some st2 => Some ({| ts := st2; ls := l_unthread item (ls cs) |}, cnext (lh (ls cs) item))
      end
  end.

(* find (Map.hpp:103-121; MultiMap.hpp:103-126 keeps descending to the left after a match) *)
Fixpoint m_find (fuel : nat) (f : flavour) (k : Z) (T : theap) (item : ptr) (result : lptr) : option lptr :=
  match item with
  | None => Some result
  | Some a =>
      match fuel with
      | O => None
      | S fuel' =>
          if k >? ckey (T a) then m_find fuel' f k T (cright (T a)) result
          else if k <? ckey (T a) then m_find fuel' f k T (cleft (T a)) result
          else match f with
               | FMap => Some (LCell a)
               | FMulti => m_find fuel' f k T (cleft (T a)) (LCell a)
               end
      end
  end.

(* the harness's at_rank: `for(n = 0; n < p && i != end(); ++n) ++i` *)
Fixpoint l_walk (p : nat) (L : lheap) (i : lptr) : lptr :=
  match p, i with
  | S p', LCell a => l_walk p' L (cnext (L a))
  | _, _ => i
  end.

(* the slots from _begin along `next` (at most [fuel] of them) *)
Fixpoint l_list (fuel : nat) (L : lheap) (i : lptr) : list nat :=
  match fuel, i with
  | S fuel', LCell a => a :: l_list fuel' L (cnext (L a))
  | _, _ => []
  end.

(* ---- two containers and the operations ----------------------------------------------------------------- *)
Record hstate := { h_a : cstate; h_b : cstate; h_cur : bool; h_next : nat }.
Definition h_init : hstate := {| h_a := cs_empty; h_b := cs_empty; h_cur := false; h_next := O |}.
Definition h_sel (st : hstate) : cstate := if h_cur st then h_b st else h_a st.
Definition h_other (st : hstate) : cstate := if h_cur st then h_a st else h_b st.
Definition h_set (st : hstate) (c : cstate) (n : nat) : hstate :=
  if h_cur st then {| h_a := h_a st; h_b := c; h_cur := true; h_next := n |}
  else {| h_a := c; h_b := h_b st; h_cur := false; h_next := n |}.

(* clear() (Map.hpp:89-101): the Items go to the free list (not modelled), the header is reset *)
Definition m_clear (cs : cstate) : cstate :=
  {| ts := (fst (ts cs), None);
     ls := {| lh := lh (ls cs); l_begin := LEnd; l_eprev := None; l_size := O |} |}.

(* copy constructor / operator= after clear(): `for(i = other._begin; i != end; i = i->next) insert(i->key, i->value)` *)
Fixpoint m_copy_loop (fuel : nat) (f : flavour) (src : cstate) (i : lptr) (cs : cstate) (n : nat) : option (cstate * nat) :=
  match i with
  | LEnd => Some (cs, n)
  | LCell a =>
      match fuel with
      | O => None
      | S fuel' =>
          match m_insert_plain f (ckey (fst (ts src) a)) (cval (fst (ts src) a)) n cs with
          | None => None
          | Some (cs', _, nw) => m_copy_loop fuel' f src (cnext (lh (ls src) a)) cs' (bump nw n)
          end
      end
  end.

(* Map::insert(const Map& other) (Map.hpp:162-171) *)
Fixpoint m_bulk_loop (fuel : nat) (f : flavour) (src : cstate) (i : lptr) (it : nat) (cs : cstate) (n : nat) : option (cstate * nat) :=
  match i with
  | LEnd => Some (cs, n)
  | LCell a =>
      match fuel with
      | O => None
      | S fuel' =>
          match m_insert_hint f (LCell it) (ckey (fst (ts src) a)) (cval (fst (ts src) a)) n cs with
          | None => None
          | Some (cs', it', nw) => m_bulk_loop fuel' f src (cnext (lh (ls src) a)) it' cs' (bump nw n)
          end
      end
  end.

Definition m_bulk (f : flavour) (src : cstate) (cs : cstate) (n : nat) : option (cstate * nat) :=
  match snd (ts src) with
  | None => Some (cs, n)
  | Some _ =>
      match l_begin (ls src) with
      | LEnd => None
      | LCell a =>
          match m_insert_plain f (ckey (fst (ts src) a)) (cval (fst (ts src) a)) n cs with
          | None => None
          | Some (cs', it, nw) => m_bulk_loop (l_size (ls src)) f src (cnext (lh (ls src) a)) it cs' (bump nw n)
          end
      end
  end.

(* one operation on the cells; the public results are those of AvlModel.step (the cell machine
   only has to end in the cells that represent the node-level tree) *)
Definition hstep (f : flavour) (st : hstate) (o : op) : option hstate :=
  let c := h_sel st in
  let n := h_next st in
  let rm (p : lptr) :=
    match p with
    | LEnd => Some st
    | LCell a => match m_remove a c with Some (c', _) => Some (h_set st c' n) | None => None end
    end in
  match o with
  | OIns k v =>
      match m_insert_plain f k v n c with Some (c', _, nw) => Some (h_set st c' (bump nw n)) | None => None end
  | OHint pos k v =>
      match m_insert_hint f (l_walk pos (lh (ls c)) (l_begin (ls c))) k v n c with
      | Some (c', _, nw) => Some (h_set st c' (bump nw n))
      | None => None
      end
  | ORemKey k =>
      match m_find (S (l_size (ls c))) f k (fst (ts c)) (snd (ts c)) LEnd with
      | Some p => rm p
      | None => None
      end
  | ORemAt pos => rm (l_walk pos (lh (ls c)) (l_begin (ls c)))
  | ORemFront => rm (l_begin (ls c))
  | ORemBack => match l_eprev (ls c) with Some a => rm (LCell a) | None => Some st end
  | OClear => Some (h_set st (m_clear c) n)
  | OSel b => Some {| h_a := h_a st; h_b := h_b st; h_cur := b; h_next := n |}
  | OCopy =>
      let src := h_other st in
      match m_copy_loop (l_size (ls src)) f src (l_begin (ls src)) (m_clear c) n with
      | Some (c', n') => Some (h_set st c' n')
      | None => None
      end
  | OBulk =>
      match f with
      | FMap => match m_bulk f (h_other st) c n with Some (c', n') => Some (h_set st c' n') | None => None end
      | FMulti => Some st
      end
  | OFind _ | OHas _ | OCount _ | OFront | OBack | OSelf => Some st
  end.

Fixpoint hrun (f : flavour) (st : hstate) (ops : list op) : option hstate :=
  match ops with
  | [] => Some st
  | o :: rest => match hstep f st o with Some st' => hrun f st' rest | None => None end
  end.
