(* List-level lemmas about the reference object (sorted lists of entries). *)
From Coq Require Import ZArith List Bool Arith Lia ZifyBool.
From Avl Require Import AvlSpec.
Import ListNotations.
Local Open Scope Z_scope.

Lemma klt_le f a b : klt f a b -> a <= b.
Proof. destruct f; cbn [klt]; lia. Qed.
Lemma lt_klt f a b : a < b -> klt f a b.
Proof. destruct f; cbn [klt]; lia. Qed.
Lemma klt_le_trans f a b c : klt f a b -> b <= c -> klt f a c.
Proof. destruct f; cbn [klt]; lia. Qed.
Lemma le_klt_trans f a b c : a <= b -> klt f b c -> klt f a c.
Proof. destruct f; cbn [klt]; lia. Qed.

Lemma sorted_app f a b :
  sorted f (a ++ b) <->
  sorted f a /\ sorted f b /\ (forall x y, In x a -> In y b -> klt f (ekey x) (ekey y)).
Proof.
  induction a as [|e a IH]; cbn [app sorted].
  - split; [intros H; repeat split; auto; intros x y []|intros (_ & H & _); exact H].
  - rewrite IH. split.
    + intros (H1 & H2 & H3 & H4). repeat split; auto.
      * intros e' He'. apply H1, in_or_app. auto.
      * intros x y [<-|Hx] Hy; [apply H1, in_or_app; auto|apply H4; auto].
    + intros ((H1 & H2) & H3 & H4). repeat split; auto.
      * intros e' He'. apply in_app_or in He' as [He'|He']; [apply H1; auto|apply H4; cbn; auto].
      * intros x y Hx Hy. apply H4; cbn; auto.
Qed.

Lemma sorted_cons_inv f e l : sorted f (e :: l) -> sorted f l.
Proof. cbn [sorted]. tauto. Qed.

Lemma sorted_map_multi l : sorted FMap l -> sorted FMulti l.
Proof.
  induction l as [|e l IH]; cbn [sorted]; auto. intros (H1 & H2). split; auto.
  intros e' He'. specialize (H1 e' He'). cbn [klt] in *. lia.
Qed.

Lemma sorted_mid f a x b :
  sorted f (a ++ x :: b) ->
  sorted f a /\ sorted f b /\ (forall e, In e a -> klt f (ekey e) (ekey x)) /\ (forall e, In e b -> klt f (ekey x) (ekey e)).
Proof.
  rewrite sorted_app. cbn [sorted]. intros (Ha & (Hx & Hb) & Hab). repeat split; auto.
  intros e He. apply Hab; cbn; auto.
Qed.

(* ---- ins_list -------------------------------------------------------------------------- *)
Lemma ins_list_app_r f k v s a b :
  (forall x, In x a -> klt f (ekey x) k) -> ins_list f k v s (a ++ b) = a ++ ins_list f k v s b.
Proof.
  induction a as [|e a IH]; intros H; cbn [app ins_list]; auto.
  assert (He : klt f (ekey e) k) by (apply H; cbn; auto).
  destruct (k <? ekey e) eqn:E1; [destruct f; cbn [klt] in He; lia|].
  destruct f; cbn [klt] in He.
  - destruct (k =? ekey e) eqn:E2; [lia|]. rewrite IH; auto. intros x Hx. apply H; cbn; auto.
  - rewrite IH; auto. intros x Hx. apply H; cbn; auto.
Qed.

Lemma ins_list_app_l f k v s a b :
  (forall x, In x b -> k < ekey x) -> ins_list f k v s (a ++ b) = ins_list f k v s a ++ b.
Proof.
  intros H. induction a as [|e a IH]; cbn [app ins_list].
  - destruct b as [|e b]; cbn [ins_list]; auto.
    assert (k < ekey e) by (apply H; cbn; auto). destruct (k <? ekey e) eqn:E; [reflexivity|lia].
  - destruct (k <? ekey e); [reflexivity|].
    destruct f; [destruct (k =? ekey e); [reflexivity|]|]; rewrite IH; reflexivity.
Qed.

Lemma ins_list_all_below f k v s a :
  (forall x, In x a -> klt f (ekey x) k) -> ins_list f k v s a = a ++ [(k, v, s)].
Proof. intros H. rewrite <- (app_nil_r a) at 1. rewrite ins_list_app_r by exact H. reflexivity. Qed.

Lemma ins_list_all_above f k v s b :
  (forall x, In x b -> k < ekey x) -> ins_list f k v s b = (k, v, s) :: b.
Proof. intros H. change b with ([] ++ b) at 1. rewrite ins_list_app_l by exact H. reflexivity. Qed.

Lemma in_ins_list f k v s l x : In x (ins_list f k v s l) -> ekey x = k \/ In x l.
Proof.
  induction l as [|e l IH]; cbn [ins_list].
  - intros [<-|[]]. auto.
  - destruct (k <? ekey e).
    + intros [<-|H]; auto.
    + destruct f.
      * destruct (k =? ekey e) eqn:E.
        -- intros [<-|H]; [auto|right; cbn; auto].
        -- intros [<-|H]; [right; cbn; auto|]. destruct (IH H); auto. right; cbn; auto.
      * intros [<-|H]; [right; cbn; auto|]. destruct (IH H); auto. right; cbn; auto.
Qed.

Lemma sorted_ins_list f k v s l : sorted f l -> sorted f (ins_list f k v s l).
Proof.
  induction l as [|e l IH]; cbn [ins_list sorted].
  - intros _. split; auto. intros e' [].
  - intros (H1 & H2). destruct (k <? ekey e) eqn:E1.
    + cbn [sorted]. repeat split; auto. intros e' [<-|He'].
      * apply lt_klt. cbn [ekey fst]. lia.
      * apply lt_klt. specialize (H1 e' He'). apply klt_le in H1. cbn [ekey fst] in *. lia.
    + destruct f.
      * destruct (k =? ekey e) eqn:E2.
        -- cbn [sorted]. split; auto. intros e' He'. specialize (H1 e' He'). cbn [klt ekey fst] in *. lia.
        -- cbn [sorted]. split; auto. intros e' He'. apply in_ins_list in He' as [He'|He']; auto.
           cbn [klt]. lia.
      * cbn [sorted]. split; auto. intros e' He'. apply in_ins_list in He' as [He'|He']; auto.
        cbn [klt]. lia.
Qed.

(* inserting inside a segment M of a sorted list A ++ M ++ B keeps it sorted when k fits *)
Lemma sorted_ins_segment f k v s a m b :
  sorted f (a ++ m ++ b) ->
  (forall x, In x a -> klt f (ekey x) k) -> (forall x, In x b -> klt f k (ekey x)) ->
  sorted f (a ++ ins_list f k v s m ++ b).
Proof.
  rewrite !sorted_app. intros (Ha & (Hm & Hb & Hmb) & Hamb) Hak Hkb.
  repeat split; auto.
  - apply sorted_ins_list; auto.
  - intros x y Hx Hy. apply in_ins_list in Hx as [Hx|Hx]; [rewrite Hx; auto|auto].
  - intros x y Hx Hy. apply in_app_or in Hy as [Hy|Hy].
    + apply in_ins_list in Hy as [Hy|Hy]; [rewrite Hy; auto|apply Hamb; auto using in_or_app].
    + apply Hamb; auto using in_or_app.
Qed.

(* ---- counting --------------------------------------------------------------------------- *)
Lemma filter_all {A} (p : A -> bool) l : (forall x, In x l -> p x = true) -> filter p l = l.
Proof.
  induction l as [|e l IH]; cbn [filter]; auto. intros H.
  rewrite (H e) by (cbn; auto). rewrite IH; auto. intros x Hx. apply H; cbn; auto.
Qed.
Lemma filter_none {A} (p : A -> bool) l : (forall x, In x l -> p x = false) -> filter p l = [].
Proof.
  induction l as [|e l IH]; cbn [filter]; auto. intros H.
  rewrite (H e) by (cbn; auto). apply IH. intros x Hx. apply H; cbn; auto.
Qed.

Lemma count_lt_app k a b : count_lt k (a ++ b) = (count_lt k a + count_lt k b)%nat.
Proof. unfold count_lt. rewrite filter_app, app_length. reflexivity. Qed.
Lemma count_le_app k a b : count_le k (a ++ b) = (count_le k a + count_le k b)%nat.
Proof. unfold count_le. rewrite filter_app, app_length. reflexivity. Qed.
Lemma count_list_app k a b : count_list k (a ++ b) = (count_list k a + count_list k b)%nat.
Proof. unfold count_list. rewrite filter_app, app_length. reflexivity. Qed.

Lemma count_lt_all k a : (forall x, In x a -> ekey x < k) -> count_lt k a = length a.
Proof. intros H. unfold count_lt. rewrite filter_all; auto. intros x Hx. specialize (H x Hx). lia. Qed.
Lemma count_lt_none k a : (forall x, In x a -> k <= ekey x) -> count_lt k a = O.
Proof. intros H. unfold count_lt. rewrite filter_none; auto. intros x Hx. specialize (H x Hx). lia. Qed.
Lemma count_le_all k a : (forall x, In x a -> ekey x <= k) -> count_le k a = length a.
Proof. intros H. unfold count_le. rewrite filter_all; auto. intros x Hx. specialize (H x Hx). lia. Qed.
Lemma count_le_none k a : (forall x, In x a -> k < ekey x) -> count_le k a = O.
Proof. intros H. unfold count_le. rewrite filter_none; auto. intros x Hx. specialize (H x Hx). lia. Qed.
Lemma count_list_none k a : (forall x, In x a -> ekey x <> k) -> count_list k a = O.
Proof. intros H. unfold count_list. rewrite filter_none; auto. intros x Hx. specialize (H x Hx). lia. Qed.

Lemma has_key_app k a b : has_key k (a ++ b) = has_key k a || has_key k b.
Proof. unfold has_key. apply existsb_app. Qed.
Lemma has_key_none k a : (forall x, In x a -> ekey x <> k) -> has_key k a = false.
Proof.
  unfold has_key. induction a as [|e a IH]; cbn [existsb]; auto. intros H.
  rewrite IH by (intros x Hx; apply H; cbn; auto).
  assert (ekey e <> k) by (apply H; cbn; auto). destruct (ekey e =? k) eqn:E; [lia|reflexivity].
Qed.

(* the created/updated distinction, on sorted lists *)
Lemma has_key_sorted_head f k e l : sorted f (e :: l) -> k < ekey e -> has_key k (e :: l) = false.
Proof.
  intros (H1 & _) Hk. apply has_key_none. intros x [<-|Hx]; [lia|].
  specialize (H1 x Hx). apply klt_le in H1. lia.
Qed.

Lemma length_ins_list f k v s l :
  sorted f l ->
  length (ins_list f k v s l) =
  (length l + if (match f with FMap => negb (has_key k l) | FMulti => true end) then 1 else 0)%nat.
Proof.
  induction l as [|e l IH]; cbn [ins_list]; intros Hs.
  - destruct f; reflexivity.
  - destruct (k <? ekey e) eqn:E1.
    + destruct f; cbn [length]; [|lia]. rewrite (has_key_sorted_head FMap k e l Hs) by lia. cbn [negb]. lia.
    + specialize (IH (sorted_cons_inv _ _ _ Hs)). destruct f.
      * unfold has_key in *. cbn [existsb]. destruct (k =? ekey e) eqn:E2.
        -- replace (ekey e =? k) with true by lia. cbn [orb negb length]. lia.
        -- replace (ekey e =? k) with false by lia. cbn [orb length]. rewrite IH. lia.
      * cbn [length]. rewrite IH. lia.
Qed.

(* MultiMap: plain insert = insertion after all entries with key <= k *)
Lemma ins_list_multi_insert_at k v s l :
  sorted FMulti l -> ins_list FMulti k v s l = insert_at (count_le k l) (k, v, s) l.
Proof.
  induction l as [|e l IH]; intros Hs; cbn [ins_list].
  - reflexivity.
  - destruct (k <? ekey e) eqn:E1.
    + rewrite count_le_none; [reflexivity|]. destruct Hs as (H1 & _).
      intros x [<-|Hx]; [lia|]. specialize (H1 x Hx). cbn [klt] in H1. lia.
    + unfold count_le. cbn [filter]. replace (ekey e <=? k) with true by lia. cbn [length].
      fold (count_le k l). unfold insert_at. cbn [firstn skipn app]. f_equal.
      apply IH. exact (sorted_cons_inv _ _ _ Hs).
Qed.

Lemma valid_pos_count_le k l : sorted FMulti l -> valid_pos k (count_le k l) l = true.
Proof.
  induction l as [|e l IH]; intros Hs.
  - reflexivity.
  - unfold valid_pos, count_le in *. cbn [filter]. destruct (ekey e <=? k) eqn:E1.
    + cbn [length firstn skipn forallb]. rewrite E1. specialize (IH (sorted_cons_inv _ _ _ Hs)).
      apply andb_true_iff in IH as (IH1 & IH3). apply andb_true_iff in IH1 as (IH1 & IH2).
      rewrite IH2, IH3. rewrite !andb_true_r. apply Nat.leb_le. apply Nat.leb_le in IH1. lia.
    + destruct Hs as (H1 & _).
      rewrite filter_none.
      * cbn [length firstn skipn forallb andb Nat.leb]. apply andb_true_iff. split; [lia|].
        apply forallb_forall. intros x Hx. specialize (H1 x Hx). cbn [klt] in H1. lia.
      * intros x Hx. specialize (H1 x Hx). cbn [klt] in H1. lia.
Qed.

(* ---- find_list -------------------------------------------------------------------------- *)
Lemma find_list_none k l : find_list k l = None <-> (forall x, In x l -> ekey x <> k).
Proof.
  induction l as [|e l IH]; cbn [find_list].
  - split; [intros _ x []|auto].
  - destruct (ekey e =? k) eqn:E.
    + split; [discriminate|]. intros H. exfalso. apply (H e); cbn; auto. lia.
    + destruct (find_list k l); cbn [option_map].
      * split; [discriminate|]. intros H. exfalso. assert (Hn : @None nat = None) by reflexivity.
        destruct IH as (_ & IH). discriminate IH. intros x Hx. apply H; cbn; auto.
      * split; auto. intros _ x [<-|Hx]; [lia|]. destruct IH as (IH & _). apply IH; auto.
Qed.

Lemma find_list_app_none k a b :
  (forall x, In x a -> ekey x <> k) ->
  find_list k (a ++ b) = option_map (fun i => (length a + i)%nat) (find_list k b).
Proof.
  induction a as [|e a IH]; intros H; cbn [app find_list length].
  - destruct (find_list k b); reflexivity.
  - assert (ekey e <> k) by (apply H; cbn; auto). destruct (ekey e =? k) eqn:E; [lia|].
    rewrite IH by (intros x Hx; apply H; cbn; auto). destruct (find_list k b); reflexivity.
Qed.

Lemma find_list_app_some k a b i : find_list k a = Some i -> find_list k (a ++ b) = Some i.
Proof.
  revert i. induction a as [|e a IH]; intros i; cbn [app find_list]; [discriminate|].
  destruct (ekey e =? k); auto.
  destruct (find_list k a) as [j|]; cbn [option_map]; [|discriminate].
  intros [= <-]. rewrite (IH j); reflexivity.
Qed.

Lemma find_list_app_l k a b :
  (forall x, In x b -> ekey x <> k) -> find_list k (a ++ b) = find_list k a.
Proof.
  intros H. destruct (find_list k a) as [i|] eqn:E.
  - apply find_list_app_some; exact E.
  - rewrite find_list_app_none by (apply find_list_none; exact E).
    assert (Hb : find_list k b = None) by (apply find_list_none; exact H). rewrite Hb. reflexivity.
Qed.

Lemma find_list_nth k l i :
  find_list k l = Some i -> exists e, nth_error l i = Some e /\ ekey e = k /\ (forall x, In x (firstn i l) -> ekey x <> k).
Proof.
  revert i. induction l as [|e l IH]; intros i; cbn [find_list]; [discriminate|].
  destruct (ekey e =? k) eqn:E.
  - intros [= <-]. exists e. cbn [nth_error firstn]. repeat split; auto; try lia; intros x [].
  - destruct (find_list k l) as [j|]; cbn [option_map]; [|discriminate]. intros [= <-].
    destruct (IH j eq_refl) as (e' & H1 & H2 & H3). exists e'. cbn [nth_error firstn]. repeat split; auto.
    intros x [<-|Hx]; [lia|auto].
Qed.

Lemma has_key_find k l : has_key k l = match find_list k l with Some _ => true | None => false end.
Proof.
  unfold has_key. induction l as [|e l IH]; cbn [existsb find_list]; auto.
  destruct (ekey e =? k); cbn [orb]; auto. rewrite IH. destruct (find_list k l); reflexivity.
Qed.

(* ---- remove_nth -------------------------------------------------------------------------- *)
Lemma remove_nth_app_l {A} i (a b : list A) : (i < length a)%nat -> remove_nth i (a ++ b) = remove_nth i a ++ b.
Proof.
  revert i. induction a as [|e a IH]; intros i H; cbn [length] in H; [lia|].
  destruct i; cbn [app remove_nth]; auto. rewrite IH by lia. reflexivity.
Qed.
Lemma remove_nth_app_r {A} j (a b : list A) : remove_nth (length a + j) (a ++ b) = a ++ remove_nth j b.
Proof. induction a as [|e a IH]; cbn [length app remove_nth Nat.add]; auto. rewrite IH. reflexivity. Qed.
Lemma remove_nth_mid {A} (a : list A) x b : remove_nth (length a) (a ++ x :: b) = a ++ b.
Proof. rewrite <- (Nat.add_0_r (length a)). rewrite remove_nth_app_r. reflexivity. Qed.

Lemma in_remove_nth {A} i (l : list A) x : In x (remove_nth i l) -> In x l.
Proof.
  revert i. induction l as [|e l IH]; intros i; [destruct i; cbn; auto|].
  destruct i; cbn [remove_nth]; [cbn; auto|]. intros [<-|H]; [cbn; auto|]. right. eapply IH; eauto.
Qed.

Lemma sorted_remove_nth f i l : sorted f l -> sorted f (remove_nth i l).
Proof.
  revert i. induction l as [|e l IH]; intros i; [destruct i; auto|].
  intros (H1 & H2). destruct i; cbn [remove_nth]; auto. cbn [sorted]. split; auto.
  intros e' He'. apply H1. eapply in_remove_nth; eauto.
Qed.

Lemma length_remove_nth {A} i (l : list A) : (i < length l)%nat -> length (remove_nth i l) = pred (length l).
Proof.
  revert i. induction l as [|e l IH]; intros i H; cbn [length] in H; [lia|].
  destruct i; cbn [remove_nth length]; auto. rewrite IH by lia. destruct l; cbn [length] in *; lia.
Qed.

Lemma remove_nth_last {A} (l : list A) : remove_nth (length l - 1) l = removelast l.
Proof.
  induction l as [|e l IH]; auto. destruct l as [|e2 l]; [reflexivity|].
  cbn [length] in *. replace (S (S (length l)) - 1)%nat with (S (length l)) by lia.
  replace (S (length l) - 1)%nat with (length l) in IH by lia.
  cbn [remove_nth]. cbn [removelast] in *. rewrite IH. reflexivity.
Qed.

(* ---- run of equal keys --------------------------------------------------------------------- *)
Fixpoint run_len_l (k : Z) (l : list entry) : nat :=
  match l with e :: t => if ekey e =? k then S (run_len_l k t) else O | [] => O end.

Lemma run_len_count k l :
  sorted FMulti l -> (forall x, In x l -> k <= ekey x) -> run_len_l k l = count_list k l.
Proof.
  induction l as [|e l IH]; intros Hs Hk; auto.
  cbn [run_len_l]. unfold count_list. cbn [filter]. destruct (ekey e =? k) eqn:E.
  - cbn [length]. f_equal. apply IH; [exact (sorted_cons_inv _ _ _ Hs)|intros x Hx; apply Hk; cbn; auto].
  - rewrite filter_none; auto. destruct Hs as (H1 & _). assert (k <= ekey e) by (apply Hk; cbn; auto).
    intros x Hx. specialize (H1 x Hx). cbn [klt] in H1. lia.
Qed.

Lemma nth_error_split_len {A} (l : list A) i x :
  nth_error l i = Some x -> l = firstn i l ++ x :: skipn (S i) l /\ length (firstn i l) = i.
Proof.
  revert i. induction l as [|e l IH]; intros i; [destruct i; discriminate|].
  destruct i; cbn [nth_error firstn skipn app length].
  - intros [= ->]. auto.
  - intros H. destruct (IH i H) as (H1 & H2). split; [f_equal; exact H1|f_equal; exact H2].
Qed.

Lemma app_eq_len {A} (a b c d : list A) : a ++ b = c ++ d -> length a = length c -> a = c /\ b = d.
Proof.
  revert c. induction a as [|x a IH]; intros [|y c] H Hl; cbn [length] in Hl; try lia; auto.
  cbn [app] in H. injection H as -> H. destruct (IH c H) as (-> & ->); auto.
Qed.
