(* What every tree operation of the model does to the in-order sequence. *)
From Coq Require Import ZArith List Bool Arith Lia ZifyBool.
From Avl Require Import AvlSpec AvlModel AvlLists AvlBalance.
Import ListNotations.
Local Open Scope Z_scope.

Arguments Nat.max : simpl never.

Ltac keys := cbn [ekey eval eslot fst snd] in *.

(* ---- plain insert ---------------------------------------------------------------------------- *)
Lemma ins_inorder f k v s t :
  sorted f (inorder t) -> inorder (ins f k v s t) = ins_list f k v s (inorder t).
Proof.
  induction t as [|l IHl k' v' s' h r IHr]; intros Hs; [reflexivity|].
  cbn [inorder] in Hs. destruct (sorted_mid _ _ _ _ Hs) as (Hsl & Hsr & Hlx & Hxr). keys.
  cbn [ins]. destruct f.
  - destruct (k >? k') eqn:E1; [|destruct (k <? k') eqn:E2].
    + rewrite inorder_rebal_mk, IHr by assumption. cbn [inorder].
      rewrite ins_list_app_r by (intros x Hx; specialize (Hlx x Hx); cbn [klt] in *; lia).
      cbn [ins_list]. keys. replace (k <? k') with false by lia. replace (k =? k') with false by lia. reflexivity.
    + rewrite inorder_rebal_mk, IHl by assumption. cbn [inorder].
      rewrite ins_list_app_l; [reflexivity|]. intros x [<-|Hx]; keys; [lia|].
      specialize (Hxr x Hx). cbn [klt] in *. lia.
    + cbn [inorder]. assert (k = k') by lia. subst k'.
      rewrite ins_list_app_r by (intros x Hx; specialize (Hlx x Hx); cbn [klt] in *; lia).
      cbn [ins_list]. keys. rewrite Z.ltb_irrefl, Z.eqb_refl. reflexivity.
  - destruct (k <? k') eqn:E2.
    + rewrite inorder_rebal_mk, IHl by assumption. cbn [inorder].
      rewrite ins_list_app_l; [reflexivity|]. intros x [<-|Hx]; keys; [lia|].
      specialize (Hxr x Hx). cbn [klt] in *. lia.
    + rewrite inorder_rebal_mk, IHr by assumption. cbn [inorder].
      rewrite ins_list_app_r by (intros x Hx; specialize (Hlx x Hx); cbn [klt] in *; lia).
      cbn [ins_list]. keys. rewrite E2. reflexivity.
Qed.

Lemma ins_rank_pos f k t : sorted f (inorder t) -> ins_rank f k t = ins_pos f k (inorder t).
Proof.
  induction t as [|l IHl k' v' s' h r IHr]; intros Hs; [destruct f; reflexivity|].
  cbn [inorder] in Hs. destruct (sorted_mid _ _ _ _ Hs) as (Hsl & Hsr & Hlx & Hxr). keys.
  cbn [ins_rank inorder]. rewrite size_inorder. destruct f; cbn [ins_pos] in *.
  - rewrite count_lt_app. change ((k', v', s') :: inorder r) with ([(k', v', s')] ++ inorder r).
    rewrite count_lt_app. unfold count_lt at 2. cbn [filter]. keys.
    destruct (k >? k') eqn:E1; [|destruct (k <? k') eqn:E2].
    + rewrite IHr by assumption. replace (k' <? k) with true by lia. cbn [length].
      rewrite (count_lt_all k (inorder l)); [lia|]. intros x Hx. specialize (Hlx x Hx). cbn [klt] in *. lia.
    + rewrite IHl by assumption. replace (k' <? k) with false by lia. cbn [length].
      rewrite (count_lt_none k (inorder r)); [lia|]. intros x Hx. specialize (Hxr x Hx). cbn [klt] in *. lia.
    + replace (k' <? k) with false by lia. cbn [length].
      rewrite (count_lt_none k (inorder r)) by (intros x Hx; specialize (Hxr x Hx); cbn [klt] in *; lia).
      rewrite (count_lt_all k (inorder l)); [lia|]. intros x Hx. specialize (Hlx x Hx). cbn [klt] in *. lia.
  - rewrite count_le_app. change ((k', v', s') :: inorder r) with ([(k', v', s')] ++ inorder r).
    rewrite count_le_app. unfold count_le at 2. cbn [filter]. keys.
    destruct (k <? k') eqn:E2.
    + rewrite IHl by assumption. replace (k' <=? k) with false by lia. cbn [length].
      rewrite (count_le_none k (inorder r)); [lia|]. intros x Hx. specialize (Hxr x Hx). cbn [klt] in *. lia.
    + rewrite IHr by assumption. replace (k' <=? k) with true by lia. cbn [length].
      rewrite (count_le_all k (inorder l)); [lia|]. intros x Hx. specialize (Hlx x Hx). cbn [klt] in *. lia.
Qed.

Lemma ins_new_multi k t : ins_new FMulti k t = true.
Proof. induction t as [|l IHl k' v' s' h r IHr]; cbn [ins_new]; auto. destruct (k <? k'); auto. Qed.

Lemma ins_new_has k t : sorted FMap (inorder t) -> ins_new FMap k t = negb (has_key k (inorder t)).
Proof.
  induction t as [|l IHl k' v' s' h r IHr]; intros Hs; [reflexivity|].
  cbn [inorder] in Hs. destruct (sorted_mid _ _ _ _ Hs) as (Hsl & Hsr & Hlx & Hxr). keys.
  cbn [ins_new inorder]. rewrite has_key_app. unfold has_key at 2. cbn [existsb]. fold (has_key k (inorder r)). keys.
  destruct (k >? k') eqn:E1; [|destruct (k <? k') eqn:E2].
  - rewrite IHr by assumption. replace (k' =? k) with false by lia.
    rewrite (has_key_none k (inorder l)); [reflexivity|]. intros x Hx. specialize (Hlx x Hx). cbn [klt] in *. lia.
  - rewrite IHl by assumption. replace (k' =? k) with false by lia.
    rewrite (has_key_none k (inorder r)); [rewrite !orb_false_r; reflexivity|].
    intros x Hx. specialize (Hxr x Hx). cbn [klt] in *. lia.
  - replace (k' =? k) with true by lia. cbn [orb]. rewrite orb_true_r. reflexivity.
Qed.

Lemma size_ins f k v s t : size (ins f k v s t) = (size t + if ins_new f k t then 1 else 0)%nat.
Proof.
  induction t as [|l IHl k' v' s' h r IHr]; [reflexivity|].
  cbn [ins ins_new]. destruct f.
  - destruct (k >? k'); [|destruct (k <? k')]; rewrite ?size_rebal; cbn [mk size]; rewrite ?IHl, ?IHr; lia.
  - destruct (k <? k'); rewrite ?size_rebal; cbn [mk size]; rewrite ?IHl, ?IHr; lia.
Qed.

(* ---- removal ------------------------------------------------------------------------------------ *)
Lemma pop_min_inorder l : forall k v s r,
  inorder l ++ (k, v, s) :: inorder r = fst (pop_min l k v s r) :: inorder (snd (pop_min l k v s r)).
Proof.
  induction l as [|ll IHll lk lv ls lh lr _]; intros k v s r; [reflexivity|].
  cbn [pop_min]. specialize (IHll lk lv ls lr). destruct (pop_min ll lk lv ls lr) as [e l'].
  cbn [fst snd] in *. rewrite inorder_rebal_mk. cbn [inorder]. rewrite IHll. reflexivity.
Qed.

Lemma pop_max_inorder r : forall l k v s,
  inorder l ++ (k, v, s) :: inorder r = inorder (snd (pop_max l k v s r)) ++ [fst (pop_max l k v s r)].
Proof.
  induction r as [|rl _ rk rv rs rh rr IHrr]; intros l k v s; [cbn [inorder pop_max fst snd]; reflexivity|].
  cbn [pop_max]. specialize (IHrr rl rk rv rs). destruct (pop_max rl rk rv rs rr) as [e r'].
  cbn [fst snd] in *. rewrite inorder_rebal_mk. cbn [inorder]. rewrite IHrr.
  rewrite <- app_assoc. reflexivity.
Qed.

Lemma entry_eta (e : entry) : (ekey e, eval e, eslot e) = e.
Proof. destruct e as [[a b] c]. reflexivity. Qed.

Lemma remove_root_inorder l r : inorder (remove_root l r) = inorder l ++ inorder r.
Proof.
  destruct l as [|ll lk lv ls lh lr], r as [|rl rk rv rs rh rr]; cbn [remove_root].
  - reflexivity.
  - reflexivity.
  - rewrite app_nil_r. reflexivity.
  - destruct (ht (Node ll lk lv ls lh lr) <? ht (Node rl rk rv rs rh rr))%nat.
    + pose proof (pop_min_inorder rl rk rv rs rr) as Hp.
      destruct (pop_min rl rk rv rs rr) as [e r']. cbn [fst snd] in Hp.
      rewrite inorder_rebal_mk, entry_eta. cbn [inorder] in *. rewrite Hp. reflexivity.
    + pose proof (pop_max_inorder lr ll lk lv ls) as Hp.
      destruct (pop_max ll lk lv ls lr) as [e l']. cbn [fst snd] in Hp.
      rewrite inorder_rebal_mk, entry_eta. cbn [inorder] in *. rewrite Hp.
      rewrite <- app_assoc. reflexivity.
Qed.

Lemma remove_rank_inorder i t : inorder (remove_rank i t) = remove_nth i (inorder t).
Proof.
  revert i. induction t as [|l IHl k v s h r IHr]; intros i; [destruct i; reflexivity|].
  cbn [remove_rank inorder]. rewrite size_inorder.
  destruct (i <? length (inorder l))%nat eqn:E1; [|destruct (i =? length (inorder l))%nat eqn:E2].
  - rewrite inorder_rebal_mk, IHl. rewrite remove_nth_app_l by lia. reflexivity.
  - rewrite remove_root_inorder. replace i with (length (inorder l)) by lia. rewrite remove_nth_mid. reflexivity.
  - rewrite inorder_rebal_mk, IHr.
    replace i with (length (inorder l) + S (i - length (inorder l) - 1))%nat at 2 by lia.
    rewrite remove_nth_app_r. reflexivity.
Qed.

(* ---- find ---------------------------------------------------------------------------------------- *)
Lemma find_rank_list f k t : sorted f (inorder t) -> find_rank f k t = find_list k (inorder t).
Proof.
  induction t as [|l IHl k' v' s' h r IHr]; intros Hs; [reflexivity|].
  cbn [inorder] in Hs. destruct (sorted_mid _ _ _ _ Hs) as (Hsl & Hsr & Hlx & Hxr). keys.
  cbn [find_rank inorder]. rewrite size_inorder.
  destruct (k >? k') eqn:E1; [|destruct (k <? k') eqn:E2].
  - rewrite find_list_app_none by (intros x Hx; specialize (Hlx x Hx); apply klt_le in Hlx; lia).
    cbn [find_list]. keys. replace (k' =? k) with false by lia. rewrite IHr by assumption.
    destruct (find_list k (inorder r)); cbn [option_map]; [f_equal; lia|reflexivity].
  - rewrite IHl by assumption. symmetry. apply find_list_app_l.
    intros x [<-|Hx]; keys; [lia|]. specialize (Hxr x Hx). apply klt_le in Hxr. lia.
  - assert (k = k') by lia. subst k'. destruct f.
    + rewrite find_list_app_none by (intros x Hx; specialize (Hlx x Hx); cbn [klt] in Hlx; lia).
      cbn [find_list]. keys. rewrite Z.eqb_refl. cbn [option_map]. f_equal. lia.
    + rewrite IHl by assumption. destruct (find_list k (inorder l)) as [i|] eqn:E.
      * symmetry. apply find_list_app_some. exact E.
      * rewrite find_list_app_none by (apply find_list_none; exact E).
        cbn [find_list]. keys. rewrite Z.eqb_refl. cbn [option_map]. f_equal. lia.
Qed.

Lemma run_len_eq k l : run_len k l = run_len_l k l.
Proof. induction l as [|e l IH]; cbn [run_len run_len_l]; auto. Qed.

Lemma count_model_list f k t : sorted f (inorder t) -> count_model f k t = count_list k (inorder t).
Proof.
  intros Hs. unfold count_model. rewrite find_rank_list by assumption.
  destruct (find_list k (inorder t)) as [i|] eqn:E.
  - destruct (find_list_nth _ _ _ E) as (e & Hn & Hk & Hbefore).
    destruct (nth_error_split_len _ _ _ Hn) as (Hsplit & Hlen).
    assert (Hsm : sorted FMulti (inorder t)) by (destruct f; auto using sorted_map_multi).
    rewrite Hsplit in Hsm. destruct (sorted_mid _ _ _ _ Hsm) as (_ & Hsr & _ & Hxr).
    rewrite Hsplit at 2. rewrite count_list_app. rewrite (count_list_none k (firstn i (inorder t))) by exact Hbefore.
    unfold count_list at 1. cbn [filter]. replace (ekey e =? k) with true by lia. cbn [length Nat.add]. f_equal.
    rewrite run_len_eq. apply run_len_count; auto.
    intros x Hx. specialize (Hxr x Hx). cbn [klt] in Hxr. lia.
  - symmetry. apply count_list_none. apply find_list_none. exact E.
Qed.

(* ---- hinted insert: what happens under the hint node ------------------------------------------------ *)
Lemma ins_at_spec f (rank : nat) (side : bool) k v s t :
  (rank < size t)%nat ->
  exists A sub B,
    inorder t = A ++ inorder sub ++ B /\
    (if side then length A else length (A ++ inorder sub)) = (if side then S rank else rank) /\
    inorder (ins_at f rank side k v s t) = A ++ inorder (ins f k v s sub) ++ B /\
    rank_at f rank side k t = (length A + ins_rank f k sub)%nat /\
    new_at f rank side k t = ins_new f k sub.
Proof.
  revert rank. induction t as [|l IHl k' v' s' h r IHr]; intros rank Hr; [cbn [size] in Hr; lia|].
  cbn [size] in Hr. cbn [ins_at rank_at new_at inorder].
  destruct (rank <? size l)%nat eqn:E1; [|destruct (rank =? size l)%nat eqn:E2].
  - destruct (IHl rank ltac:(lia)) as (A & sub & B & H1 & H2 & H3 & H4 & H5).
    exists A, sub, (B ++ (k', v', s') :: inorder r). repeat split; auto.
    + rewrite H1. repeat rewrite <- app_assoc. reflexivity.
    + rewrite inorder_rebal_mk, H3. repeat rewrite <- app_assoc. reflexivity.
  - destruct side.
    + exists (inorder l ++ [(k', v', s')]), r, []. repeat split.
      * rewrite app_nil_r, <- app_assoc. reflexivity.
      * rewrite app_length, <- size_inorder. cbn [length]. lia.
      * rewrite inorder_rebal_mk, app_nil_r, <- app_assoc. reflexivity.
      * rewrite app_length, <- size_inorder. cbn [length]. lia.
    + exists [], l, ((k', v', s') :: inorder r). repeat split.
      * cbn [app]. rewrite <- size_inorder. lia.
      * rewrite inorder_rebal_mk. reflexivity.
  - destruct (IHr (rank - size l - 1)%nat ltac:(lia)) as (A & sub & B & H1 & H2 & H3 & H4 & H5).
    exists (inorder l ++ (k', v', s') :: A), sub, B. repeat split; auto.
    + rewrite H1. rewrite <- app_assoc. reflexivity.
    + destruct side.
      * rewrite app_length. cbn [length]. rewrite <- size_inorder. lia.
      * rewrite <- app_assoc, app_length. cbn [app length]. rewrite <- size_inorder. lia.
    + rewrite inorder_rebal_mk, H3. rewrite <- app_assoc. reflexivity.
    + rewrite H4, app_length. cbn [length]. rewrite <- size_inorder. lia.
Qed.

Lemma set_val_at_inorder rank v t x :
  nth_error (inorder t) rank = Some x ->
  inorder (set_val_at rank v t) = firstn rank (inorder t) ++ (ekey x, v, eslot x) :: skipn (S rank) (inorder t).
Proof.
  revert rank. induction t as [|l IHl k' v' s' h r IHr]; intros rank Hn; [destruct rank; discriminate|].
  cbn [set_val_at inorder] in *. rewrite size_inorder.
  destruct (rank <? length (inorder l))%nat eqn:E1; [|destruct (rank =? length (inorder l))%nat eqn:E2].
  - rewrite nth_error_app1 in Hn by lia. cbn [inorder]. rewrite (IHl rank Hn).
    rewrite firstn_app, skipn_app. replace (rank - length (inorder l))%nat with O by lia.
    replace (S rank - length (inorder l))%nat with O by lia. cbn [firstn skipn].
    rewrite app_nil_r, <- app_assoc. reflexivity.
  - assert (rank = length (inorder l)) by lia. subst rank.
    rewrite nth_error_app2 in Hn by lia. rewrite Nat.sub_diag in Hn. cbn [nth_error] in Hn. injection Hn as <-.
    cbn [inorder]. keys. rewrite firstn_app, skipn_app, Nat.sub_diag, firstn_all. cbn [firstn].
    rewrite skipn_all2 by lia. replace (S (length (inorder l)) - length (inorder l))%nat with 1%nat by lia.
    cbn [skipn app]. rewrite app_nil_r. reflexivity.
  - remember (rank - length (inorder l) - 1)%nat as m eqn:Hm.
    assert (Hrk : rank = (length (inorder l) + S m)%nat) by lia.
    rewrite nth_error_app2 in Hn by lia.
    replace (rank - length (inorder l))%nat with (S m) in Hn by lia.
    cbn [nth_error] in Hn. cbn [inorder]. rewrite (IHr _ Hn). clear E1 E2 Hm. subst rank.
    rewrite firstn_app_2.
    replace (S (length (inorder l) + S m)) with (length (inorder l) + S (S m))%nat by lia.
    rewrite skipn_app. rewrite (@skipn_all2 _ (length (inorder l) + S (S m))%nat (inorder l)) by lia.
    replace (length (inorder l) + S (S m) - length (inorder l))%nat with (S (S m)) by lia.
    cbn [firstn skipn app]. rewrite <- app_assoc. reflexivity.
Qed.
