(* The tree code of the cell machine (updateHeightAndSlope, rotations, rebal, the upward loops)
   against the node-level functions of AvlModel. *)
From Coq Require Import ZArith List Bool Arith Lia ZifyBool Permutation.
From Avl Require Import AvlSpec AvlModel AvlBalance AvlHeapModel AvlHeapRep.
Import ListNotations.
Local Open Scope Z_scope.

Arguments Nat.max : simpl never.
Arguments Z.of_nat : simpl never.
Arguments Z.sub : simpl never.

(* a node whose height/slope fields may be stale *)
Definition nrep (T : theap) (par : ptr) (l : tree) (k v : Z) (s : nat) (r : tree) : Prop :=
  ckey (T s) = k /\ cval (T s) = v /\ cpar (T s) = par /\ cleft (T s) = rootp l /\ cright (T s) = rootp r /\
  trep T (Some s) l /\ trep T (Some s) r.

Definition cref_notin (cr : cref) (l : list nat) : Prop :=
  match cr with CRoot => True | CLeft g | CRight g => ~ In g l end.

Lemma trep_node T par l k v s h r :
  trep T par (Node l k v s h r) <->
  nrep T par l k v s r /\ cht (T s) = h /\ cslope (T s) = Z.of_nat (ht l) - Z.of_nat (ht r).
Proof. unfold nrep. cbn [trep]. tauto. Qed.

(* changing the parent pointer of the root of a subtree *)
Lemma trep_reparent T par par' t :
  NoDup (tslots t) -> trep T par t ->
  trep (match rootp t with Some a => w_par a par' T | None => T end) par' t.
Proof.
  destruct t as [|l k v s h r]; cbn [rootp]; auto.
  intros Hnd. cbn [tslots] in Hnd. apply NoDup_node in Hnd as (_ & _ & Hl & Hr & _).
  cbn [trep]. intros (H1 & H2 & H3 & H4 & H5 & H6 & H7 & H8 & H9).
  unfold w_par. rewrite upd_same. cbn [set_par ckey cval cpar cleft cright cht cslope].
  repeat split; auto.
  - apply trep_ext with T; auto. intros x Hx. apply upd_neq. intros ->. tauto.
  - apply trep_ext with T; auto. intros x Hx. apply upd_neq. intros ->. tauto.
Qed.

Lemma update_node T par l k v s r :
  nrep T par l k v s r -> ~ In s (tslots l) -> ~ In s (tslots r) -> trep (m_update s T) par (mk l k v s r).
Proof.
  intros (H1 & H2 & H3 & H4 & H5 & H6 & H7) Hl Hr. unfold mk. cbn [trep].
  unfold m_update. rewrite upd_same. cbn [set_hs ckey cval cpar cleft cright cht cslope].
  rewrite H4, H5, (hgt_rootp _ _ _ H6), (hgt_rootp _ _ _ H7).
  repeat split; auto.
  - apply trep_ext with T; auto. intros x Hx. apply upd_neq. intros ->. tauto.
  - apply trep_ext with T; auto. intros x Hx. apply upd_neq. intros ->. tauto.
Qed.

Lemma wr_cell_other cr p T root x :
  match cr with CRoot => True | CLeft g | CRight g => x <> g end -> fst (wr_cell cr p (T, root)) x = T x.
Proof. destruct cr; cbn [wr_cell fst snd]; auto; intros H; unfold w_left, w_right; apply upd_neq; exact H. Qed.

Lemma wr_cell_ext cr p T1 T root1 root x :
  T1 x = T x -> fst (wr_cell cr p (T1, root1)) x = fst (wr_cell cr p (T, root)) x.
Proof.
  intros E. destruct cr as [|g|g]; cbn [wr_cell fst snd]; auto; unfold w_left, w_right, upd;
    destruct (Nat.eqb x g) eqn:Eg; auto; apply Nat.eqb_eq in Eg; subst; rewrite E; reflexivity.
Qed.

Lemma wr_cell_snd_ext cr p T1 T root : snd (wr_cell cr p (T1, root)) = snd (wr_cell cr p (T, root)).
Proof. destruct cr; reflexivity. Qed.

Ltac innorm := repeat (progress (rewrite ?in_app_iff in *; cbn [In] in * )).

Lemma m_rotr_spec T root cr par a k1 v1 s1 h1 b k2 v2 s2 c :
  let t := Node (Node a k1 v1 s1 h1 b) k2 v2 s2 O c in
  nrep T par (Node a k1 v1 s1 h1 b) k2 v2 s2 c ->
  NoDup (tslots t) -> rd_cell cr (T, root) = Some s2 -> cref_notin cr (tslots t) ->
  exists T', m_rotr cr (T, root) = Some (T', snd (wr_cell cr (Some s1) (T, root))) /\
    trep T' par (mk a k1 v1 s1 (mk b k2 v2 s2 c)) /\
    forall x, ~ In x (tslots t) -> T' x = fst (wr_cell cr (Some s1) (T, root)) x.
Proof.
  intros t (K & V & P & Lf & Rt & Hl & Hc) Hnd Hrd Hout. subst t.
  cbn [trep] in Hl. destruct Hl as (K1 & V1 & P1 & L1 & R1 & Hh1 & Sl1 & Ha & Hb).
  cbn [tslots] in Hnd, Hout.
  apply NoDup_node in Hnd as (Hnd1 & Hndc & Hs2l & Hs2c & Dlc).
  apply NoDup_node in Hnd1 as (Hnda & Hndb & Hs1a & Hs1b & Dab).
  assert (N12 : s1 <> s2) by (intros ->; apply Hs2l; apply in_elt).
  unfold m_rotr. rewrite Hrd. cbn [fst snd]. rewrite Lf. cbn [rootp]. rewrite R1, P.
  set (T3 := w_left s2 (rootp b) (w_right s1 (Some s2) (w_par s1 par T))).
  set (Tb := match rootp b with Some tm => w_par tm (Some s2) T3 | None => T3 end).
  set (Tw := w_par s2 (Some s1) Tb).
  rewrite (wr_cell_snd_ext cr (Some s1) Tw T root).
  set (Tc := fst (wr_cell cr (Some s1) (Tw, root))).
  eexists. split; [reflexivity|].
  assert (E3 : forall x, x <> s1 -> x <> s2 -> T3 x = T x).
  { intros x X1 X2. unfold T3, w_left, w_right, w_par. rewrite !upd_neq by congruence. reflexivity. }
  assert (Eb : forall x, rootp b <> Some x -> Tb x = T3 x).
  { intros x X. unfold Tb. destruct (rootp b) as [tm|]; auto. unfold w_par. apply upd_neq. congruence. }
  assert (Rb : forall x, rootp b = Some x -> In x (tslots b)) by (intros x; apply rootp_in).
  assert (Ew : forall x, x <> s2 -> Tw x = Tb x).
  { intros x X. unfold Tw, w_par. apply upd_neq. exact X. }
  assert (Ec : forall x, In x ((tslots a ++ s1 :: tslots b) ++ s2 :: tslots c) -> Tc x = Tw x).
  { intros x X. unfold Tc. apply wr_cell_other. destruct cr; auto; cbn [cref_notin] in Hout; congruence. }
  assert (Hb' : trep Tc (Some s2) b).
  { apply trep_ext with Tb.
    - intros x Hx. rewrite Ec, Ew; auto. { intros ->. apply Hs2l. innorm. auto. } innorm. auto.
    - unfold Tb. apply (trep_reparent T3 (Some s1) (Some s2) b); auto. apply trep_ext with T; auto.
      intros x Hx. apply E3; intros ->; [tauto|]. apply Hs2l. innorm. auto. }
  assert (Hc' : trep Tc (Some s2) c).
  { apply trep_ext with T; auto. intros x Hx.
    rewrite Ec, Ew, Eb, E3; auto.
    - intros ->. apply (Dlc s1); auto. innorm. auto.
    - intros ->. tauto.
    - intros X. apply Rb in X. apply (Dlc x); auto. innorm. auto.
    - intros ->. tauto.
    - innorm. auto. }
  assert (Hs2 : Tc s2 = set_par (Some s1) (set_left (rootp b) (T s2))).
  { rewrite Ec by (innorm; auto). unfold Tw, w_par. rewrite upd_same. f_equal.
    rewrite Eb. 2:{ intros X. apply Rb in X. apply Hs2l. innorm. auto. }
    unfold T3, w_left. rewrite upd_same. f_equal.
    unfold w_right, w_par. rewrite !upd_neq by congruence. reflexivity. }
  assert (Hm : trep (m_update s2 Tc) (Some s1) (mk b k2 v2 s2 c)).
  { apply update_node; auto.
    - unfold nrep. rewrite Hs2. cbn [set_par set_left ckey cval cpar cleft cright]. repeat split; auto.
    - intros X. apply Hs2l. innorm. auto. }
  assert (Hs1 : m_update s2 Tc s1 = set_right (Some s2) (set_par par (T s1))).
  { unfold m_update. rewrite upd_neq by congruence. rewrite Ec by (innorm; auto). rewrite Ew by congruence.
    rewrite Eb by (intros X; apply Rb in X; tauto).
    unfold T3, w_left, w_right, w_par. rewrite upd_neq by congruence. rewrite upd_same. f_equal.
    rewrite upd_same. reflexivity. }
  split.
  - apply update_node; auto.
    + unfold nrep. rewrite Hs1. cbn [set_par set_right ckey cval cpar cleft cright].
      refine (conj _ (conj _ (conj _ (conj _ (conj _ (conj _ Hm)))))); auto.
      apply trep_ext with T; auto. intros x Hx.
      unfold m_update. rewrite upd_neq by (intros ->; apply Hs2l; innorm; auto).
      rewrite Ec, Ew, Eb, E3; auto.
      * intros ->. tauto.
      * intros ->. apply Hs2l; innorm; auto.
      * intros X. apply Rb in X. apply (Dab x); auto.
      * intros ->. apply Hs2l; innorm; auto.
      * innorm. auto.
    + unfold mk. cbn [tslots]. innorm. intros [X|[X|X]]; [tauto|congruence|]. apply (Dlc s1); auto. innorm. auto.
  - intros x Hx. cbn [tslots] in Hx. innorm.
    assert (X1 : x <> s1) by (intros ->; apply Hx; auto). assert (X2 : x <> s2) by (intros ->; apply Hx; auto).
    unfold m_update. rewrite !upd_neq by assumption. unfold Tc. apply wr_cell_ext.
    rewrite Ew by assumption. rewrite Eb by (intros X; apply Rb in X; tauto). apply E3; assumption.
Qed.

Lemma m_rotl_spec T root cr par a k1 v1 s1 b k2 v2 s2 h2 c :
  let t := Node a k1 v1 s1 O (Node b k2 v2 s2 h2 c) in
  nrep T par a k1 v1 s1 (Node b k2 v2 s2 h2 c) ->
  NoDup (tslots t) -> rd_cell cr (T, root) = Some s1 -> cref_notin cr (tslots t) ->
  exists T', m_rotl cr (T, root) = Some (T', snd (wr_cell cr (Some s2) (T, root))) /\
    trep T' par (mk (mk a k1 v1 s1 b) k2 v2 s2 c) /\
    forall x, ~ In x (tslots t) -> T' x = fst (wr_cell cr (Some s2) (T, root)) x.
Proof.
  intros t (K & V & P & Lf & Rt & Ha & Hr) Hnd Hrd Hout. subst t.
  cbn [trep] in Hr. destruct Hr as (K2 & V2 & P2 & L2 & R2 & Hh2 & Sl2 & Hb & Hc).
  cbn [tslots] in Hnd, Hout.
  apply NoDup_node in Hnd as (Hnda & Hnd2 & Hs1a & Hs1r & Dar).
  apply NoDup_node in Hnd2 as (Hndb & Hndc & Hs2b & Hs2c & Dbc).
  assert (N12 : s1 <> s2) by (intros ->; apply Hs1r; apply in_elt).
  unfold m_rotl. rewrite Hrd. cbn [fst snd]. rewrite Rt. cbn [rootp]. rewrite L2, P.
  set (T3 := w_right s1 (rootp b) (w_left s2 (Some s1) (w_par s2 par T))).
  set (Tb := match rootp b with Some tm => w_par tm (Some s1) T3 | None => T3 end).
  set (Tw := w_par s1 (Some s2) Tb).
  rewrite (wr_cell_snd_ext cr (Some s2) Tw T root).
  set (Tc := fst (wr_cell cr (Some s2) (Tw, root))).
  eexists. split; [reflexivity|].
  assert (E3 : forall x, x <> s1 -> x <> s2 -> T3 x = T x).
  { intros x X1 X2. unfold T3, w_left, w_right, w_par. rewrite !upd_neq by congruence. reflexivity. }
  assert (Eb : forall x, rootp b <> Some x -> Tb x = T3 x).
  { intros x X. unfold Tb. destruct (rootp b) as [tm|]; auto. unfold w_par. apply upd_neq. congruence. }
  assert (Rb : forall x, rootp b = Some x -> In x (tslots b)) by (intros x; apply rootp_in).
  assert (Ew : forall x, x <> s1 -> Tw x = Tb x).
  { intros x X. unfold Tw, w_par. apply upd_neq. exact X. }
  innorm.
  assert (Ec : forall x, In x (tslots a) \/ s1 = x \/ In x (tslots b) \/ s2 = x \/ In x (tslots c) -> Tc x = Tw x).
  { intros x X. unfold Tc. apply wr_cell_other. destruct cr; auto; cbn [cref_notin] in Hout; innorm; intros ->; tauto. }
  assert (Hb' : trep Tc (Some s1) b).
  { apply trep_ext with Tb.
    - intros x Hx. rewrite Ec, Ew; auto. intros ->. tauto.
    - unfold Tb. apply (trep_reparent T3 (Some s2) (Some s1) b); auto. apply trep_ext with T; auto.
      intros x Hx. apply E3; intros ->; tauto. }
  assert (Ha' : trep Tc (Some s1) a).
  { apply trep_ext with T; auto. intros x Hx.
    rewrite Ec, Ew, Eb, E3; auto.
    - intros ->. tauto.
    - intros ->. apply (Dar s2); auto. innorm. auto.
    - intros X. apply Rb in X. apply (Dar x); auto. innorm. auto.
    - intros ->. tauto. }
  assert (Hs1 : Tc s1 = set_par (Some s2) (set_right (rootp b) (T s1))).
  { rewrite Ec by auto. unfold Tw, w_par. rewrite upd_same. f_equal.
    rewrite Eb. 2:{ intros X. apply Rb in X. tauto. }
    unfold T3, w_right. rewrite upd_same. f_equal.
    unfold w_left, w_par. rewrite !upd_neq by congruence. reflexivity. }
  assert (Hm : trep (m_update s1 Tc) (Some s2) (mk a k1 v1 s1 b)).
  { apply update_node; [|tauto|tauto].
    unfold nrep. rewrite Hs1. cbn [set_par set_right ckey cval cpar cleft cright]. repeat split; auto. }
  assert (Hs2 : m_update s1 Tc s2 = set_left (Some s1) (set_par par (T s2))).
  { unfold m_update. rewrite upd_neq by congruence. rewrite Ec by auto. rewrite Ew by congruence.
    rewrite Eb by (intros X; apply Rb in X; tauto).
    unfold T3, w_left, w_right, w_par. rewrite upd_neq by congruence. rewrite upd_same. f_equal.
    rewrite upd_same. reflexivity. }
  split.
  - apply update_node; [| |tauto].
    + unfold nrep. rewrite Hs2. cbn [set_par set_left ckey cval cpar cleft cright].
      refine (conj _ (conj _ (conj _ (conj _ (conj _ (conj Hm _)))))); auto.
      apply trep_ext with T; auto. intros x Hx.
      unfold m_update. rewrite upd_neq by (intros ->; tauto).
      rewrite Ec, Ew, Eb, E3; auto.
      * intros ->. tauto.
      * intros ->. tauto.
      * intros X. apply Rb in X. apply (Dbc x); auto.
      * intros ->. tauto.
    + unfold mk. cbn [tslots]. innorm. intros [X|[X|X]]; [|congruence|tauto]. apply (Dar s2); auto. innorm. auto.
  - intros x Hx. cbn [tslots] in Hx. innorm.
    assert (X1 : x <> s1) by (intros ->; apply Hx; auto). assert (X2 : x <> s2) by (intros ->; apply Hx; auto).
    unfold m_update. rewrite !upd_neq by assumption. unfold Tc. apply wr_cell_ext.
    rewrite Ew by assumption. rewrite Eb by (intros X; apply Rb in X; tauto). apply E3; assumption.
Qed.

Lemma tslots_rotl t : tslots (rotl t) = tslots t.
Proof. rewrite !tslots_inorder, inorder_rotl. reflexivity. Qed.
Lemma tslots_rotr t : tslots (rotr t) = tslots t.
Proof. rewrite !tslots_inorder, inorder_rotr. reflexivity. Qed.
Lemma tslots_rebal t : tslots (rebal t) = tslots t.
Proof. rewrite !tslots_inorder, inorder_rebal. reflexivity. Qed.

Lemma rd_cell_ext cr T1 T root :
  match cr with CRoot => True | CLeft g | CRight g => T1 g = T g end -> rd_cell cr (T1, root) = rd_cell cr (T, root).
Proof. destruct cr; cbn [rd_cell fst snd]; auto; intros ->; reflexivity. Qed.

Lemma m_shiftr_spec T root cr par ll lk lv ls lh lr k v s h r :
  let l := Node ll lk lv ls lh lr in
  let t := Node l k v s h r in
  nrep T par l k v s r ->
  NoDup (tslots t) -> rd_cell cr (T, root) = Some s -> cref_notin cr (tslots t) ->
  exists T' a, m_shiftr cr (T, root) = Some (T', snd (wr_cell cr (Some a) (T, root))) /\
    rootp (shiftr t) = Some a /\ trep T' par (shiftr t) /\
    forall x, ~ In x (tslots t) -> T' x = fst (wr_cell cr (Some a) (T, root)) x.
Proof.
  intros l t Hn Hnd Hrd Hout.
  pose proof Hn as (K & V & P & Lf & Rt & Hl & Hr).
  unfold m_shiftr. rewrite Hrd. cbn [fst snd]. rewrite Lf. subst l. cbn [rootp].
  pose proof Hl as Hl0. cbn [trep] in Hl0. destruct Hl0 as (_ & _ & _ & _ & _ & _ & Sl & _ & _).
  rewrite Sl. subst t. cbn [shiftr slope].
  destruct (Z.of_nat (ht ll) - Z.of_nat (ht lr) =? -1) eqn:E.
  - destruct lr as [|a ak av as_ ah b]; [cbn [ht] in E; lia|].
    assert (Hnd' := Hnd). cbn [tslots] in Hnd'. apply NoDup_node in Hnd' as (Hndl & Hndr & Hsl & Hsr & Dlr).
    destruct (m_rotl_spec T root (CLeft s) (Some s) ll lk lv ls a ak av as_ ah b) as (T1 & Hrun1 & Hrep1 & Hout1).
    { apply trep_node in Hl. tauto. }
    { cbn [tslots]. exact Hndl. }
    { cbn [rd_cell fst]. rewrite Lf. reflexivity. }
    { cbn [cref_notin tslots]. exact Hsl. }
    rewrite Hrun1. cbn [wr_cell fst snd] in Hrun1, Hout1 |- *.
    assert (E1 : forall x, ~ In x (tslots (Node ll lk lv ls lh (Node a ak av as_ ah b))) -> x <> s -> T1 x = T x).
    { intros x X1 X2. rewrite Hout1 by exact X1. unfold w_left. apply upd_neq. exact X2. }
    destruct (m_rotr_spec T1 root cr par (mk ll lk lv ls a) ak av as_ (S (Nat.max (ht (mk ll lk lv ls a)) (ht b))) b k v s r)
      as (T2 & Hrun2 & Hrep2 & Hout2).
    { unfold nrep. rewrite Hout1 by exact Hsl. unfold w_left. rewrite upd_same.
      cbn [set_left ckey cval cpar cleft cright rootp].
      refine (conj K (conj V (conj P (conj eq_refl (conj Rt (conj Hrep1 _)))))).
      apply trep_ext with T; auto. intros x Hx. apply E1; [|intros ->; tauto].
      intros X. apply (Dlr x); auto. }
    { change (Node (mk ll lk lv ls a) ak av as_ (S (Nat.max (ht (mk ll lk lv ls a)) (ht b))) b)
        with (rotl (Node ll lk lv ls lh (Node a ak av as_ ah b))).
      cbn [tslots]. rewrite tslots_rotl. exact Hnd. }
    { rewrite <- Hrd. apply rd_cell_ext. destruct cr as [|g|g]; auto; cbn [cref_notin] in Hout;
        (apply E1; [intros X; apply Hout; cbn [tslots]; apply in_or_app; auto
                   |intros ->; apply Hout; cbn [tslots]; apply in_elt]). }
    { change (Node (mk ll lk lv ls a) ak av as_ (S (Nat.max (ht (mk ll lk lv ls a)) (ht b))) b)
        with (rotl (Node ll lk lv ls lh (Node a ak av as_ ah b))).
      cbn [tslots]. rewrite tslots_rotl. exact Hout. }
    rewrite Hrun2. exists T2, as_.
    split; [rewrite (wr_cell_snd_ext cr (Some as_) T1 T root); reflexivity|].
    split; [reflexivity|]. split; [exact Hrep2|].
    intros x Hx. rewrite Hout2.
    + apply wr_cell_ext. apply E1.
      * intros X. apply Hx. cbn [tslots]. apply in_or_app. auto.
      * intros ->. apply Hx. cbn [tslots]. apply in_elt.
    + change (Node (mk ll lk lv ls a) ak av as_ (S (Nat.max (ht (mk ll lk lv ls a)) (ht b))) b)
        with (rotl (Node ll lk lv ls lh (Node a ak av as_ ah b))).
      cbn [tslots]. rewrite tslots_rotl. exact Hx.
  - destruct (m_rotr_spec T root cr par ll lk lv ls lh lr k v s r Hn Hnd Hrd Hout) as (T2 & Hrun2 & Hrep2 & Hout2).
    rewrite Hrun2. exists T2, ls. split; [reflexivity|]. split; [reflexivity|]. split; [exact Hrep2|]. exact Hout2.
Qed.

Lemma m_shiftl_spec T root cr par l k v s h rl rk rv rs rh rr :
  let r := Node rl rk rv rs rh rr in
  let t := Node l k v s h r in
  nrep T par l k v s r ->
  NoDup (tslots t) -> rd_cell cr (T, root) = Some s -> cref_notin cr (tslots t) ->
  exists T' a, m_shiftl cr (T, root) = Some (T', snd (wr_cell cr (Some a) (T, root))) /\
    rootp (shiftl t) = Some a /\ trep T' par (shiftl t) /\
    forall x, ~ In x (tslots t) -> T' x = fst (wr_cell cr (Some a) (T, root)) x.
Proof.
  intros r t Hn Hnd Hrd Hout.
  pose proof Hn as (K & V & P & Lf & Rt & Hl & Hr).
  unfold m_shiftl. rewrite Hrd. cbn [fst snd]. rewrite Rt. subst r. cbn [rootp].
  pose proof Hr as Hr0. cbn [trep] in Hr0. destruct Hr0 as (_ & _ & _ & _ & _ & _ & Sl & _ & _).
  rewrite Sl. subst t. cbn [shiftl slope].
  destruct (Z.of_nat (ht rl) - Z.of_nat (ht rr) =? 1) eqn:E.
  - destruct rl as [|a ak av as_ ah b]; [cbn [ht] in E; lia|].
    assert (Hnd' := Hnd). cbn [tslots] in Hnd'. apply NoDup_node in Hnd' as (Hndl & Hndr & Hsl & Hsr & Dlr).
    destruct (m_rotr_spec T root (CRight s) (Some s) a ak av as_ ah b rk rv rs rr) as (T1 & Hrun1 & Hrep1 & Hout1).
    { apply trep_node in Hr. tauto. }
    { cbn [tslots]. exact Hndr. }
    { cbn [rd_cell fst]. rewrite Rt. reflexivity. }
    { cbn [cref_notin tslots]. exact Hsr. }
    rewrite Hrun1. cbn [wr_cell fst snd] in Hrun1, Hout1 |- *.
    assert (E1 : forall x, ~ In x (tslots (Node (Node a ak av as_ ah b) rk rv rs rh rr)) -> x <> s -> T1 x = T x).
    { intros x X1 X2. rewrite Hout1 by exact X1. unfold w_right. apply upd_neq. exact X2. }
    destruct (m_rotl_spec T1 root cr par l k v s a ak av as_ (S (Nat.max (ht a) (ht (mk b rk rv rs rr)))) (mk b rk rv rs rr))
      as (T2 & Hrun2 & Hrep2 & Hout2).
    { unfold nrep. rewrite Hout1 by exact Hsr. unfold w_right. rewrite upd_same.
      cbn [set_right ckey cval cpar cleft cright rootp].
      refine (conj K (conj V (conj P (conj Lf (conj eq_refl (conj _ Hrep1)))))).
      apply trep_ext with T; auto. intros x Hx. apply E1; [|intros ->; tauto].
      intros X. apply (Dlr x); auto. }
    { change (Node a ak av as_ (S (Nat.max (ht a) (ht (mk b rk rv rs rr)))) (mk b rk rv rs rr))
        with (rotr (Node (Node a ak av as_ ah b) rk rv rs rh rr)).
      cbn [tslots]. rewrite tslots_rotr. exact Hnd. }
    { rewrite <- Hrd. apply rd_cell_ext. destruct cr as [|g|g]; auto; cbn [cref_notin] in Hout;
        (apply E1; [intros X; apply Hout; cbn [tslots]; apply in_or_app; cbn [In]; auto
                   |intros ->; apply Hout; cbn [tslots]; apply in_elt]). }
    { change (Node a ak av as_ (S (Nat.max (ht a) (ht (mk b rk rv rs rr)))) (mk b rk rv rs rr))
        with (rotr (Node (Node a ak av as_ ah b) rk rv rs rh rr)).
      cbn [tslots]. rewrite tslots_rotr. exact Hout. }
    rewrite Hrun2. exists T2, as_.
    split; [rewrite (wr_cell_snd_ext cr (Some as_) T1 T root); reflexivity|].
    split; [reflexivity|]. split; [exact Hrep2|].
    intros x Hx. rewrite Hout2.
    + apply wr_cell_ext. apply E1.
      * intros X. apply Hx. cbn [tslots]. apply in_or_app. cbn [In]. auto.
      * intros ->. apply Hx. cbn [tslots]. apply in_elt.
    + change (Node a ak av as_ (S (Nat.max (ht a) (ht (mk b rk rv rs rr)))) (mk b rk rv rs rr))
        with (rotr (Node (Node a ak av as_ ah b) rk rv rs rh rr)).
      cbn [tslots]. rewrite tslots_rotr. exact Hx.
  - destruct (m_rotl_spec T root cr par l k v s rl rk rv rs rh rr Hn Hnd Hrd Hout) as (T2 & Hrun2 & Hrep2 & Hout2).
    rewrite Hrun2. exists T2, rs. split; [reflexivity|]. split; [reflexivity|]. split; [exact Hrep2|]. exact Hout2.
Qed.

(* ---- the cell a context hangs its hole in ------------------------------------------------------------------ *)
Lemma ptr_eqb_eq p q : ptr_eqb p q = true <-> p = q.
Proof.
  destruct p as [a|], q as [b|]; cbn [ptr_eqb]; try (split; congruence).
  rewrite Nat.eqb_eq. split; congruence.
Qed.

Lemma rd_cell_ctx T root c p hh : crep T root c p hh -> rd_cell (ctx_cell c) (T, root) = p.
Proof.
  destruct c as [|[ok k v s h r|ok l k v s h] c]; cbn [crep ctx_cell rd_cell fst snd]; auto.
  - intros (_ & _ & _ & H & _). exact H.
  - intros (_ & _ & _ & _ & H & _). exact H.
Qed.

Lemma rd_wr_cell cr p st : rd_cell cr (wr_cell cr p st) = p.
Proof.
  destruct cr; cbn [rd_cell wr_cell fst snd]; auto; unfold w_left, w_right; rewrite upd_same; reflexivity.
Qed.

Lemma cell_of_ctx T root c s hh : crep T root c (Some s) hh -> ~ In s (cslots c) -> cell_of T (ctx_par c) s = ctx_cell c.
Proof.
  destruct c as [|[ok k v g h r|ok l k v g h] c]; cbn [crep ctx_cell ctx_par cell_of fslot cslots]; auto.
  - intros (_ & _ & _ & H & _) _. rewrite H. cbn [ptr_eqb]. rewrite Nat.eqb_refl. reflexivity.
  - intros (_ & _ & _ & H & _) Hn. rewrite H.
    destruct (ptr_eqb (rootp l) (Some s)) eqn:E; auto.
    apply ptr_eqb_eq in E. apply rootp_in in E. exfalso. apply Hn. right. apply in_or_app. auto.
Qed.

Lemma cref_notin_ctx A c : NoDup (A ++ cslots c) -> cref_notin (ctx_cell c) A.
Proof.
  intros H. apply NoDup_app_iff in H as (_ & _ & D).
  destruct c as [|[ok k v g h r|ok l k v g h] c]; cbn [ctx_cell cref_notin cslots] in *; auto;
    intros X; apply (D g X); cbn [In]; auto.
Qed.

Lemma crep_set_hole T root c p p' hh :
  crep T root c p hh -> NoDup (cslots c) ->
  crep (fst (wr_cell (ctx_cell c) p' (T, root))) (snd (wr_cell (ctx_cell c) p' (T, root))) c p' hh.
Proof.
  destruct c as [|[ok k v g h r|ok l k v g h] c]; cbn [crep ctx_cell wr_cell fst snd cslots]; auto.
  - intros (H1 & H2 & H3 & H4 & H5 & H6 & H7 & H8 & H9) Hnd.
    apply NoDup_cons_iff in Hnd as (Hg & _). rewrite in_app_iff in Hg.
    unfold w_left. rewrite upd_same. cbn [set_left ckey cval cpar cleft cright cht cslope].
    repeat split; auto.
    + apply trep_ext with T; auto. intros x Hx. apply upd_neq. intros ->. tauto.
    + apply crep_ext with T; auto. intros x Hx. apply upd_neq. intros ->. tauto.
  - intros (H1 & H2 & H3 & H4 & H5 & H6 & H7 & H8 & H9) Hnd.
    apply NoDup_cons_iff in Hnd as (Hg & _). rewrite in_app_iff in Hg.
    unfold w_right. rewrite upd_same. cbn [set_right ckey cval cpar cleft cright cht cslope].
    repeat split; auto.
    + apply trep_ext with T; auto. intros x Hx. apply upd_neq. intros ->. tauto.
    + apply crep_ext with T; auto. intros x Hx. apply upd_neq. intros ->. tauto.
Qed.

(* ---- rebal ---------------------------------------------------------------------------------------------------- *)
Lemma m_rebal_spec T root c l k v s h r hh0 :
  let t := Node l k v s h r in
  trep T (ctx_par c) t -> crep T root c (Some s) hh0 -> NoDup (tslots t ++ cslots c) ->
  exists T' root' a, m_rebal s (T, root) = Some ((T', root'), a) /\ rootp (rebal t) = Some a /\
    trep T' (ctx_par c) (rebal t) /\ crep T' root' c (Some a) hh0.
Proof.
  intros t Ht Hc Hnd. subst t.
  pose proof Ht as Ht0. apply trep_node in Ht0 as (Hn & Hh & Sl).
  pose proof Hn as (K & V & P & Lf & Rt & Hl & Hr).
  pose proof Hnd as Hnd0. apply NoDup_app_iff in Hnd0 as (Hndt & Hndc & D).
  assert (Hsc : ~ In s (cslots c)) by (intros X; apply (D s); auto; cbn [tslots]; apply in_elt).
  assert (Hcr := cell_of_ctx _ _ _ _ _ Hc Hsc).
  assert (Hrd := rd_cell_ctx _ _ _ _ _ Hc).
  assert (Hout := cref_notin_ctx _ _ Hnd).
  unfold m_rebal, rebal. cbn [fst snd slope]. rewrite Sl, P, Hcr.
  assert (Fin : forall T' a t',
     (forall x, ~ In x (tslots (Node l k v s h r)) -> T' x = fst (wr_cell (ctx_cell c) (Some a) (T, root)) x) ->
     trep T' (ctx_par c) t' -> rootp t' = Some a ->
     exists T'0 root' a0,
       match rd_cell (ctx_cell c) (T', snd (wr_cell (ctx_cell c) (Some a) (T, root))) with
       | Some a1 => Some (T', snd (wr_cell (ctx_cell c) (Some a) (T, root)), a1) | None => None end = Some (T'0, root', a0) /\
       rootp t' = Some a0 /\ trep T'0 (ctx_par c) t' /\ crep T'0 root' c (Some a0) hh0).
  { intros T' a t' Hout' Hrep' Hroot'.
    assert (Erd : rd_cell (ctx_cell c) (T', snd (wr_cell (ctx_cell c) (Some a) (T, root))) = Some a).
    { clear - Hout Hout'. revert Hout Hout'. generalize (ctx_cell c). intros cr Hout Hout'.
      destruct cr as [|g|g]; cbn [rd_cell wr_cell fst snd cref_notin] in *; auto;
        rewrite (Hout' g Hout); unfold w_left, w_right; rewrite upd_same; reflexivity. }
    rewrite Erd. exists T', (snd (wr_cell (ctx_cell c) (Some a) (T, root))), a.
    split; [reflexivity|]. split; [exact Hroot'|]. split; [exact Hrep'|].
    apply crep_ext with (fst (wr_cell (ctx_cell c) (Some a) (T, root))).
    - intros x Hx. apply Hout'. intros X. apply (D x); auto.
    - apply (crep_set_hole T root c (Some s) (Some a) hh0); auto. }
  destruct (Z.of_nat (ht l) - Z.of_nat (ht r) >? 1) eqn:E1.
  - destruct l as [|ll lk lv ls lh lr]; [cbn [ht] in E1; lia|].
    destruct (m_shiftr_spec T root (ctx_cell c) (ctx_par c) ll lk lv ls lh lr k v s h r Hn Hndt Hrd Hout)
      as (T' & a & Hrun & Hroot & Hrep & Hout').
    rewrite Hrun. exact (Fin T' a _ Hout' Hrep Hroot).
  - destruct (Z.of_nat (ht l) - Z.of_nat (ht r) <? -1) eqn:E2.
    + destruct r as [|rl rk rv rs rh rr]; [cbn [ht] in E2; lia|].
      destruct (m_shiftl_spec T root (ctx_cell c) (ctx_par c) l k v s h rl rk rv rs rh rr Hn Hndt Hrd Hout)
        as (T' & a & Hrun & Hroot & Hrep & Hout').
      rewrite Hrun. exact (Fin T' a _ Hout' Hrep Hroot).
    + exists T, root, s. repeat split; auto.
Qed.

(* ---- one step up: updateHeightAndSlope of the parent frame ------------------------------------------------- *)
Definition fill_mk (fr : frame) (t : tree) : tree :=
  match fr with FL ok k v s _ r => mk t k v s r | FR ok l k v s _ => mk l k v s t end.
Definition fh (fr : frame) : nat := match fr with FL ok _ _ _ h _ => h | FR ok _ _ _ _ h => h end.

Lemma rebuild_cons t fr c : rebuild t (fr :: c) = rebuild (rebal (fill_mk fr t)) c.
Proof. destruct fr; reflexivity. Qed.

Lemma perm_fill fr t c : Permutation (tslots (fill_mk fr t) ++ cslots c) (tslots t ++ cslots (fr :: c)).
Proof.
  destruct fr as [ok k v s h r|ok l k v s h]; cbn [fill_mk mk tslots cslots].
  - rewrite <- app_assoc. reflexivity.
  - replace (tslots t ++ s :: tslots l ++ cslots c) with ((tslots t ++ s :: tslots l) ++ cslots c)
      by (rewrite <- app_assoc; reflexivity).
    apply Permutation_app_tail.
    apply Permutation_trans with ((s :: tslots t) ++ tslots l); [apply Permutation_app_comm|].
    cbn [app]. apply Permutation_middle.
Qed.

Lemma update_frame T root fr c t' hh :
  crep T root (fr :: c) (rootp t') hh -> trep T (Some (fslot fr)) t' -> NoDup (tslots t' ++ cslots (fr :: c)) ->
  trep (m_update (fslot fr) T) (ctx_par c) (fill_mk fr t') /\
  crep (m_update (fslot fr) T) root c (Some (fslot fr)) (fh fr) /\ (fok fr = true -> cht (T (fslot fr)) = fh fr).
Proof.
  intros Hc Ht Hnd. apply NoDup_app_iff in Hnd as (Hndt & Hndc & D).
  destruct fr as [ok k v s h r|ok l k v s h]; cbn [crep fslot fill_mk fh fok cslots] in *;
    destruct Hc as (H1 & H2 & H3 & H4 & H5 & H6 & H7 & H8 & H9);
    apply NoDup_cons_iff in Hndc as (Hs & Hndc); rewrite in_app_iff in Hs;
    (split; [|split; [|exact H6]]).
  - apply update_node; [unfold nrep; tauto| |tauto]. intros X. apply (D s X). cbn [In]. auto.
  - apply crep_ext with T; auto. intros x Hx. unfold m_update. apply upd_neq. intros ->. tauto.
  - apply update_node; [unfold nrep; tauto|tauto|]. intros X. apply (D s X). cbn [In]. auto.
  - apply crep_ext with T; auto. intros x Hx. unfold m_update. apply upd_neq. intros ->. tauto.
Qed.

Definition near (a b : nat) : Prop := a = b \/ a = S b \/ S a = b.

Lemma rebal_near fr t' hh :
  bal t' -> ctx_bal [fr] -> ctx_ok [fr] hh -> near (ht t') hh ->
  bal (rebal (fill_mk fr t')) /\ near (ht (rebal (fill_mk fr t'))) (fh fr).
Proof.
  intros Hb Hcb Hok Hn. destruct fr as [ok k v s h r|ok l k v s h]; cbn [ctx_bal ctx_ok fill_mk fh] in *.
  - destruct Hcb as (Hr & _). destruct Hok as (Hh & B1 & B2 & _).
    destruct (rebal_spec t' k v s r Hb Hr) as (R1 & _ & R3 & R4 & R5); [unfold near in Hn; lia|unfold near in Hn; lia|].
    split; [exact R1|].
    destruct (le_gt_dec (ht t') (S (ht r))) as [C1|C1]; destruct (le_gt_dec (ht r) (S (ht t'))) as [C2|C2].
    + rewrite R5 by assumption. rewrite ht_mk. unfold near in *. lia.
    + unfold near in *. lia.
    + unfold near in *. lia.
    + unfold near in *. lia.
  - destruct Hcb as (Hl & _). destruct Hok as (Hh & B1 & B2 & _).
    destruct (rebal_spec l k v s t' Hl Hb) as (R1 & _ & R3 & R4 & R5); [unfold near in Hn; lia|unfold near in Hn; lia|].
    split; [exact R1|].
    destruct (le_gt_dec (ht l) (S (ht t'))) as [C1|C1]; destruct (le_gt_dec (ht t') (S (ht l))) as [C2|C2].
    + rewrite R5 by assumption. rewrite ht_mk. unfold near in *. lia.
    + unfold near in *. lia.
    + unfold near in *. lia.
    + unfold near in *. lia.
Qed.

Lemma fill_mk_node fr t : exists l k v s h r, fill_mk fr t = Node l k v s h r /\ s = fslot fr.
Proof. destruct fr as [ok k v s h r|ok l k v s h]; cbn [fill_mk mk fslot]; repeat eexists. Qed.

Lemma ctx_ok_cons fr c hh : ctx_ok (fr :: c) hh <-> ctx_ok [fr] hh /\ ctx_ok c (fh fr).
Proof. destruct fr; cbn [ctx_ok fh]; tauto. Qed.
Lemma ctx_bal_cons fr c : ctx_bal (fr :: c) <-> ctx_bal [fr] /\ ctx_bal c.
Proof. destruct fr; cbn [ctx_bal]; tauto. Qed.

Lemma trep_root_par T par t a : trep T par t -> rootp t = Some a -> cpar (T a) = par /\ cht (T a) = ht t.
Proof. destruct t; cbn [rootp trep ht]; [discriminate|]. intros (_ & _ & P & _ & _ & H & _) [= ->]. auto. Qed.

(* ---- the upward loop: early exit included, it computes [rebuild] ---------------------------------------------- *)
Lemma m_up_spec c : forall fuel T root t' hh,
  (length c < fuel)%nat ->
  trep T (ctx_par c) t' -> crep T root c (rootp t') hh -> NoDup (tslots t' ++ cslots c) ->
  bal t' -> ctx_bal c -> ctx_ok c hh -> near (ht t') hh -> ctx_strict c ->
  exists T' root', m_up fuel (T, root) (ctx_par c) = Some (T', root') /\
    trep T' None (rebuild t' c) /\ root' = rootp (rebuild t' c).
Proof.
  induction c as [|fr c IH]; intros fuel T root t' hh Hf Ht Hc Hnd Hb Hcb Hok Hn Hst.
  - cbn [ctx_par rebuild crep] in *. exists T, root. split; [destruct fuel; reflexivity|auto].
  - destruct fuel as [|fuel]; [cbn [length] in Hf; lia|].
    cbn [ctx_par m_up fst snd]. rewrite rebuild_cons.
    cbn [ctx_strict] in Hst. destruct Hst as (Hfok & Hst).
    destruct (update_frame T root fr c t' hh Hc Ht Hnd) as (Ht1 & Hc1 & Hold). rewrite (Hold Hfok).
    destruct (fill_mk_node fr t') as (l & k & v & s & h & r & Efill & Es).
    rewrite Efill in Ht1. rewrite <- Es in *.
    assert (Hnd1 : NoDup (tslots (Node l k v s h r) ++ cslots c)).
    { rewrite <- Efill. apply (Permutation_NoDup (l := tslots t' ++ cslots (fr :: c))); auto.
      apply Permutation_sym. apply perm_fill. }
    destruct (m_rebal_spec (m_update s T) root c l k v s h r (fh fr) Ht1 Hc1 Hnd1)
      as (T2 & root2 & a & Hrun & Hroot & Ht2 & Hc2).
    rewrite Hrun. rewrite <- Efill in *. cbn [fst snd].
    apply ctx_ok_cons in Hok as (Hok1 & Hok2). apply ctx_bal_cons in Hcb as (Hcb1 & Hcb2).
    destruct (rebal_near fr t' hh Hb Hcb1 Hok1 Hn) as (Hb2 & Hn2).
    destruct (trep_root_par _ _ _ _ Ht2 Hroot) as (Hpar & Hht). rewrite Hht, Hpar.
    destruct (Nat.eqb (fh fr) (ht (rebal (fill_mk fr t')))) eqn:E.
    + apply Nat.eqb_eq in E. exists T2, root2. split; [reflexivity|].
      rewrite early_exit by (rewrite <- E; exact Hok2).
      apply plug_rep; auto. rewrite Hroot, <- E. exact Hc2.
    + apply IH with (fh fr); auto.
      * cbn [length] in Hf. lia.
      * rewrite Hroot. exact Hc2.
      * rewrite tslots_rebal. exact Hnd1.
Qed.
