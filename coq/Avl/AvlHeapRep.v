(* Representation relation between the cells of AvlHeapModel and the node-level tree of AvlModel:
   definitions, zipper (contexts), frame lemmas. *)
From Coq Require Import ZArith List Bool Arith Lia ZifyBool Permutation.
From Avl Require Import AvlSpec AvlModel AvlBalance AvlHeapModel.
Import ListNotations.
Local Open Scope Z_scope.

Arguments Nat.max : simpl never.
Arguments Z.of_nat : simpl never.
Arguments Z.sub : simpl never.

(* ---- slots ------------------------------------------------------------------------------------------ *)
Fixpoint tslots (t : tree) : list nat :=
  match t with Leaf => [] | Node l _ _ s _ r => tslots l ++ s :: tslots r end.

Lemma tslots_inorder t : tslots t = map eslot (inorder t).
Proof.
  induction t as [|l IHl k v s h r IHr]; cbn [tslots inorder map]; auto.
  rewrite map_app. cbn [map eslot snd]. rewrite IHl, IHr. reflexivity.
Qed.

Definition rootp (t : tree) : ptr := match t with Leaf => None | Node _ _ _ s _ _ => Some s end.

Lemma rootp_in t a : rootp t = Some a -> In a (tslots t).
Proof. destruct t; cbn [rootp tslots]; [discriminate|]. intros [= ->]. apply in_elt. Qed.

Definition disj (A B : list nat) : Prop := forall x, In x A -> In x B -> False.

Lemma NoDup_app_iff (A B : list nat) : NoDup (A ++ B) <-> NoDup A /\ NoDup B /\ disj A B.
Proof.
  induction A as [|a A IH]; cbn [app].
  - split; [intros H; repeat split; [constructor|exact H|intros x []]|intros (_ & H & _); exact H].
  - rewrite !NoDup_cons_iff, IH, in_app_iff. unfold disj. split.
    + intros (Hn & HA & HB & Hd). repeat split; auto.
      intros x [<-|Hx] Hb; [tauto|eauto].
    + intros ((Hn & HA) & HB & Hd). repeat split; auto.
      * intros [H|H]; [tauto|]. apply (Hd a); cbn; auto.
      * intros x Hx Hb. apply (Hd x); cbn; auto.
Qed.

Lemma NoDup_node (A B : list nat) s :
  NoDup (A ++ s :: B) <-> NoDup A /\ NoDup B /\ ~ In s A /\ ~ In s B /\ disj A B.
Proof.
  rewrite NoDup_app_iff, NoDup_cons_iff. unfold disj. split.
  - intros (HA & (Hs & HB) & Hd). repeat split; auto.
    + intros H. apply (Hd s); cbn; auto.
    + intros x Hx Hb. apply (Hd x); cbn; auto.
  - intros (HA & HB & Hs1 & Hs2 & Hd). repeat split; auto.
    intros x Hx [<-|Hb]; eauto.
Qed.

(* ---- the tree part ------------------------------------------------------------------------------------ *)
(* the cells of the subtree [t] hang under the Item [par]; the pointer to the subtree is [rootp t] *)
Fixpoint trep (T : theap) (par : ptr) (t : tree) : Prop :=
  match t with
  | Leaf => True
  | Node l k v s h r =>
      ckey (T s) = k /\ cval (T s) = v /\ cpar (T s) = par /\ cleft (T s) = rootp l /\ cright (T s) = rootp r /\
      cht (T s) = h /\ cslope (T s) = Z.of_nat (ht l) - Z.of_nat (ht r) /\
      trep T (Some s) l /\ trep T (Some s) r
  end.

Lemma trep_ext T T' par t : (forall x, In x (tslots t) -> T' x = T x) -> trep T par t -> trep T' par t.
Proof.
  revert par. induction t as [|l IHl k v s h r IHr]; intros par He; cbn [trep]; auto.
  intros (H1 & H2 & H3 & H4 & H5 & H6 & H7 & H8 & H9).
  assert (Es : T' s = T s) by (apply He; cbn [tslots]; apply in_elt).
  rewrite Es. repeat split; auto.
  - apply IHl; auto. intros x Hx. apply He. cbn [tslots]. apply in_or_app. auto.
  - apply IHr; auto. intros x Hx. apply He. cbn [tslots]. apply in_or_app. cbn. auto.
Qed.

Lemma hgt_rootp T par t : trep T par t -> hgt T (rootp t) = ht t.
Proof. destruct t; cbn [trep rootp hgt ht]; auto. intros (_ & _ & _ & _ & _ & H & _). exact H. Qed.

(* ---- contexts ------------------------------------------------------------------------------------------ *)
(* [ok] = false marks an Item whose height/slope fields are out of date (the in-order neighbour that
   remove() has just moved into the removed Item's place); [h] is then the height the frames above expect *)
Inductive frame := FL (ok : bool) (k v : Z) (s h : nat) (r : tree) | FR (ok : bool) (l : tree) (k v : Z) (s h : nat).
Definition ctx := list frame.          (* innermost frame first *)
Definition fslot (fr : frame) : nat := match fr with FL ok _ _ s _ _ => s | FR ok _ _ _ s _ => s end.
Definition ctx_par (c : ctx) : ptr := match c with [] => None | fr :: _ => Some (fslot fr) end.
Definition ctx_cell (c : ctx) : cref :=
  match c with [] => CRoot | FL ok _ _ s _ _ :: _ => CLeft s | FR ok _ _ _ s _ :: _ => CRight s end.

(* put the subtree back with the stored heights / re-balancing every node on the way to the root *)
Fixpoint plug (t : tree) (c : ctx) : tree :=
  match c with
  | [] => t
  | FL ok k v s h r :: c' => plug (Node t k v s h r) c'
  | FR ok l k v s h :: c' => plug (Node l k v s h t) c'
  end.
Fixpoint rebuild (t : tree) (c : ctx) : tree :=
  match c with
  | [] => t
  | FL ok k v s h r :: c' => rebuild (rebal (mk t k v s r)) c'
  | FR ok l k v s h :: c' => rebuild (rebal (mk l k v s t)) c'
  end.

Fixpoint cslots (c : ctx) : list nat :=
  match c with
  | [] => []
  | FL ok _ _ s _ r :: c' => s :: tslots r ++ cslots c'
  | FR ok l _ _ s _ :: c' => s :: tslots l ++ cslots c'
  end.

(* [hh] = the stored height the subtree in the hole had when the frames' height/slope fields were
   last brought up to date; [p] = the pointer now stored in the hole's cell *)
Fixpoint crep (T : theap) (root : ptr) (c : ctx) (p : ptr) (hh : nat) : Prop :=
  match c with
  | [] => root = p
  | FL ok k v s h r :: c' =>
      ckey (T s) = k /\ cval (T s) = v /\ cpar (T s) = ctx_par c' /\ cleft (T s) = p /\ cright (T s) = rootp r /\
      (ok = true -> cht (T s) = h) /\ (ok = true -> cslope (T s) = Z.of_nat hh - Z.of_nat (ht r)) /\
      trep T (Some s) r /\ crep T root c' (Some s) h
  | FR ok l k v s h :: c' =>
      ckey (T s) = k /\ cval (T s) = v /\ cpar (T s) = ctx_par c' /\ cleft (T s) = rootp l /\ cright (T s) = p /\
      (ok = true -> cht (T s) = h) /\ (ok = true -> cslope (T s) = Z.of_nat (ht l) - Z.of_nat hh) /\
      trep T (Some s) l /\ crep T root c' (Some s) h
  end.

Lemma crep_ext T T' root c p hh : (forall x, In x (cslots c) -> T' x = T x) -> crep T root c p hh -> crep T' root c p hh.
Proof.
  revert p hh. induction c as [|[ok k v s h r|ok l k v s h] c IH]; intros p hh He; cbn [crep]; auto.
  - intros (H1 & H2 & H3 & H4 & H5 & H6 & H7 & H8 & H9).
    assert (Es : T' s = T s) by (apply He; cbn [cslots]; auto with datatypes).
    rewrite Es. repeat split; auto.
    + apply trep_ext with T; auto. intros x Hx. apply He. cbn [cslots]. right. apply in_or_app. auto.
    + apply IH; auto. intros x Hx. apply He. cbn [cslots]. right. apply in_or_app. auto.
  - intros (H1 & H2 & H3 & H4 & H5 & H6 & H7 & H8 & H9).
    assert (Es : T' s = T s) by (apply He; cbn [cslots]; auto with datatypes).
    rewrite Es. repeat split; auto.
    + apply trep_ext with T; auto. intros x Hx. apply He. cbn [cslots]. right. apply in_or_app. auto.
    + apply IH; auto. intros x Hx. apply He. cbn [cslots]. right. apply in_or_app. auto.
Qed.

Lemma rootp_plug_eq c : forall t1 t2, rootp t1 = rootp t2 -> rootp (plug t1 c) = rootp (plug t2 c).
Proof. induction c as [|[ok' k' v' s' h' r'|ok' l' k' v' s' h'] c IH]; intros t1 t2 E; cbn [plug]; auto. Qed.

Definition fok (fr : frame) : bool := match fr with FL ok _ _ _ _ _ => ok | FR ok _ _ _ _ _ => ok end.
Fixpoint ctx_strict (c : ctx) : Prop := match c with [] => True | fr :: c' => fok fr = true /\ ctx_strict c' end.

(* plugging: cells of the subtree + cells of the context = cells of the whole tree *)
Lemma plug_rep T root c : forall t,
  ctx_strict c ->
  trep T (ctx_par c) t -> crep T root c (rootp t) (ht t) -> trep T None (plug t c) /\ root = rootp (plug t c).
Proof.
  induction c as [|[ok k v s h r|ok l k v s h] c IH]; intros t Hs Ht Hc; cbn [plug crep ctx_par ctx_strict fok] in *.
  - auto.
  - destruct Hc as (H1 & H2 & H3 & H4 & H5 & H6 & H7 & H8 & H9). destruct Hs as (Hok & Hs).
    apply IH; cbn [trep rootp ht]; auto. repeat split; auto.
  - destruct Hc as (H1 & H2 & H3 & H4 & H5 & H6 & H7 & H8 & H9). destruct Hs as (Hok & Hs).
    apply IH; cbn [trep rootp ht]; auto. repeat split; auto.
Qed.

Lemma unplug_rep T root c : forall t,
  trep T None (plug t c) -> root = rootp (plug t c) -> trep T (ctx_par c) t /\ crep T root c (rootp t) (ht t).
Proof.
  induction c as [|[ok k v s h r|ok l k v s h] c IH]; intros t Ht Hr; cbn [plug crep ctx_par] in *.
  - auto.
  - destruct (IH _ Ht Hr) as (Hn & Hc). cbn [trep rootp ht fslot] in *.
    destruct Hn as (H1 & H2 & H3 & H4 & H5 & H6 & H7 & H8 & H9). repeat split; auto.
  - destruct (IH _ Ht Hr) as (Hn & Hc). cbn [trep rootp ht fslot] in *.
    destruct Hn as (H1 & H2 & H3 & H4 & H5 & H6 & H7 & H8 & H9). repeat split; auto.
Qed.

Lemma tslots_plug t c : Permutation (tslots (plug t c)) (tslots t ++ cslots c).
Proof.
  revert t. induction c as [|[ok k v s h r|ok l k v s h] c IH]; intros t; cbn [plug cslots].
  - rewrite app_nil_r. reflexivity.
  - rewrite IH. cbn [tslots]. rewrite <- !app_assoc. cbn [app]. reflexivity.
  - rewrite IH. cbn [tslots].
    replace (tslots t ++ s :: tslots l ++ cslots c) with ((tslots t ++ s :: tslots l) ++ cslots c)
      by (rewrite <- app_assoc; reflexivity).
    apply Permutation_app_tail.
    apply Permutation_trans with ((s :: tslots t) ++ tslots l); [apply Permutation_app_comm|].
    cbn [app]. apply Permutation_middle.
Qed.

(* in-order sequence around the hole *)
Fixpoint before (c : ctx) : list entry :=
  match c with
  | [] => []
  | FL ok _ _ _ _ _ :: c' => before c'
  | FR ok l k v s _ :: c' => before c' ++ inorder l ++ [(k, v, s)]
  end.
Fixpoint after (c : ctx) : list entry :=
  match c with
  | [] => []
  | FL ok k v s _ r :: c' => (k, v, s) :: inorder r ++ after c'
  | FR ok _ _ _ _ _ :: c' => after c'
  end.

Lemma inorder_plug t c : inorder (plug t c) = before c ++ inorder t ++ after c.
Proof.
  revert t. induction c as [|[ok k v s h r|ok l k v s h] c IH]; intros t; cbn [plug before after].
  - rewrite app_nil_r. reflexivity.
  - rewrite IH. cbn [inorder]. rewrite <- !app_assoc. reflexivity.
  - rewrite IH. cbn [inorder]. rewrite <- !app_assoc. reflexivity.
Qed.

Lemma inorder_rebuild t c : inorder (rebuild t c) = before c ++ inorder t ++ after c.
Proof.
  revert t. induction c as [|[ok k v s h r|ok l k v s h] c IH]; intros t; cbn [rebuild before after].
  - rewrite app_nil_r. reflexivity.
  - rewrite IH, inorder_rebal_mk. rewrite <- !app_assoc. reflexivity.
  - rewrite IH, inorder_rebal_mk. rewrite <- !app_assoc. reflexivity.
Qed.

(* ---- early exit ------------------------------------------------------------------------------------------ *)
(* the frames' stored heights are those of an AVL tree whose hole held a subtree of height [hh] *)
Fixpoint ctx_ok (c : ctx) (hh : nat) : Prop :=
  match c with
  | [] => True
  | FL ok _ _ _ h r :: c' => h = S (Nat.max hh (ht r)) /\ (hh <= S (ht r))%nat /\ (ht r <= S hh)%nat /\ ctx_ok c' h
  | FR ok l _ _ _ h :: c' => h = S (Nat.max (ht l) hh) /\ (ht l <= S hh)%nat /\ (hh <= S (ht l))%nat /\ ctx_ok c' h
  end.

Lemma rebal_id l k v s r : (ht l <= S (ht r))%nat -> (ht r <= S (ht l))%nat -> rebal (mk l k v s r) = mk l k v s r.
Proof.
  intros H1 H2. unfold rebal, mk. cbn [slope].
  destruct (Z.of_nat (ht l) - Z.of_nat (ht r) >? 1) eqn:E1; [lia|].
  destruct (Z.of_nat (ht l) - Z.of_nat (ht r) <? -1) eqn:E2; [lia|]. reflexivity.
Qed.

(* "stop when the height did not change": re-balancing the remaining ancestors changes nothing *)
Lemma early_exit c : forall t, ctx_ok c (ht t) -> rebuild t c = plug t c.
Proof.
  induction c as [|[ok k v s h r|ok l k v s h] c IH]; intros t Hok; cbn [rebuild plug ctx_ok] in *; auto.
  - destruct Hok as (Hh & B1 & B2 & Hok). rewrite rebal_id by lia. unfold mk. rewrite <- Hh. apply IH. exact Hok.
  - destruct Hok as (Hh & B1 & B2 & Hok). rewrite rebal_id by lia. unfold mk. rewrite <- Hh. apply IH. exact Hok.
Qed.

Lemma bal_plug c : forall t, bal (plug t c) -> bal t /\ ctx_ok c (ht t).
Proof.
  induction c as [|[ok k v s h r|ok l k v s h] c IH]; intros t Hb; cbn [plug ctx_ok] in *; auto.
  - destruct (IH _ Hb) as (Hn & Hok). cbn [bal ht] in *. destruct Hn as (B1 & B2 & B3 & B4 & B5). repeat split; auto.
  - destruct (IH _ Hb) as (Hn & Hok). cbn [bal ht] in *. destruct Hn as (B1 & B2 & B3 & B4 & B5). repeat split; auto.
Qed.

(* the sibling subtrees of a context inside a balanced tree are balanced *)
Fixpoint ctx_bal (c : ctx) : Prop :=
  match c with
  | [] => True
  | FL ok _ _ _ _ r :: c' => bal r /\ ctx_bal c'
  | FR ok l _ _ _ _ :: c' => bal l /\ ctx_bal c'
  end.
Lemma bal_plug_ctx c : forall t, bal (plug t c) -> ctx_bal c.
Proof.
  induction c as [|[ok k v s h r|ok l k v s h] c IH]; intros t Hb; cbn [plug ctx_bal] in *; auto.
  - split; [|eapply IH; eauto]. destruct (bal_plug _ _ Hb) as (Hn & _). cbn [bal] in Hn. tauto.
  - split; [|eapply IH; eauto]. destruct (bal_plug _ _ Hb) as (Hn & _). cbn [bal] in Hn. tauto.
Qed.

(* ---- field reads through the write primitives ----------------------------------------------------------------- *)
Lemma upd_same {A} (h : nat -> A) a c : upd h a c a = c.
Proof. unfold upd. rewrite Nat.eqb_refl. reflexivity. Qed.
Lemma upd_neq {A} (h : nat -> A) a c x : x <> a -> upd h a c x = h x.
Proof. intros H. unfold upd. apply Nat.eqb_neq in H. rewrite H. reflexivity. Qed.

Ltac eqb_dec :=
  repeat match goal with
  | |- context[Nat.eqb ?x ?x] => rewrite (Nat.eqb_refl x)
  | |- context[Nat.eqb ?x ?y] =>
      first [ rewrite (proj2 (Nat.eqb_neq x y)) by congruence
            | rewrite (proj2 (Nat.eqb_eq x y)) by congruence ]
  end.

Ltac wr_unfold := unfold m_update, w_par, w_left, w_right, w_val, upd, set_par, set_left, set_right, set_val, set_hs.
