(* The threaded prev/next list of the cell machine against a list of slots. *)
From Coq Require Import ZArith List Bool Arith Lia.
From Avl Require Import AvlSpec AvlModel AvlHeapModel AvlHeapRep.
Import ListNotations.

Definition hd_ptr (l : list nat) (d : lptr) : lptr := match l with [] => d | a :: _ => LCell a end.
Definition last_ptr (l : list nat) (d : ptr) : ptr := match l with [] => d | _ => Some (last l O) end.

(* `next` chain and `prev` chain *)
Fixpoint nseg (L : lheap) (l : list nat) (nxt : lptr) : Prop :=
  match l with [] => True | a :: rest => cnext (L a) = hd_ptr rest nxt /\ nseg L rest nxt end.
Fixpoint pseg (L : lheap) (prv : ptr) (l : list nat) : Prop :=
  match l with [] => True | a :: rest => cprev (L a) = prv /\ pseg L (Some a) rest end.

Definition lrep (ls : lstate) (l : list nat) : Prop :=
  nseg (lh ls) l LEnd /\ pseg (lh ls) None l /\ l_begin ls = hd_ptr l LEnd /\ l_eprev ls = last_ptr l None.

Lemma hd_ptr_app A B d : hd_ptr (A ++ B) d = hd_ptr A (hd_ptr B d).
Proof. destruct A; reflexivity. Qed.
Lemma last_ptr_cons a A d : last_ptr (a :: A) d = last_ptr A (Some a).
Proof. destruct A; reflexivity. Qed.
Lemma last_ptr_app A B d : last_ptr (A ++ B) d = last_ptr B (last_ptr A d).
Proof.
  revert d. induction A as [|a A IH]; intros d; [reflexivity|].
  change ((a :: A) ++ B) with (a :: A ++ B). rewrite !last_ptr_cons. apply IH.
Qed.

Lemma nseg_app L A B nxt : nseg L (A ++ B) nxt <-> nseg L A (hd_ptr B nxt) /\ nseg L B nxt.
Proof.
  induction A as [|a A IH]; cbn [app nseg]; [tauto|]. rewrite IH, hd_ptr_app. tauto.
Qed.
Lemma pseg_app L A B prv : pseg L prv (A ++ B) <-> pseg L prv A /\ pseg L (last_ptr A prv) B.
Proof.
  revert prv. induction A as [|a A IH]; intros prv; cbn [app pseg]; [cbn [last_ptr]; tauto|].
  rewrite IH, last_ptr_cons. tauto.
Qed.

Lemma nseg_ext L L' l nxt : (forall x, In x l -> cnext (L' x) = cnext (L x)) -> nseg L l nxt -> nseg L' l nxt.
Proof.
  induction l as [|a l IH]; cbn [nseg]; auto. intros He (H1 & H2). split.
  - rewrite He by (cbn; auto). exact H1.
  - apply IH; auto. intros x Hx. apply He. cbn. auto.
Qed.
Lemma pseg_ext L L' l : forall prv, (forall x, In x l -> cprev (L' x) = cprev (L x)) -> pseg L prv l -> pseg L' prv l.
Proof.
  induction l as [|a l IH]; intros prv; cbn [pseg]; auto. intros He (H1 & H2). split.
  - rewrite He by (cbn; auto). exact H1.
  - apply IH; auto. intros x Hx. apply He. cbn. auto.
Qed.

Lemma last_in (l : list nat) d : l <> [] -> In (last l d) l.
Proof.
  induction l as [|a l IH]; [congruence|]. intros _. destruct l as [|b l]; [cbn; auto|].
  change (last (a :: b :: l) d) with (last (b :: l) d). right. apply IH. discriminate.
Qed.

(* the `next` of the last cell of a segment is redirected *)
Lemma nseg_retarget L L' A X Y :
  A <> [] -> NoDup A -> nseg L A X ->
  (forall x, In x A -> x <> last A O -> cnext (L' x) = cnext (L x)) -> cnext (L' (last A O)) = Y ->
  nseg L' A Y.
Proof.
  induction A as [|a A IH]; [congruence|]. intros _ Hnd Hs He Hl.
  apply NoDup_cons_iff in Hnd as (Ha & Hnd). cbn [nseg] in *. destruct Hs as (H1 & H2).
  destruct A as [|b A].
  - cbn [last hd_ptr nseg] in *. auto.
  - change (last (a :: b :: A) O) with (last (b :: A) O) in *.
    assert (Hne : a <> last (b :: A) O).
    { intros E. apply Ha. rewrite E. apply last_in. discriminate. }
    split.
    + rewrite He; [exact H1|cbn; auto|exact Hne].
    + apply IH; auto; [discriminate|]. intros x Hx. apply He. cbn [In] in *. tauto.
Qed.

(* ---- field reads through the list writes --------------------------------------------------------------------- *)
Lemma next_wr_prev p v ls x : cnext (lh (wr_prev p v ls) x) = cnext (lh ls x).
Proof. destruct p; cbn [wr_prev lh]; auto. unfold upd. destruct (Nat.eqb x a) eqn:E; auto. apply Nat.eqb_eq in E. subst. reflexivity. Qed.
Lemma prev_wr_next a v ls x : cprev (lh (wr_next a v ls) x) = cprev (lh ls x).
Proof. cbn [wr_next lh]. unfold upd. destruct (Nat.eqb x a) eqn:E; auto. apply Nat.eqb_eq in E. subst. reflexivity. Qed.
Lemma next_wr_next a v ls x : cnext (lh (wr_next a v ls) x) = if Nat.eqb x a then v else cnext (lh ls x).
Proof. cbn [wr_next lh]. unfold upd. destruct (Nat.eqb x a); reflexivity. Qed.
Lemma prev_wr_prev p v ls x :
  cprev (lh (wr_prev p v ls) x) = match p with LCell a => if Nat.eqb x a then v else cprev (lh ls x) | LEnd => cprev (lh ls x) end.
Proof. destruct p; cbn [wr_prev lh]; auto. unfold upd. destruct (Nat.eqb x a); reflexivity. Qed.
Lemma lh_wr_begin v ls : lh (wr_begin v ls) = lh ls.
Proof. reflexivity. Qed.
Lemma lh_wr_size v ls : lh (wr_size v ls) = lh ls.
Proof. reflexivity. Qed.

Lemma rd_prev_hd ls A B :
  lrep ls (A ++ B) -> rd_prev ls (hd_ptr B LEnd) = last_ptr A None.
Proof.
  intros (_ & Hp & _ & He). destruct B as [|b B]; cbn [hd_ptr rd_prev].
  - rewrite app_nil_r in He. exact He.
  - apply pseg_app in Hp as (_ & Hp). cbn [pseg] in Hp. tauto.
Qed.

(* the four writes that put Item [n] in front of [insertPos] *)
Definition l_insert_before (n : nat) (insertPos : lptr) (ls : lstate) : lstate :=
  let pv := rd_prev ls insertPos in
  let ls := wr_prev (LCell n) pv ls in
  let ls := match pv with Some q => wr_next q (LCell n) ls | None => wr_begin (LCell n) ls end in
  let ls := wr_next n insertPos ls in
  wr_prev insertPos (Some n) ls.

Lemma l_insert_before_spec ls A B n :
  lrep ls (A ++ B) -> NoDup (A ++ B) -> ~ In n (A ++ B) ->
  lrep (l_insert_before n (hd_ptr B LEnd) ls) (A ++ n :: B) /\
  l_size (l_insert_before n (hd_ptr B LEnd) ls) = l_size ls.
Proof.
  intros Hrep Hnd Hn. pose proof (rd_prev_hd ls A B Hrep) as Hpv.
  destruct Hrep as (Hnx & Hpr & Hbeg & Hend).
  unfold l_insert_before. rewrite Hpv.
  set (ls1 := wr_prev (LCell n) (last_ptr A None) ls).
  set (ls2 := match last_ptr A None with Some q => wr_next q (LCell n) ls1 | None => wr_begin (LCell n) ls1 end).
  set (ls3 := wr_next n (hd_ptr B LEnd) ls2).
  set (ls4 := wr_prev (hd_ptr B LEnd) (Some n) ls3).
  apply NoDup_app_iff in Hnd as (HndA & HndB & D). rewrite in_app_iff in Hn.
  assert (Nx : forall x, cnext (lh ls4 x) =
            if Nat.eqb x n then hd_ptr B LEnd
            else match last_ptr A None with Some q => if Nat.eqb x q then LCell n else cnext (lh ls x) | None => cnext (lh ls x) end).
  { intros x. unfold ls4. rewrite next_wr_prev. unfold ls3. rewrite next_wr_next.
    destruct (Nat.eqb x n); auto. unfold ls2. destruct (last_ptr A None) as [q|].
    - rewrite next_wr_next. destruct (Nat.eqb x q); auto. unfold ls1. apply next_wr_prev.
    - rewrite lh_wr_begin. unfold ls1. apply next_wr_prev. }
  assert (Px : forall x, cprev (lh ls4 x) =
            match hd_ptr B LEnd with
            | LCell b => if Nat.eqb x b then Some n else if Nat.eqb x n then last_ptr A None else cprev (lh ls x)
            | LEnd => if Nat.eqb x n then last_ptr A None else cprev (lh ls x)
            end).
  { intros x. unfold ls4. rewrite prev_wr_prev.
    assert (E : cprev (lh ls3 x) = if Nat.eqb x n then last_ptr A None else cprev (lh ls x)).
    { unfold ls3. rewrite prev_wr_next. unfold ls2.
      destruct (last_ptr A None) as [q|]; [rewrite prev_wr_next|rewrite lh_wr_begin];
        unfold ls1; rewrite prev_wr_prev; reflexivity. }
    rewrite E. reflexivity. }
  assert (Hsz : l_size ls4 = l_size ls).
  { unfold ls4, ls3, ls2, ls1. destruct (hd_ptr B LEnd), (last_ptr A None); reflexivity. }
  split; [|exact Hsz].
  apply nseg_app in Hnx as (HnA & HnB). apply pseg_app in Hpr as (HpA & HpB).
  unfold lrep. split; [|split; [|split]].
  - (* next chain *)
    apply nseg_app. split.
    + cbn [hd_ptr]. destruct A as [|a A]; [exact I|].
      apply nseg_retarget with (lh ls) (hd_ptr B LEnd); auto; [discriminate| |].
      * intros x Hx Hne. rewrite Nx.
        rewrite (proj2 (Nat.eqb_neq x n)) by (intros ->; tauto).
        cbn [last_ptr]. rewrite (proj2 (Nat.eqb_neq x _)) by exact Hne. reflexivity.
      * rewrite Nx. rewrite (proj2 (Nat.eqb_neq _ n)).
        2:{ intros E. apply Hn. left. rewrite <- E. apply last_in. discriminate. }
        cbn [last_ptr]. rewrite Nat.eqb_refl. reflexivity.
    + cbn [nseg]. split.
      * rewrite Nx, Nat.eqb_refl. reflexivity.
      * apply nseg_ext with (lh ls); auto. intros x Hx. rewrite Nx.
        rewrite (proj2 (Nat.eqb_neq x n)) by (intros ->; tauto).
        destruct A as [|a A]; [reflexivity|]. cbn [last_ptr].
        rewrite (proj2 (Nat.eqb_neq x _)); auto.
        intros ->. apply (D (last (a :: A) O)); auto. apply last_in. discriminate.
  - (* prev chain *)
    apply pseg_app. split.
    + apply pseg_ext with (lh ls); auto. intros x Hx. rewrite Px.
      assert (x <> n) by (intros ->; tauto).
      destruct B as [|b B]; cbn [hd_ptr].
      * rewrite (proj2 (Nat.eqb_neq x n)); auto.
      * rewrite (proj2 (Nat.eqb_neq x b)), (proj2 (Nat.eqb_neq x n)); auto.
        intros ->. apply (D b); cbn; auto.
    + cbn [pseg]. split.
      * rewrite Px. destruct B as [|b B]; cbn [hd_ptr].
        -- rewrite Nat.eqb_refl. reflexivity.
        -- rewrite (proj2 (Nat.eqb_neq n b)) by (intros ->; cbn in Hn; tauto). rewrite Nat.eqb_refl. reflexivity.
      * destruct B as [|b B]; [exact I|]. cbn [pseg hd_ptr] in *. destruct HpB as (Hb & HpB). split.
        -- rewrite Px. rewrite Nat.eqb_refl. reflexivity.
        -- apply pseg_ext with (lh ls); auto. intros x Hx. rewrite Px.
           apply NoDup_cons_iff in HndB as (HbB & _).
           rewrite (proj2 (Nat.eqb_neq x b)) by (intros ->; tauto).
           rewrite (proj2 (Nat.eqb_neq x n)); auto. intros ->. cbn in Hn. tauto.
  - (* _begin *)
    rewrite hd_ptr_app. cbn [hd_ptr].
    assert (E : l_begin ls4 = l_begin ls2).
    { unfold ls4, ls3. destruct (hd_ptr B LEnd); reflexivity. }
    rewrite E. unfold ls2. destruct A as [|a A]; cbn [last_ptr hd_ptr]; [reflexivity|].
    cbn [wr_next l_begin]. unfold ls1. cbn [wr_prev l_begin]. rewrite Hbeg. reflexivity.
  - (* endItem.prev *)
    rewrite last_ptr_app. unfold ls4. destruct B as [|b B]; cbn [hd_ptr wr_prev l_eprev].
    + reflexivity.
    + rewrite last_ptr_cons.
      assert (E : l_eprev ls3 = l_eprev ls).
      { unfold ls3, ls2, ls1. destruct (last_ptr A None); reflexivity. }
      rewrite E, Hend, last_ptr_app, last_ptr_cons.
      destruct B; reflexivity.
Qed.

Lemma l_thread_some n pa ap ls :
  l_thread n (Some pa) ap ls = l_insert_before n (if ap then cnext (lh ls pa) else LCell pa) ls.
Proof. reflexivity. Qed.

Lemma next_of_last ls A a B : lrep ls ((A ++ [a]) ++ B) -> cnext (lh ls a) = hd_ptr B LEnd.
Proof.
  intros (Hn & _). apply nseg_app in Hn as (Hn & _). apply nseg_app in Hn as (_ & Hn).
  cbn [nseg hd_ptr] in Hn. tauto.
Qed.

Lemma l_thread_first n ls : lrep ls [] -> lrep (l_thread n None false ls) [n] /\ l_size (l_thread n None false ls) = l_size ls.
Proof.
  intros (_ & _ & Hb & He). cbn [hd_ptr last_ptr] in *. unfold l_thread, lrep.
  cbn [wr_prev wr_next wr_begin lh l_begin l_eprev l_size nseg pseg hd_ptr last_ptr last].
  rewrite !upd_same. cbn [set_next set_prev cnext cprev]. rewrite Hb. auto.
Qed.

Lemma l_unthread_spec ls A item B :
  lrep ls (A ++ item :: B) -> NoDup (A ++ item :: B) ->
  lrep (l_unthread item ls) (A ++ B) /\ l_size (l_unthread item ls) = pred (l_size ls) /\
  cnext (lh ls item) = hd_ptr B LEnd.
Proof.
  intros (Hnx & Hpr & Hbeg & Hend) Hnd.
  apply nseg_app in Hnx as (HnA & HnB). apply pseg_app in Hpr as (HpA & HpB).
  cbn [nseg pseg hd_ptr] in HnA, HnB, HpB. destruct HnB as (Hnext & HnB). destruct HpB as (Hprev & HpB).
  apply NoDup_app_iff in Hnd as (HndA & HndB & D). apply NoDup_cons_iff in HndB as (HiB & HndB).
  unfold l_unthread. rewrite Hnext, Hprev.
  set (ls1 := match last_ptr A None with
              | Some q => wr_prev (hd_ptr B LEnd) (Some q) (wr_next q (hd_ptr B LEnd) ls)
              | None => wr_prev (hd_ptr B LEnd) None (wr_begin (hd_ptr B LEnd) ls)
              end).
  assert (Nx : forall x, cnext (lh ls1 x) =
            match last_ptr A None with Some q => if Nat.eqb x q then hd_ptr B LEnd else cnext (lh ls x) | None => cnext (lh ls x) end).
  { intros x. unfold ls1. destruct (last_ptr A None) as [q|]; rewrite next_wr_prev; [apply next_wr_next|reflexivity]. }
  assert (Px : forall x, cprev (lh ls1 x) =
            match hd_ptr B LEnd with LCell b => if Nat.eqb x b then last_ptr A None else cprev (lh ls x) | LEnd => cprev (lh ls x) end).
  { intros x. unfold ls1. destruct (last_ptr A None) as [q|]; rewrite prev_wr_prev;
      destruct (hd_ptr B LEnd); try rewrite prev_wr_next; reflexivity. }
  split; [|split; [|reflexivity]].
  2:{ cbn [wr_size l_size]. unfold ls1. destruct (last_ptr A None), (hd_ptr B LEnd); reflexivity. }
  unfold lrep. rewrite lh_wr_size. split; [|split; [|split]].
  - apply nseg_app. split.
    + destruct A as [|a A]; [exact I|].
      apply nseg_retarget with (lh ls) (LCell item); auto; [discriminate| |].
      * intros x Hx Hne. rewrite Nx. cbn [last_ptr]. rewrite (proj2 (Nat.eqb_neq x _)) by exact Hne. reflexivity.
      * rewrite Nx. cbn [last_ptr]. rewrite Nat.eqb_refl. reflexivity.
    + apply nseg_ext with (lh ls); auto. intros x Hx. rewrite Nx.
      destruct A as [|a A]; [reflexivity|]. cbn [last_ptr].
      rewrite (proj2 (Nat.eqb_neq x _)); auto.
      intros ->. apply (D (last (a :: A) O)); [apply last_in; discriminate|cbn; auto].
  - apply pseg_app. split.
    + apply pseg_ext with (lh ls); auto. intros x Hx. rewrite Px.
      destruct B as [|b B]; cbn [hd_ptr]; auto.
      rewrite (proj2 (Nat.eqb_neq x b)); auto. intros ->. apply (D b); cbn; auto.
    + destruct B as [|b B]; [exact I|]. cbn [pseg hd_ptr] in *. destruct HpB as (Hb & HpB). split.
      * rewrite Px, Nat.eqb_refl. reflexivity.
      * apply pseg_ext with (lh ls); auto. intros x Hx. rewrite Px.
        apply NoDup_cons_iff in HndB as (HbB & _).
        rewrite (proj2 (Nat.eqb_neq x b)); auto. intros ->. tauto.
  - rewrite hd_ptr_app. cbn [wr_size l_begin]. unfold ls1.
    destruct A as [|a A]; cbn [last_ptr hd_ptr].
    + destruct (hd_ptr B LEnd); reflexivity.
    + rewrite hd_ptr_app in Hbeg. cbn [hd_ptr] in Hbeg. destruct (hd_ptr B LEnd); cbn [wr_prev wr_next l_begin]; exact Hbeg.
  - rewrite last_ptr_app. rewrite last_ptr_app, last_ptr_cons in Hend. cbn [wr_size l_eprev]. unfold ls1.
    destruct B as [|b B]; cbn [hd_ptr last_ptr].
    + destruct (last_ptr A None); reflexivity.
    + cbn [last_ptr] in Hend. destruct (last_ptr A None); cbn [wr_prev wr_next wr_begin l_eprev]; rewrite Hend;
        destruct B; reflexivity.
Qed.

(* reading the list back *)
Lemma l_list_nseg L l : forall fuel, (length l <= fuel)%nat -> nseg L l LEnd -> l_list fuel L (hd_ptr l LEnd) = l.
Proof.
  induction l as [|a l IH]; intros fuel Hf Hs.
  - destruct fuel; reflexivity.
  - destruct fuel as [|fuel]; [cbn [length] in Hf; lia|]. cbn [nseg] in Hs. destruct Hs as (H1 & H2).
    cbn [hd_ptr l_list]. rewrite H1, IH; auto. cbn [length] in Hf. lia.
Qed.

Lemma l_walk_nseg L l : forall p, nseg L l LEnd ->
  l_walk p L (hd_ptr l LEnd) = match nth_error l p with Some a => LCell a | None => LEnd end.
Proof.
  induction l as [|a l IH]; intros p Hs.
  - destruct p; reflexivity.
  - cbn [nseg] in Hs. destruct Hs as (H1 & H2). destruct p as [|p]; [reflexivity|].
    cbn [hd_ptr l_walk nth_error]. rewrite H1. apply IH. exact H2.
Qed.
