(* Lookup cost: comparisons made by find on n entries <= 2 * floor(1.4405 * log2 (n + 2)).

   Integer form (no axioms).  floor(1.4405 * log2 m) = floor(log2 (m^14405)) / 10000 (integer
   division), because floor(x / q) = floor(floor(x) / q) for a positive integer q; Z.log2 is
   floor(log2 _).  So the bound of the property text is [cost_bound].

   The chain:  comparisons <= 2 * height;  fib (height + 2) <= n + 1  (Fibonacci lower bound on
   the size of a balanced tree);  q^h <= fib (h + 2) with q = 1.61803 <= golden ratio (q*q <= q+1);
   q^121 >= 2^84;  84/121 >= 10000/14405.  Hence 2^(10000 h) <= (n + 2)^14405. *)
From Coq Require Import ZArith List Bool Arith Lia ZifyBool ZifyNat.
From Avl Require Import AvlSpec AvlModel AvlBalance AvlInv AvlRefine.
Import ListNotations.
Local Open Scope Z_scope.

Definition cost_bound (n : nat) : Z := 2 * (Z.log2 ((Z.of_nat n + 2) ^ 14405) / 10000).

Lemma fib_pow_pair h :
  161803 ^ Z.of_nat h <= 100000 ^ Z.of_nat h * Z.of_nat (fib (h + 2)) /\
  161803 ^ Z.of_nat (S h) <= 100000 ^ Z.of_nat (S h) * Z.of_nat (fib (S h + 2)).
Proof.
  induction h as [|h (IH0 & IH1)].
  - split; vm_compute; discriminate.
  - split; [exact IH1|].
    replace (S (S h) + 2)%nat with (S (S (h + 2))) by lia. rewrite fib_SS.
    replace (S (h + 2)) with (S h + 2)%nat by lia.
    rewrite !Nat2Z.inj_succ in *. rewrite !Z.pow_succ_r in * by lia.
    pose proof (Z.pow_pos_nonneg 161803 (Z.of_nat h) ltac:(lia) ltac:(lia)) as HA.
    pose proof (Z.pow_pos_nonneg 100000 (Z.of_nat h) ltac:(lia) ltac:(lia)) as HB.
    set (A := 161803 ^ Z.of_nat h) in *. set (B := 100000 ^ Z.of_nat h) in *.
    rewrite Nat2Z.inj_add.
    set (F0 := Z.of_nat (fib (h + 2))) in *. set (F1 := Z.of_nat (fib (S h + 2))) in *.
    lia.
Qed.

Lemma fib_pow h : 161803 ^ Z.of_nat h <= 100000 ^ Z.of_nat h * Z.of_nat (fib (h + 2)).
Proof. apply fib_pow_pair. Qed.

Lemma golden_121_84 : 2 ^ 84 * 100000 ^ 121 <= 161803 ^ 121.
Proof. vm_compute. discriminate. Qed.

(* the two arithmetic steps with the exponents as variables (so that no tactic expands a
   constant power) *)
Lemma pow_nn (a b : Z) : 0 < a -> 0 <= a ^ b.
Proof. intros H. apply Z.pow_nonneg, Z.lt_le_incl, H. Qed.

Lemma pow_cancel (a b c m h p q : Z) :
  0 < a -> 0 < b -> 0 < c -> 0 <= m -> 0 <= h -> 0 <= p -> 0 <= q ->
  c ^ p * b ^ q <= a ^ q -> a ^ h <= b ^ h * m -> (c ^ h) ^ p <= m ^ q.
Proof.
  intros Ha Hb Hc Hm Hh Hp Hq HK H1.
  assert (H2 : (c ^ h) ^ p * (b ^ h) ^ q <= (a ^ h) ^ q).
  { rewrite <- !Z.pow_mul_r by assumption.
    rewrite (Z.mul_comm h p), (Z.mul_comm h q). rewrite !Z.pow_mul_r by assumption.
    rewrite <- Z.pow_mul_l. apply Z.pow_le_mono_l. split; [|exact HK].
    apply Z.mul_nonneg_nonneg; apply pow_nn; assumption. }
  assert (H3 : (a ^ h) ^ q <= (b ^ h) ^ q * m ^ q).
  { rewrite <- Z.pow_mul_l. apply Z.pow_le_mono_l. split; [apply pow_nn; assumption|exact H1]. }
  assert (HB : 0 < (b ^ h) ^ q) by (apply Z.pow_pos_nonneg; [apply Z.pow_pos_nonneg|]; assumption).
  apply (Z.mul_le_mono_pos_r _ _ ((b ^ h) ^ q) HB).
  apply Z.le_trans with ((a ^ h) ^ q); [exact H2|]. rewrite (Z.mul_comm (m ^ q)). exact H3.
Qed.

Lemma pow_chain (X m p q r s : Z) :
  1 <= X -> 0 <= m -> 0 <= p -> 0 < q -> 0 <= r -> 0 <= s ->
  X ^ p <= m ^ q -> r * q <= p * s -> X ^ r <= m ^ s.
Proof.
  intros HX Hm Hp Hq Hr Hs H1 H2.
  apply (Z.pow_le_mono_l_iff (X ^ r) (m ^ s) q); [apply Z.pow_nonneg; lia|apply Z.pow_nonneg; lia|exact Hq|].
  rewrite <- !Z.pow_mul_r by lia.
  apply Z.le_trans with (X ^ (p * s)); [apply Z.pow_le_mono_r; lia|].
  rewrite (Z.mul_comm s q). rewrite !Z.pow_mul_r by lia.
  apply Z.pow_le_mono_l. split; [apply Z.pow_nonneg; lia|exact H1].
Qed.

Lemma height_pow (h n : nat) :
  (fib (h + 2) <= n + 1)%nat -> 2 ^ (10000 * Z.of_nat h) <= (Z.of_nat n + 2) ^ 14405.
Proof.
  intros Hf. pose proof (fib_pow h) as Hq.
  assert (H1 : 161803 ^ Z.of_nat h <= 100000 ^ Z.of_nat h * (Z.of_nat n + 2)).
  { pose proof (Z.pow_pos_nonneg 100000 (Z.of_nat h) ltac:(lia) ltac:(lia)) as HB.
    set (A := 161803 ^ Z.of_nat h) in *. set (B := 100000 ^ Z.of_nat h) in *. nia. }
  assert (Hh : 0 <= Z.of_nat h) by lia.
  assert (Hm : 0 <= Z.of_nat n + 2) by lia.
  assert (HX : 1 <= 2 ^ Z.of_nat h) by (pose proof (Z.pow_pos_nonneg 2 (Z.of_nat h) ltac:(lia) Hh); lia).
  clear Hf Hq.
  pose proof (pow_cancel 161803 100000 2 (Z.of_nat n + 2) (Z.of_nat h) 84 121
                eq_refl eq_refl eq_refl Hm Hh ltac:(discriminate) ltac:(discriminate) golden_121_84 H1) as H2.
  rewrite Z.mul_comm, Z.pow_mul_r by (assumption || discriminate).
  exact (pow_chain (2 ^ Z.of_nat h) (Z.of_nat n + 2) 84 121 10000 14405 HX Hm
           ltac:(discriminate) eq_refl ltac:(discriminate) ltac:(discriminate) H2 ltac:(discriminate)).
Qed.

Lemma height_le_log (h n : nat) :
  (fib (h + 2) <= n + 1)%nat -> Z.of_nat h <= Z.log2 ((Z.of_nat n + 2) ^ 14405) / 10000.
Proof.
  intros Hf. apply Z.div_le_lower_bound; [lia|].
  apply Z.log2_le_pow2; [apply Z.pow_pos_nonneg; lia|]. apply height_pow. exact Hf.
Qed.

Lemma find_cmps_bound f k t : bal t -> Z.of_nat (find_cmps f k t) <= cost_bound (size t).
Proof.
  intros Hb. pose proof (find_cmps_height f k t) as H1. rewrite <- (bal_ht_height t Hb) in H1.
  pose proof (height_le_log (ht t) (size t) (size_lower_bound t Hb)) as H2.
  unfold cost_bound. remember (Z.log2 ((Z.of_nat (size t) + 2) ^ 14405) / 10000) as L eqn:HL. clear HL. lia.
Qed.

(* on every reachable state: the comparison count the model reports for find *)
Lemma find_cost f ops k :
  let st := run f m_init ops in
  Z.of_nat (snd (snd (step f st (OFind k)))) <= cost_bound (sz (m_sel st)).
Proof.
  cbv zeta. destruct (inv_sel _ _ (run_inv f ops)) as ((Hb & Hs) & Hsz).
  unfold step. cbv beta iota zeta. cbn [snd]. rewrite Hsz. apply find_cmps_bound. exact Hb.
Qed.

Lemma height_bound f ops :
  let t := tr (m_sel (run f m_init ops)) in
  Z.of_nat (height t) <= Z.log2 ((Z.of_nat (size t) + 2) ^ 14405) / 10000.
Proof.
  cbv zeta. destruct (inv_sel _ _ (run_inv f ops)) as ((Hb & Hs) & Hsz).
  rewrite <- (bal_ht_height _ Hb). apply height_le_log. apply size_lower_bound. exact Hb.
Qed.
