(* remove(Iterator) of the cell machine against remove_rank of AvlModel. *)
From Coq Require Import ZArith List Bool Arith Lia ZifyBool Permutation.
From Avl Require Import AvlSpec AvlModel AvlLists AvlBalance AvlOrder AvlHeapModel AvlHeapRep AvlHeapTree AvlHeapList AvlHeapOps.
Import ListNotations.
Local Open Scope Z_scope.

Arguments Nat.max : simpl never.
Arguments Z.of_nat : simpl never.
Arguments Z.sub : simpl never.

(* ---- node level: removal seen through contexts ----------------------------------------------------------------- *)
Lemma plug_app c1 : forall t c2, plug t (c1 ++ c2) = plug (plug t c1) c2.
Proof. induction c1 as [|[ok k v s h r|ok l k v s h] c1 IH]; intros t c2; cbn [app plug]; auto. Qed.
Lemma rebuild_app c1 : forall t c2, rebuild t (c1 ++ c2) = rebuild (rebuild t c1) c2.
Proof. induction c1 as [|[ok k v s h r|ok l k v s h] c1 IH]; intros t c2; cbn [app rebuild]; auto. Qed.
Lemma before_app c1 c2 : before (c1 ++ c2) = before c2 ++ before c1.
Proof.
  induction c1 as [|[ok k v s h r|ok l k v s h] c1 IH]; cbn [app before]; [rewrite app_nil_r; reflexivity|exact IH|].
  rewrite IH, <- app_assoc. reflexivity.
Qed.
Lemma after_app c1 c2 : after (c1 ++ c2) = after c1 ++ after c2.
Proof.
  induction c1 as [|[ok k v s h r|ok l k v s h] c1 IH]; cbn [app after]; auto.
  rewrite IH, <- app_assoc. reflexivity.
Qed.
Lemma cslots_app c1 c2 : cslots (c1 ++ c2) = cslots c1 ++ cslots c2.
Proof.
  induction c1 as [|[ok k v s h r|ok l k v s h] c1 IH]; cbn [app cslots]; auto; rewrite IH, <- app_assoc; reflexivity.
Qed.
Lemma ctx_strict_app c1 c2 : ctx_strict (c1 ++ c2) <-> ctx_strict c1 /\ ctx_strict c2.
Proof. induction c1 as [|fr c1 IH]; cbn [app ctx_strict]; tauto. Qed.

Lemma remove_rank_plug c : forall t i,
  (i < size t)%nat -> remove_rank (length (before c) + i) (plug t c) = rebuild (remove_rank i t) c.
Proof.
  induction c as [|[ok k v s h r|ok l k v s h] c IH]; intros t i Hi; cbn [plug before rebuild].
  - reflexivity.
  - rewrite IH by (cbn [size]; lia). cbn [remove_rank].
    replace (i <? size t)%nat with true by lia. reflexivity.
  - rewrite !app_length. cbn [length]. rewrite <- size_inorder.
    replace (length (before c) + (size l + 1) + i)%nat with (length (before c) + (size l + 1 + i))%nat by lia.
    rewrite IH by (cbn [size]; lia). cbn [remove_rank].
    replace (size l + 1 + i <? size l)%nat with false by lia.
    replace (size l + 1 + i =? size l)%nat with false by lia.
    replace (size l + 1 + i - size l - 1)%nat with i by lia. reflexivity.
Qed.

Lemma remove_rank_root l k v s h r : remove_rank (size l) (Node l k v s h r) = remove_root l r.
Proof. cbn [remove_rank]. rewrite Nat.ltb_irrefl, Nat.eqb_refl. reflexivity. Qed.

Definition isFL (fr : frame) : Prop := match fr with FL _ _ _ _ _ _ => True | FR _ _ _ _ _ _ => False end.
Definition isFR (fr : frame) : Prop := match fr with FR _ _ _ _ _ _ => True | FL _ _ _ _ _ _ => False end.

Lemma before_allFL sp : Forall isFL sp -> before sp = [].
Proof. induction 1 as [|[ok k v s h r|ok l k v s h] sp H _ IH]; cbn [before isFL] in *; auto. contradiction. Qed.
Lemma after_allFR sp : Forall isFR sp -> after sp = [].
Proof. induction 1 as [|[ok k v s h r|ok l k v s h] sp H _ IH]; cbn [after isFR] in *; auto. contradiction. Qed.

(* the in-order first Item of Node l k v s h r and the path down to it (frames innermost first) *)
Fixpoint lmost (l : tree) (k v : Z) (s h : nat) (r : tree) (acc : ctx) : (Z * Z * nat * nat * tree) * ctx :=
  match l with
  | Leaf => ((k, v, s, h, r), acc)
  | Node ll lk lv ls lh lr => lmost ll lk lv ls lh lr (FL true k v s h r :: acc)
  end.
Fixpoint rmost (l : tree) (k v : Z) (s h : nat) (r : tree) (acc : ctx) : (tree * Z * Z * nat * nat) * ctx :=
  match r with
  | Leaf => ((l, k, v, s, h), acc)
  | Node rl rk rv rs rh rr => rmost rl rk rv rs rh rr (FR true l k v s h :: acc)
  end.

Lemma lmost_spec l : forall k v s h r acc nk nv nx nh nr sp,
  lmost l k v s h r acc = ((nk, nv, nx, nh, nr), sp) ->
  plug (Node l k v s h r) acc = plug (Node Leaf nk nv nx nh nr) sp /\
  fst (pop_min l k v s r) = (nk, nv, nx) /\
  rebuild (snd (pop_min l k v s r)) acc = rebuild nr sp /\
  exists sp0, sp = sp0 ++ acc /\ ctx_strict sp0 /\ Forall isFL sp0 /\
    (sp0 = [] -> l = Leaf /\ (nk, nv, nx, nh, nr) = (k, v, s, h, r)).
Proof.
  induction l as [|ll IHll lk lv ls lh lr _]; intros k v s h r acc nk nv nx nh nr sp E; cbn [lmost pop_min] in *.
  - injection E as <- <- <- <- <- <-. cbn [fst snd]. repeat split; auto. exists []. repeat split; auto.
  - specialize (IHll _ _ _ _ _ _ _ _ _ _ _ _ E). destruct IHll as (I1 & I2 & I3 & sp0 & I4 & I5 & I7 & I6).
    destruct (pop_min ll lk lv ls lr) as [e l'] eqn:Ep. cbn [fst snd plug rebuild] in *.
    repeat split; auto.
    exists (sp0 ++ [FL true k v s h r]). rewrite <- app_assoc. cbn [app]. split; [exact I4|]. split; [|split].
    + apply ctx_strict_app. cbn [ctx_strict fok]. auto.
    + apply Forall_app. split; auto. constructor; [exact I|constructor].
    + intros X. apply app_eq_nil in X as (_ & X). discriminate.
Qed.

Lemma rmost_spec r : forall l k v s h acc nl nk nv nx nh sp,
  rmost l k v s h r acc = ((nl, nk, nv, nx, nh), sp) ->
  plug (Node l k v s h r) acc = plug (Node nl nk nv nx nh Leaf) sp /\
  fst (pop_max l k v s r) = (nk, nv, nx) /\
  rebuild (snd (pop_max l k v s r)) acc = rebuild nl sp /\
  exists sp0, sp = sp0 ++ acc /\ ctx_strict sp0 /\ Forall isFR sp0 /\
    (sp0 = [] -> r = Leaf /\ (nl, nk, nv, nx, nh) = (l, k, v, s, h)).
Proof.
  induction r as [|rl _ rk rv rs rh rr IHrr]; intros l k v s h acc nl nk nv nx nh sp E; cbn [rmost pop_max] in *.
  - injection E as <- <- <- <- <- <-. cbn [fst snd]. repeat split; auto. exists []. repeat split; auto.
  - specialize (IHrr _ _ _ _ _ _ _ _ _ _ _ _ E). destruct IHrr as (I1 & I2 & I3 & sp0 & I4 & I5 & I7 & I6).
    destruct (pop_max rl rk rv rs rr) as [e r'] eqn:Ep. cbn [fst snd plug rebuild] in *.
    repeat split; auto.
    exists (sp0 ++ [FR true l k v s h]). rewrite <- app_assoc. cbn [app]. split; [exact I4|]. split; [|split].
    + apply ctx_strict_app. cbn [ctx_strict fok]. auto.
    + apply Forall_app. split; auto. constructor; [exact I|constructor].
    + intros X. apply app_eq_nil in X as (_ & X). discriminate.
Qed.

(* ---- cell level: the rebalParent loop ---------------------------------------------------------------------------- *)
Lemma ctx_par_app sp top c : ctx_par (sp ++ top :: c) = Some (fslot (hd top sp)).
Proof. destruct sp; reflexivity. Qed.

(* plugging the strict inner frames only *)
Lemma plug_rep_inner T root top c sp : forall t,
  ctx_strict sp -> trep T (ctx_par (sp ++ top :: c)) t -> crep T root (sp ++ top :: c) (rootp t) (ht t) ->
  trep T (Some (fslot top)) (plug t sp) /\ crep T root (top :: c) (rootp (plug t sp)) (ht (plug t sp)).
Proof.
  induction sp as [|[ok k v s h r|ok l k v s h] sp IH]; intros t Hs Ht Hc; cbn [app plug crep ctx_par ctx_strict fok] in *.
  - auto.
  - destruct Hc as (H1 & H2 & H3 & H4 & H5 & H6 & H7 & H8 & H9). destruct Hs as (Hok & Hs).
    apply IH; cbn [trep rootp ht]; auto. repeat split; auto.
  - destruct Hc as (H1 & H2 & H3 & H4 & H5 & H6 & H7 & H8 & H9). destruct Hs as (Hok & Hs).
    apply IH; cbn [trep rootp ht]; auto. repeat split; auto.
Qed.

Lemma ptr_eqb_refl p : ptr_eqb p p = true.
Proof. apply ptr_eqb_eq. reflexivity. Qed.

(* updateHeightAndSlope + rebal of the Item in a frame, then its parent pointer *)
Lemma process_frame T root fr c t' hh :
  trep T (Some (fslot fr)) t' -> crep T root (fr :: c) (rootp t') hh -> NoDup (tslots t' ++ cslots (fr :: c)) ->
  let t2 := rebal (fill_mk fr t') in
  exists T2 root2 a, m_rebal (fslot fr) (m_update (fslot fr) T, root) = Some ((T2, root2), a) /\
    rootp t2 = Some a /\ trep T2 (ctx_par c) t2 /\ crep T2 root2 c (Some a) (fh fr) /\
    cpar (T2 a) = ctx_par c /\ cht (T2 a) = ht t2 /\ (fok fr = true -> cht (T (fslot fr)) = fh fr).
Proof.
  intros Ht Hc Hnd. cbv zeta.
  destruct (update_frame T root fr c t' hh Hc Ht Hnd) as (Ht1 & Hc1 & Hold).
  destruct (fill_mk_node fr t') as (l & k & v & s & h & r & Efill & Es).
  rewrite Efill in Ht1. rewrite <- Es in *.
  assert (Hnd1 : NoDup (tslots (Node l k v s h r) ++ cslots c)).
  { rewrite <- Efill. apply (Permutation_NoDup (l := tslots t' ++ cslots (fr :: c))); auto.
    apply Permutation_sym. apply perm_fill. }
  destruct (m_rebal_spec (m_update s T) root c l k v s h r (fh fr) Ht1 Hc1 Hnd1)
    as (T2 & root2 & a & Hrun & Hroot & Ht2 & Hc2).
  rewrite <- Efill in *.
  destruct (trep_root_par _ _ _ _ Ht2 Hroot) as (Hpar & Hht).
  exists T2, root2, a. repeat split; auto.
Qed.

Lemma m_rebal_parent_spec top c : forall sp fuel T root t' hh,
  (length sp < fuel)%nat ->
  trep T (ctx_par (sp ++ top :: c)) t' -> crep T root (sp ++ top :: c) (rootp t') hh ->
  NoDup (tslots t' ++ cslots (sp ++ top :: c)) -> ctx_ok sp hh -> ctx_strict sp ->
  bal (rebal (fill_mk top (rebuild t' sp))) ->
  exists T' root',
    m_rebal_parent fuel (T, root) (ctx_cell c) (ctx_par c) (fslot (hd top sp)) = Some ((T', root'), ctx_par c) /\
    trep T' (ctx_par c) (rebal (fill_mk top (rebuild t' sp))) /\
    crep T' root' c (rootp (rebal (fill_mk top (rebuild t' sp)))) (fh top).
Proof.
  induction sp as [|fr sp IH]; intros fuel T root t' hh Hf Ht Hc Hnd Hok Hst Hbal;
    (destruct fuel as [|fuel]; [cbn [length] in Hf; lia|]).
  - (* the Item in the removed Item's place *)
    cbn [app hd rebuild ctx_par] in *. cbn [m_rebal_parent fst snd].
    destruct (process_frame T root top c t' hh Ht Hc Hnd) as (T2 & root2 & a & Hrun & Hroot & Ht2 & Hc2 & Hpar & Hht & _).
    rewrite Hrun. cbn [fst snd]. rewrite Hht, Hpar.
    destruct (Nat.eqb (cht (T (fslot top))) (ht (rebal (fill_mk top t')))) eqn:E.
    + (* parent = *cell; update; rebal again: nothing changes *)
      rewrite (rd_cell_ctx _ _ _ _ _ Hc2).
      destruct (rebal (fill_mk top t')) as [|l2 k2 v2 s2 h2 r2] eqn:Et2; [discriminate|].
      cbn [rootp] in Hroot. injection Hroot as <-.
      assert (Hnd2 : NoDup (tslots (Node l2 k2 v2 s2 h2 r2) ++ cslots c)).
      { rewrite <- Et2, tslots_rebal. apply (Permutation_NoDup (l := tslots t' ++ cslots (top :: c))); auto.
        apply Permutation_sym. apply perm_fill. }
      pose proof Hnd2 as Hnd2'. apply NoDup_app_iff in Hnd2' as (Hndt & _ & D).
      cbn [tslots] in Hndt. apply NoDup_node in Hndt as (_ & _ & Hs2l & Hs2r & _).
      cbn [bal] in Hbal. destruct Hbal as (Bl & Br & Bh & B1 & B2).
      assert (Emk : mk l2 k2 v2 s2 r2 = Node l2 k2 v2 s2 h2 r2) by (unfold mk; rewrite Bh; reflexivity).
      assert (Ht3 : trep (m_update s2 T2) (ctx_par c) (Node l2 k2 v2 s2 h2 r2)).
      { rewrite <- Emk. apply update_node; auto. apply trep_node in Ht2. tauto. }
      assert (Hc3 : crep (m_update s2 T2) root2 c (Some s2) (fh top)).
      { apply crep_ext with T2; auto. intros x Hx. unfold m_update. apply upd_neq. intros ->.
        apply (D s2); auto. cbn [tslots]. apply in_elt. }
      destruct (m_rebal_spec (m_update s2 T2) root2 c l2 k2 v2 s2 h2 r2 (fh top) Ht3 Hc3 Hnd2)
        as (T4 & root4 & a4 & Hrun4 & Hroot4 & Ht4 & Hc4).
      rewrite Hrun4. cbn [fst snd].
      assert (Eid : rebal (Node l2 k2 v2 s2 h2 r2) = Node l2 k2 v2 s2 h2 r2).
      { rewrite <- Emk. rewrite rebal_id by lia. reflexivity. }
      rewrite Eid in *. cbn [rootp] in Hroot4. injection Hroot4 as <-.
      destruct (trep_root_par _ _ _ _ Ht4 eq_refl) as (Hpar4 & _). rewrite Hpar4.
      exists T4, root4. auto.
    + rewrite ptr_eqb_refl. exists T2, root2. rewrite Hroot. auto.
  - (* a frame below it *)
    cbn [app hd] in *. cbn [m_rebal_parent fst snd]. cbn [ctx_par] in Ht.
    cbn [ctx_strict] in Hst. destruct Hst as (Hfok & Hst). apply ctx_ok_cons in Hok as (Hok1 & Hok2).
    destruct (process_frame T root fr (sp ++ top :: c) t' hh Ht Hc Hnd) as (T2 & root2 & a & Hrun & Hroot & Ht2 & Hc2 & Hpar & Hht & Hold).
    rewrite Hrun. cbn [fst snd]. rewrite Hht, Hpar, (Hold Hfok). rewrite rebuild_cons in *.
    set (t2 := rebal (fill_mk fr t')) in *.
    assert (Hnd2 : NoDup (tslots t2 ++ cslots (sp ++ top :: c))).
    { unfold t2. rewrite tslots_rebal. apply (Permutation_NoDup (l := tslots t' ++ cslots (fr :: sp ++ top :: c))); auto.
      apply Permutation_sym. apply perm_fill. }
    destruct (Nat.eqb (fh fr) (ht t2)) eqn:E.
    + (* the height did not change: the frames in between stay as they are *)
      apply Nat.eqb_eq in E.
      rewrite early_exit in * by (rewrite <- E; exact Hok2).
      rewrite <- Hroot in Hc2. rewrite E in Hc2.
      destruct (plug_rep_inner T2 root2 top c sp t2 Hst Ht2 Hc2) as (Ht3 & Hc3).
      assert (Hrd : rd_cell (ctx_cell c) (T2, root2) = Some (fslot top)).
      { destruct top as [ok k v s h r|ok l k v s h]; cbn [crep fslot] in *;
          destruct Hc3 as (_ & _ & _ & _ & _ & _ & _ & _ & Hc3); apply (rd_cell_ctx _ _ _ _ _ Hc3). }
      rewrite Hrd.
      assert (Hnd3 : NoDup (tslots (plug t2 sp) ++ cslots (top :: c))).
      { apply (Permutation_NoDup (l := tslots t2 ++ cslots (sp ++ top :: c))); auto.
        rewrite cslots_app, app_assoc. apply Permutation_app_tail. apply Permutation_sym. apply tslots_plug. }
      destruct (process_frame T2 root2 top c (plug t2 sp) _ Ht3 Hc3 Hnd3)
        as (T4 & root4 & a4 & Hrun4 & Hroot4 & Ht4 & Hc4 & Hpar4 & _ & _).
      rewrite Hrun4. cbn [fst snd]. rewrite Hpar4. exists T4, root4. rewrite Hroot4. auto.
    + (* one frame up *)
      rewrite ctx_par_app.
      assert (Hne : ptr_eqb (Some (fslot (hd top sp))) (ctx_par c) = false).
      { destruct (ptr_eqb (Some (fslot (hd top sp))) (ctx_par c)) eqn:X; auto. apply ptr_eqb_eq in X.
        exfalso. apply NoDup_app_iff in Hnd2 as (_ & Hndc & _). rewrite cslots_app in Hndc.
        apply NoDup_app_iff in Hndc as (_ & Hndc & D).
        assert (In1 : In (fslot (hd top sp)) (cslots sp ++ cslots [top])).
        { destruct sp as [|fr2 sp]; cbn [hd].
          - destruct top; cbn [cslots fslot app]; auto with datatypes.
          - apply in_or_app. left. destruct fr2; cbn [cslots fslot]; auto with datatypes. }
        assert (In2 : In (fslot (hd top sp)) (cslots c)).
        { destruct c as [|fr3 c]; [discriminate|]. cbn [ctx_par] in X. injection X as ->.
          destruct fr3; cbn [cslots fslot]; auto with datatypes. }
        change (top :: c) with ([top] ++ c) in Hndc, D. rewrite cslots_app in Hndc, D.
        apply in_app_or in In1 as [In1|In1].
        - apply (D _ In1). apply in_or_app. auto.
        - apply NoDup_app_iff in Hndc as (_ & _ & D2). apply (D2 _ In1 In2). }
      rewrite Hne.
      rewrite ctx_par_app in Ht2. rewrite <- Hroot in Hc2.
      apply (IH fuel T2 root2 t2 (fh fr)); auto.
      * cbn [length] in Hf. lia.
      * rewrite ctx_par_app. exact Ht2.
Qed.

Lemma m_rebal_parent_spec' top c sp fuel T root t' hh start :
  start = fslot (hd top sp) ->
  (length sp < fuel)%nat ->
  trep T (ctx_par (sp ++ top :: c)) t' -> crep T root (sp ++ top :: c) (rootp t') hh ->
  NoDup (tslots t' ++ cslots (sp ++ top :: c)) -> ctx_ok sp hh -> ctx_strict sp ->
  bal (rebal (fill_mk top (rebuild t' sp))) ->
  exists T' root',
    m_rebal_parent fuel (T, root) (ctx_cell c) (ctx_par c) start = Some ((T', root'), ctx_par c) /\
    trep T' (ctx_par c) (rebal (fill_mk top (rebuild t' sp))) /\
    crep T' root' c (rootp (rebal (fill_mk top (rebuild t' sp)))) (fh top).
Proof. intros ->. apply m_rebal_parent_spec. Qed.

(* ---- cell level: the re-linking of remove() ------------------------------------------------------------------------ *)
Lemma cell_of_ctx2 T root c s hh :
  crep T root c (Some s) hh -> ~ In s (cslots c) ->
  match ctx_par c with
  | Some pa => if ptr_eqb (Some s) (cleft (T pa)) then CLeft pa else CRight pa
  | None => CRoot
  end = ctx_cell c.
Proof.
  destruct c as [|[ok k v g h r|ok l k v g h] c]; cbn [crep ctx_cell ctx_par fslot cslots]; auto.
  - intros (_ & _ & _ & H & _) _. rewrite H. cbn [ptr_eqb]. rewrite Nat.eqb_refl. reflexivity.
  - intros (_ & _ & _ & H & _) Hn. rewrite H.
    destruct (ptr_eqb (Some s) (rootp l)) eqn:E; auto.
    apply ptr_eqb_eq in E. symmetry in E. apply rootp_in in E. exfalso. apply Hn. right. apply in_or_app. auto.
Qed.

(* the subtree in the hole is replaced by [t'] (cells already there, hanging under some other Item):
   `*cell = t'; if(t') t'->parent = parent` *)
Lemma replace_hole T root c p hh t' par0 :
  crep T root c p hh -> trep T par0 t' -> NoDup (tslots t' ++ cslots c) ->
  let st1 := wr_cell (ctx_cell c) (rootp t') (T, root) in
  let T1 := match rootp t' with Some a => w_par a (ctx_par c) (fst st1) | None => fst st1 end in
  trep T1 (ctx_par c) t' /\ crep T1 (snd st1) c (rootp t') hh.
Proof.
  intros Hc Ht Hnd. cbv zeta. pose proof Hnd as Hnd0. apply NoDup_app_iff in Hnd0 as (Hndt & Hndc & D).
  pose proof (cref_notin_ctx _ _ Hnd) as Hout.
  split.
  - apply (trep_reparent _ par0); auto. apply trep_ext with T; auto. intros x Hx. apply wr_cell_other.
    destruct (ctx_cell c); auto; cbn [cref_notin] in Hout; intros ->; tauto.
  - apply crep_ext with (fst (wr_cell (ctx_cell c) (rootp t') (T, root))).
    + intros x Hx. destruct (rootp t') as [a|] eqn:E; auto. unfold w_par. apply upd_neq. intros ->.
      apply rootp_in in E. apply (D a); auto.
    + apply crep_set_hole with p; auto.
Qed.

(* two-child removal, the in-order successor is the right child (Map.hpp:232-242) *)
Lemma relink_succ_direct T root c l k v s h nk nv nx nh nr ls :
  let r := Node Leaf nk nv nx nh nr in
  trep T (ctx_par c) (Node l k v s h r) -> crep T root c (Some s) h ->
  NoDup (tslots (Node l k v s h r) ++ cslots c) -> rootp l = Some ls ->
  let st1 := wr_cell (ctx_cell c) (Some nx) (T, root) in
  let T3 := w_par ls (Some nx) (w_left nx (Some ls) (w_par nx (ctx_par c) (fst st1))) in
  let top := FR false l nk nv nx h in
  trep T3 (Some nx) nr /\ crep T3 (snd st1) (top :: c) (rootp nr) O /\ NoDup (tslots nr ++ cslots (top :: c)).
Proof.
  intros r Ht Hc Hnd Hls. cbv zeta. subst r.
  cbn [trep] in Ht. destruct Ht as (K & V & P & Lf & Rt & Hh & Sl & Hl & Hr).
  destruct Hr as (K2 & V2 & P2 & L2 & R2 & Hh2 & Sl2 & _ & Hnr).
  pose proof Hnd as Hnd0. cbn [tslots app] in Hnd0. apply NoDup_app_iff in Hnd0 as (Hndt & Hndc & D).
  apply NoDup_node in Hndt as (Hndl & Hndr & Hsl & Hsr & Dlr).
  apply NoDup_cons_iff in Hndr as (Hnxr & Hndr).
  assert (Hlsl : In ls (tslots l)) by (apply rootp_in; exact Hls).
  assert (Hout := cref_notin_ctx _ _ Hnd).
  assert (Eo : forall x, x <> nx -> x <> ls ->
            match ctx_cell c with CRoot => True | CLeft g | CRight g => x <> g end ->
            w_par ls (Some nx) (w_left nx (Some ls) (w_par nx (ctx_par c) (fst (wr_cell (ctx_cell c) (Some nx) (T, root))))) x = T x).
  { intros x X1 X2 X3. unfold w_par, w_left. rewrite !upd_neq by assumption. apply wr_cell_other. exact X3. }
  assert (G : forall x, In x (tslots (Node l k v s h (Node Leaf nk nv nx nh nr))) ->
            match ctx_cell c with CRoot => True | CLeft g | CRight g => x <> g end).
  { intros x Hx. destruct (ctx_cell c); auto; cbn [cref_notin] in Hout; intros ->; tauto. }
  assert (N1 : nx <> ls) by (intros ->; apply (Dlr ls); cbn; auto).
  split; [|split].
  - apply trep_ext with T; auto. intros x Hx. apply Eo.
    + intros ->. tauto.
    + intros ->. apply (Dlr ls); cbn; auto.
    + apply G. cbn [tslots]. apply in_or_app. right. right. cbn. auto.
  - cbn [crep].
    assert (Enx : w_par ls (Some nx) (w_left nx (Some ls) (w_par nx (ctx_par c) (fst (wr_cell (ctx_cell c) (Some nx) (T, root))))) nx
                  = set_left (Some ls) (set_par (ctx_par c) (T nx))).
    { unfold w_par at 1. rewrite upd_neq by exact N1. unfold w_left. rewrite upd_same. f_equal.
      unfold w_par. rewrite upd_same. f_equal. apply wr_cell_other. apply G. cbn [tslots]. apply in_or_app. right. right. cbn. auto. }
    rewrite Enx. cbn [set_left set_par ckey cval cpar cleft cright]. rewrite Hls.
    refine (conj K2 (conj V2 (conj eq_refl (conj eq_refl (conj R2 (conj _ (conj _ (conj _ _)))))))); try discriminate.
    + (* l under its new parent *)
      destruct l as [|ll lk lv ls' lh lr]; [discriminate|]. cbn [rootp] in Hls. injection Hls as ->.
      pose proof (trep_reparent (w_left nx (Some ls) (w_par nx (ctx_par c) (fst (wr_cell (ctx_cell c) (Some nx) (T, root)))))
                    (Some s) (Some nx) (Node ll lk lv ls lh lr) Hndl) as R. cbn [rootp] in R. apply R.
      apply trep_ext with T; auto. intros x Hx. unfold w_left, w_par. rewrite !upd_neq.
      * apply wr_cell_other. apply G. cbn [tslots] in *. apply in_or_app. auto.
      * intros ->. apply (Dlr nx); cbn; auto.
      * intros ->. apply (Dlr nx); cbn; auto.
    + (* the context above *)
      apply crep_ext with (fst (wr_cell (ctx_cell c) (Some nx) (T, root))).
      * intros x Hx. unfold w_par, w_left. rewrite !upd_neq; auto.
        -- intros ->. apply (D nx); auto. cbn [tslots]. apply in_or_app. right. right. cbn. auto.
        -- intros ->. apply (D nx); auto. cbn [tslots]. apply in_or_app. right. right. cbn. auto.
        -- intros ->. apply (D ls); auto. cbn [tslots]. apply in_or_app. auto.
      * apply crep_set_hole with (Some s); auto.
  - cbn [cslots]. apply (Permutation_NoDup (l := nx :: tslots nr ++ tslots l ++ cslots c)).
    + apply Permutation_middle.
    + cbn [tslots app] in Hnd. rewrite <- app_assoc in Hnd. cbn [app] in Hnd.
      apply NoDup_app_iff in Hnd as (_ & Hnd & D2). apply NoDup_cons_iff in Hnd as (_ & Hnd).
      change (nx :: tslots nr ++ cslots c) with ((nx :: tslots nr) ++ cslots c) in Hnd.
      apply NoDup_app_iff in Hnd as (Hnd1 & Hnd2 & D3).
      change (nx :: tslots nr ++ tslots l ++ cslots c) with ((nx :: tslots nr) ++ tslots l ++ cslots c).
      apply NoDup_app_iff. split; [exact Hnd1|]. split.
      * apply NoDup_app_iff. split; [exact Hndl|]. split; [exact Hnd2|].
        intros x X1 X2. apply (D x); auto. cbn [tslots]. apply in_or_app. auto.
      * intros x X1 X2. apply in_app_or in X2 as [X2|X2]; [apply (Dlr x); auto|apply (D3 x); auto].
Qed.

Lemma unplug_rep_inner T root top c sp : forall t,
  trep T (Some (fslot top)) (plug t sp) -> crep T root (top :: c) (rootp (plug t sp)) (ht (plug t sp)) ->
  trep T (ctx_par (sp ++ top :: c)) t /\ crep T root (sp ++ top :: c) (rootp t) (ht t).
Proof.
  induction sp as [|[ok k v s h r|ok l k v s h] sp IH]; intros t Ht Hc; cbn [app plug ctx_par] in *.
  - auto.
  - destruct (IH _ Ht Hc) as (Hn & Hc'). rewrite ctx_par_app in Hn. cbn [trep rootp ht fslot crep] in *.
    destruct Hn as (H1 & H2 & H3 & H4 & H5 & H6 & H7 & H8 & H9). rewrite ctx_par_app. repeat split; auto.
  - destruct (IH _ Ht Hc) as (Hn & Hc'). rewrite ctx_par_app in Hn. cbn [trep rootp ht fslot crep] in *.
    destruct Hn as (H1 & H2 & H3 & H4 & H5 & H6 & H7 & H8 & H9). rewrite ctx_par_app. repeat split; auto.
Qed.

Lemma ctx_par_app_eq sp rest rest' : ctx_par rest' = ctx_par rest -> ctx_par (sp ++ rest') = ctx_par (sp ++ rest).
Proof. destruct sp; cbn [app ctx_par]; auto. Qed.

(* the frames above [sp1] are exchanged, the cells of [sp1] stay *)
Lemma crep_app_swap T T' root root' rest rest' :
  ctx_par rest' = ctx_par rest -> (forall q hq, crep T root rest q hq -> crep T' root' rest' q hq) ->
  forall sp1 p hh, (forall x, In x (cslots sp1) -> T' x = T x) ->
  crep T root (sp1 ++ rest) p hh -> crep T' root' (sp1 ++ rest') p hh.
Proof.
  intros Hp Hf. induction sp1 as [|[ok k v s h r|ok l k v s h] sp1 IH]; intros p hh He; cbn [app crep]; auto.
  - intros (H1 & H2 & H3 & H4 & H5 & H6 & H7 & H8 & H9).
    assert (Es : T' s = T s) by (apply He; cbn [cslots]; auto with datatypes).
    rewrite Es, (ctx_par_app_eq sp1 rest rest' Hp). repeat split; auto.
    + apply trep_ext with T; auto. intros x Hx. apply He. cbn [cslots]. right. apply in_or_app. auto.
    + apply IH; auto. intros x Hx. apply He. cbn [cslots]. right. apply in_or_app. auto.
  - intros (H1 & H2 & H3 & H4 & H5 & H6 & H7 & H8 & H9).
    assert (Es : T' s = T s) by (apply He; cbn [cslots]; auto with datatypes).
    rewrite Es, (ctx_par_app_eq sp1 rest rest' Hp). repeat split; auto.
    + apply trep_ext with T; auto. intros x Hx. apply He. cbn [cslots]. right. apply in_or_app. auto.
    + apply IH; auto. intros x Hx. apply He. cbn [cslots]. right. apply in_or_app. auto.
Qed.

Lemma ctx_cell_allFL sp d rest : Forall isFL (sp ++ [d]) -> ctx_cell ((sp ++ [d]) ++ rest) = CLeft (fslot (hd d sp)).
Proof.
  intros H. destruct sp as [|fr sp]; cbn [app hd] in *.
  - apply Forall_inv in H. destruct d; cbn [isFL] in H; [reflexivity|contradiction].
  - apply Forall_inv in H. destruct fr; cbn [isFL] in H; [reflexivity|contradiction].
Qed.

Lemma NoDup_replace (A B : list nat) s nx : NoDup (A ++ s :: B) -> ~ In nx (A ++ s :: B) -> NoDup (A ++ nx :: B).
Proof.
  intros H Hn. apply NoDup_node in H as (HA & HB & H1 & H2 & D). rewrite in_app_iff in Hn. cbn [In] in Hn.
  apply NoDup_node. repeat split; auto.
Qed.

(* two-child removal, the in-order successor lies deeper (Map.hpp:244-266) *)
Lemma relink_succ_deep T root c l k v s h sp1 rk rv rs rh rr nk nv nx nh nr ls :
  let N := Node Leaf nk nv nx nh nr in
  let d := FL true rk rv rs rh rr in
  let sp0 := sp1 ++ [d] in
  let r := plug N sp0 in
  Forall isFL sp0 ->
  trep T (ctx_par c) (Node l k v s h r) -> crep T root c (Some s) h ->
  NoDup (tslots (Node l k v s h r) ++ cslots c) -> rootp l = Some ls ->
  let np := fslot (hd d sp1) in
  let T1 := w_left np (rootp nr) T in
  let T2 := match rootp nr with Some a => w_par a (Some np) T1 | None => T1 end in
  let st1 := wr_cell (ctx_cell c) (Some nx) (T2, root) in
  let T8 := w_par rs (Some nx) (w_right nx (Some rs) (w_par ls (Some nx) (w_left nx (Some ls) (w_par nx (ctx_par c) (fst st1))))) in
  let top := FR false l nk nv nx h in
  rootp r = Some rs /\ cpar (T nx) = Some np /\ np <> s /\ cright (T nx) = rootp nr /\
  trep T8 (ctx_par (sp0 ++ top :: c)) nr /\ crep T8 (snd st1) (sp0 ++ top :: c) (rootp nr) nh /\
  NoDup (tslots nr ++ cslots (sp0 ++ top :: c)).
Proof.
  intros N d sp0 r Hfl Ht Hc Hnd Hls np T1 T2 st1 T8 top.
  assert (Er : r = Node (plug N sp1) rk rv rs rh rr) by (unfold r, sp0; rewrite plug_app; reflexivity).
  (* the whole context of the successor *)
  set (tops := FR true l k v s h).
  assert (Hfull : trep T (ctx_par (sp0 ++ tops :: c)) N /\ crep T root (sp0 ++ tops :: c) (rootp N) (ht N)).
  { apply unplug_rep_inner; fold r.
    - cbn [trep] in Ht. tauto.
    - cbn [trep] in Ht. destruct Ht as (K & V & P & Lf & Rt & Hh & Sl & Hl & Hr). cbn [crep tops]. repeat split; auto. }
  destruct Hfull as (HtN & HcN).
  assert (Epar : ctx_par (sp0 ++ tops :: c) = Some np).
  { unfold sp0. rewrite <- app_assoc. cbn [app]. rewrite ctx_par_app. destruct sp1; reflexivity. }
  assert (Ecell : ctx_cell (sp0 ++ tops :: c) = CLeft np) by (apply ctx_cell_allFL; exact Hfl).
  rewrite Epar in HtN. unfold N in HtN. cbn [trep rootp ht] in HtN, HcN.
  destruct HtN as (K2 & V2 & P2 & L2 & R2 & Hh2 & Sl2 & _ & Hnr).
  (* all slots are distinct *)
  assert (Hbig : NoDup (nx :: tslots nr ++ cslots sp0 ++ s :: tslots l ++ cslots c)).
  { pose proof (tslots_plug N (sp0 ++ tops :: c)) as P1. pose proof (tslots_plug (Node l k v s h r) c) as P3.
    assert (E : plug N (sp0 ++ tops :: c) = plug (Node l k v s h r) c) by (rewrite plug_app; reflexivity).
    rewrite E in P1. rewrite cslots_app in P1. cbn [N tslots app cslots tops] in P1.
    apply (Permutation_NoDup P1). apply (Permutation_NoDup (Permutation_sym P3)). exact Hnd. }
  pose proof Hbig as Hbig0. apply NoDup_cons_iff in Hbig0 as (Hnx & Hbig1).
  assert (Hc2 : trep T2 (Some np) nr /\ crep T2 root (sp0 ++ tops :: c) (rootp nr) nh).
  { pose proof (replace_hole T root (sp0 ++ tops :: c) (Some nx) nh nr (Some nx) HcN Hnr) as R.
    rewrite Ecell, Epar in R. cbn [wr_cell fst snd] in R. apply R.
    rewrite cslots_app. cbn [cslots tops]. exact Hbig1. }
  destruct Hc2 as (Hnr2 & HcN2).
  (* membership facts *)
  assert (Hrs_in : In rs (cslots sp0)) by (unfold sp0; rewrite cslots_app; apply in_or_app; right; cbn; auto).
  assert (Hnp_in : In np (cslots sp0)).
  { unfold np, sp0. destruct sp1 as [|fr sp1]; cbn [hd app]; [cbn; auto|]. destruct fr; cbn [cslots fslot]; auto with datatypes. }
  assert (Hls_in : In ls (tslots l)) by (apply rootp_in; exact Hls).
  apply NoDup_app_iff in Hbig1 as (Hndnr & Hbig2 & D1).
  apply NoDup_app_iff in Hbig2 as (Hndsp & Hbig3 & D2).
  apply NoDup_cons_iff in Hbig3 as (Hs3 & Hbig4). apply NoDup_app_iff in Hbig4 as (Hndl & Hndc & D3).
  rewrite !in_app_iff in Hnx. cbn [In] in Hnx. rewrite in_app_iff in Hnx, Hs3.
  assert (Nnp_s : np <> s) by (intros E; apply (D2 np Hnp_in); rewrite E; cbn; auto).
  assert (Nrs_nx : rs <> nx) by (intros E; rewrite E in Hrs_in; tauto).
  assert (Nrs_ls : rs <> ls) by (intros E; apply (D2 rs Hrs_in); rewrite E; cbn; rewrite in_app_iff; auto).
  assert (Nnx_ls : nx <> ls) by (intros E; rewrite E in Hnx; tauto).
  assert (Hout : match ctx_cell c with CRoot => True | CLeft g | CRight g => In g (cslots c) end).
  { destruct c as [|[]]; cbn [ctx_cell cslots]; auto with datatypes. }
  assert (G : forall x, ~ In x (cslots c) -> match ctx_cell c with CRoot => True | CLeft g | CRight g => x <> g end).
  { intros x Hx. destruct (ctx_cell c); auto; intros ->; tauto. }
  assert (Eo : forall x, x <> nx -> x <> ls -> x <> rs -> ~ In x (cslots c) -> T8 x = T2 x).
  { intros x X1 X2 X3 X4. unfold T8, w_par, w_left, w_right. rewrite !upd_neq by assumption.
    unfold st1. apply wr_cell_other. apply G. exact X4. }
  assert (Ers : T8 rs = set_par (Some nx) (T2 rs)).
  { unfold T8. unfold w_par at 1. rewrite upd_same. f_equal. unfold w_right, w_par, w_left. rewrite !upd_neq by auto.
    unfold st1. apply wr_cell_other. apply G. intros X. apply (D2 rs Hrs_in). cbn. rewrite in_app_iff. auto. }
  assert (Enx : T8 nx = set_right (Some rs) (set_left (Some ls) (set_par (ctx_par c) (T2 nx)))).
  { unfold T8. unfold w_par at 1. rewrite upd_neq by auto. unfold w_right. rewrite upd_same. f_equal.
    unfold w_par at 1. rewrite upd_neq by auto. unfold w_left. rewrite upd_same. f_equal.
    unfold w_par. rewrite upd_same. f_equal. unfold st1. apply wr_cell_other. apply G. tauto. }
  assert (E2nx : T2 nx = T nx).
  { unfold T2, T1. destruct (rootp nr) as [a|] eqn:Ea.
    - unfold w_par, w_left. rewrite !upd_neq; auto.
      + intros E. rewrite <- E in Hnp_in. tauto.
      + intros E. apply rootp_in in Ea. rewrite <- E in Ea. tauto.
    - unfold w_left. rewrite upd_neq; auto. intros E. rewrite <- E in Hnp_in. tauto. }
  split; [rewrite Er; reflexivity|]. split; [exact P2|]. split; [exact Nnp_s|]. split; [exact R2|].
  assert (Epar' : ctx_par (sp0 ++ top :: c) = Some np).
  { unfold sp0. rewrite <- app_assoc. cbn [app]. rewrite ctx_par_app. destruct sp1; reflexivity. }
  split; [|split].
  - rewrite Epar'. apply trep_ext with T2; auto. intros x Hx. apply Eo.
    + intros ->. tauto.
    + intros ->. apply (D1 ls Hx). rewrite in_app_iff. right. cbn. rewrite in_app_iff. auto.
    + intros ->. apply (D1 rs Hx). rewrite in_app_iff. auto.
    + intros X. apply (D1 x Hx). rewrite in_app_iff. right. cbn. rewrite in_app_iff. auto.
  - unfold sp0 in *. rewrite <- app_assoc in *. cbn [app] in *.
    apply (crep_app_swap T2 T8 root (snd st1) (d :: tops :: c) (d :: top :: c)); auto.
    + (* the two frames that change *)
      intros q hq. unfold d, tops, top. cbn [crep ctx_par fslot].
      intros (A1 & A2 & A3 & A4 & A5 & A6 & A7 & A8 & B1 & B2 & B3 & B4 & B5 & B6 & B7 & B8 & B9).
      rewrite Ers, Enx, E2nx. cbn [set_par set_left set_right ckey cval cpar cleft cright cht cslope]. rewrite Hls.
      refine (conj A1 (conj A2 (conj eq_refl (conj A4 (conj A5 (conj A6 (conj A7 (conj _ _)))))))).
      * apply trep_ext with T2; auto. intros x Hx.
        assert (Xsp : In x (cslots (sp1 ++ [d]))) by (rewrite cslots_app; apply in_or_app; right; cbn; rewrite in_app_iff; auto).
        apply Eo.
        -- intros ->. tauto.
        -- intros ->. apply (D2 ls Xsp). cbn. rewrite in_app_iff. auto.
        -- intros ->. rewrite cslots_app in Hndsp. apply NoDup_app_iff in Hndsp.
           destruct Hndsp as (_ & Hd & _). cbn [cslots d] in Hd. apply NoDup_cons_iff in Hd as (Hd & _).
           rewrite in_app_iff in Hd. tauto.
        -- intros X. apply (D2 x Xsp). cbn. rewrite in_app_iff. auto.
      * refine (conj K2 (conj V2 (conj eq_refl (conj eq_refl (conj eq_refl (conj _ (conj _ (conj _ _)))))))); try discriminate.
        -- destruct l as [|ll lk lv ls' lh lr]; [discriminate|]. cbn [rootp] in Hls. injection Hls as ->.
           assert (Els : forall Tx, trep Tx (Some s) (Node ll lk lv ls lh lr) -> trep (w_par ls (Some nx) Tx) (Some nx) (Node ll lk lv ls lh lr)).
           { intros Tx HTx. apply (trep_reparent Tx (Some s) (Some nx) (Node ll lk lv ls lh lr) Hndl HTx). }
           apply trep_ext with (w_par ls (Some nx) T2).
           ++ intros x Hx.
              assert (X1 : x <> rs) by (intros ->; apply (D2 rs Hrs_in); cbn; rewrite in_app_iff; auto).
              assert (X2 : x <> nx) by (intros ->; tauto).
              assert (X3 : ~ In x (cslots c)) by (intros X; apply (D3 x Hx X)).
              destruct (Nat.eq_dec x ls) as [->|Ex].
              ** unfold T8. unfold w_par at 1. rewrite upd_neq by exact X1. unfold w_right. rewrite upd_neq by exact X2.
                 unfold w_par at 1. rewrite upd_same. unfold w_par at 2. rewrite upd_same. f_equal.
                 unfold w_left, w_par. rewrite !upd_neq by exact X2.
                 unfold st1. apply wr_cell_other. apply G. exact X3.
              ** rewrite Eo by assumption. unfold w_par. rewrite upd_neq by exact Ex. reflexivity.
           ++ apply Els. exact B8.
        -- apply crep_ext with (fst st1).
           ++ intros x Hx.
              assert (X1 : x <> rs) by (intros ->; apply (D2 rs Hrs_in); cbn; rewrite in_app_iff; auto).
              assert (X2 : x <> nx) by (intros ->; tauto).
              assert (X3 : x <> ls) by (intros ->; apply (D3 ls Hls_in Hx)).
              unfold T8, w_par, w_right, w_left. rewrite !upd_neq by assumption. reflexivity.
           ++ unfold st1. apply (crep_set_hole T2 root c (Some s) (Some nx) h); auto.
    + intros x Hx.
      assert (Xsp : In x (cslots (sp1 ++ [d]))) by (rewrite cslots_app; apply in_or_app; auto).
      apply Eo.
      * intros ->. tauto.
      * intros ->. apply (D2 ls Xsp). cbn. rewrite in_app_iff. auto.
      * intros ->. rewrite cslots_app in Hndsp. apply NoDup_app_iff in Hndsp as (_ & _ & Dd). apply (Dd rs Hx). cbn. auto.
      * intros X. apply (D2 x Xsp). cbn. rewrite in_app_iff. auto.
  - rewrite cslots_app. cbn [cslots top].
    assert (Hb : NoDup ((tslots nr ++ cslots sp0) ++ s :: tslots l ++ cslots c)).
    { rewrite <- app_assoc. apply NoDup_cons_iff in Hbig as (_ & Hbig). exact Hbig. }
    rewrite app_assoc. apply NoDup_replace with s; auto.
    rewrite <- app_assoc. rewrite !in_app_iff. cbn [In]. rewrite in_app_iff. tauto.
Qed.

(* two-child removal, the in-order predecessor is the left child (Map.hpp:273-283) *)
Lemma relink_pred_direct T root c r k v s h nl nk nv nx nh rs :
  let l := Node nl nk nv nx nh Leaf in
  trep T (ctx_par c) (Node l k v s h r) -> crep T root c (Some s) h ->
  NoDup (tslots (Node l k v s h r) ++ cslots c) -> rootp r = Some rs ->
  let st1 := wr_cell (ctx_cell c) (Some nx) (T, root) in
  let T3 := w_par rs (Some nx) (w_right nx (Some rs) (w_par nx (ctx_par c) (fst st1))) in
  let top := FL false nk nv nx h r in
  trep T3 (Some nx) nl /\ crep T3 (snd st1) (top :: c) (rootp nl) O /\ NoDup (tslots nl ++ cslots (top :: c)).
Proof.
  intros l Ht Hc Hnd Hrs. cbv zeta. subst l.
  cbn [trep] in Ht. destruct Ht as (K & V & P & Lf & Rt & Hh & Sl & Hl & Hr).
  destruct Hl as (K2 & V2 & P2 & L2 & R2 & Hh2 & Sl2 & Hnl & _).
  pose proof Hnd as Hnd0. cbn [tslots app] in Hnd0. apply NoDup_app_iff in Hnd0 as (Hndt & Hndc & D).
  apply NoDup_node in Hndt as (Hndl & Hndr & Hsl & Hsr & Dlr).
  apply NoDup_node in Hndl as (Hndnl & _ & Hnxl & _ & _).
  assert (Hrsr : In rs (tslots r)) by (apply rootp_in; exact Hrs).
  assert (Hout := cref_notin_ctx _ _ Hnd).
  assert (Eo : forall x, x <> nx -> x <> rs ->
            match ctx_cell c with CRoot => True | CLeft g | CRight g => x <> g end ->
            w_par rs (Some nx) (w_right nx (Some rs) (w_par nx (ctx_par c) (fst (wr_cell (ctx_cell c) (Some nx) (T, root))))) x = T x).
  { intros x X1 X2 X3. unfold w_par, w_right. rewrite !upd_neq by assumption. apply wr_cell_other. exact X3. }
  assert (G : forall x, In x (tslots (Node (Node nl nk nv nx nh Leaf) k v s h r)) ->
            match ctx_cell c with CRoot => True | CLeft g | CRight g => x <> g end).
  { intros x Hx. destruct (ctx_cell c); auto; cbn [cref_notin] in Hout; intros ->; tauto. }
  assert (Hnx_l : In nx (tslots nl ++ [nx])) by (apply in_or_app; cbn; auto).
  assert (N1 : nx <> rs) by (intros ->; apply (Dlr rs); auto).
  split; [|split].
  - apply trep_ext with T; auto. intros x Hx. apply Eo.
    + intros ->. tauto.
    + intros ->. apply (Dlr rs); auto. apply in_or_app. auto.
    + apply G. cbn [tslots]. apply in_or_app. left. apply in_or_app. auto.
  - cbn [crep].
    assert (Enx : w_par rs (Some nx) (w_right nx (Some rs) (w_par nx (ctx_par c) (fst (wr_cell (ctx_cell c) (Some nx) (T, root))))) nx
                  = set_right (Some rs) (set_par (ctx_par c) (T nx))).
    { unfold w_par at 1. rewrite upd_neq by exact N1. unfold w_right. rewrite upd_same. f_equal.
      unfold w_par. rewrite upd_same. f_equal. apply wr_cell_other. apply G. cbn [tslots]. apply in_or_app. left. exact Hnx_l. }
    rewrite Enx. cbn [set_right set_par ckey cval cpar cleft cright]. rewrite Hrs.
    refine (conj K2 (conj V2 (conj eq_refl (conj L2 (conj eq_refl (conj _ (conj _ (conj _ _)))))))); try discriminate.
    + destruct r as [|rl rk rv rs' rh rr]; [discriminate|]. cbn [rootp] in Hrs. injection Hrs as ->.
      pose proof (trep_reparent (w_right nx (Some rs) (w_par nx (ctx_par c) (fst (wr_cell (ctx_cell c) (Some nx) (T, root)))))
                    (Some s) (Some nx) (Node rl rk rv rs rh rr) Hndr) as R. cbn [rootp] in R. apply R.
      apply trep_ext with T; auto. intros x Hx. unfold w_right, w_par. rewrite !upd_neq.
      * apply wr_cell_other. apply G. cbn [tslots] in *. apply in_or_app. right. right. exact Hx.
      * intros ->. apply (Dlr nx); auto.
      * intros ->. apply (Dlr nx); auto.
    + apply crep_ext with (fst (wr_cell (ctx_cell c) (Some nx) (T, root))).
      * intros x Hx.
        assert (X1 : x <> nx) by (intros ->; apply (D nx); auto; apply in_or_app; left; exact Hnx_l).
        assert (X2 : x <> rs) by (intros ->; apply (D rs); auto; apply in_or_app; right; right; exact Hrsr).
        unfold w_par, w_right. rewrite !upd_neq by assumption. reflexivity.
      * apply crep_set_hole with (Some s); auto.
  - cbn [cslots]. apply (Permutation_NoDup (l := nx :: tslots nl ++ tslots r ++ cslots c)).
    + apply Permutation_middle.
    + cbn [tslots app] in Hnd. apply NoDup_app_iff in Hnd as (Hnd1 & Hnd2 & D2).
      constructor.
      * rewrite !in_app_iff. intros [X|[X|X]]; [tauto|apply (Dlr nx); auto|apply (D nx); auto; apply in_or_app; left; exact Hnx_l].
      * apply NoDup_app_iff. split; [exact Hndnl|]. split.
        -- apply NoDup_app_iff. split; [exact Hndr|]. split; [exact Hndc|].
           intros x X1 X2. apply (D x); auto. apply in_or_app. right. right. exact X1.
        -- intros x X1 X2. apply in_app_or in X2 as [X2|X2].
           ++ apply (Dlr x); auto. apply in_or_app. auto.
           ++ apply (D x); auto. apply in_or_app. left. apply in_or_app. auto.
Qed.

Lemma ctx_cell_allFR sp d rest : Forall isFR (sp ++ [d]) -> ctx_cell ((sp ++ [d]) ++ rest) = CRight (fslot (hd d sp)).
Proof.
  intros H. destruct sp as [|fr sp]; cbn [app hd] in *.
  - apply Forall_inv in H. destruct d; cbn [isFR] in H; [contradiction|reflexivity].
  - apply Forall_inv in H. destruct fr; cbn [isFR] in H; [contradiction|reflexivity].
Qed.

(* two-child removal, the in-order predecessor lies deeper (Map.hpp:285-307) *)
Lemma relink_pred_deep T root c r k v s h sp1 dl dk dv ds dh nl nk nv nx nh os :
  let N := Node nl nk nv nx nh Leaf in
  let d := FR true dl dk dv ds dh in
  let sp0 := sp1 ++ [d] in
  let l := plug N sp0 in
  Forall isFR sp0 ->
  trep T (ctx_par c) (Node l k v s h r) -> crep T root c (Some s) h ->
  NoDup (tslots (Node l k v s h r) ++ cslots c) -> rootp r = Some os ->
  let np := fslot (hd d sp1) in
  let T1 := w_right np (rootp nl) T in
  let T2 := match rootp nl with Some a => w_par a (Some np) T1 | None => T1 end in
  let st1 := wr_cell (ctx_cell c) (Some nx) (T2, root) in
  let T8 := w_par ds (Some nx) (w_left nx (Some ds) (w_par os (Some nx) (w_right nx (Some os) (w_par nx (ctx_par c) (fst st1))))) in
  let top := FL false nk nv nx h r in
  rootp l = Some ds /\ cpar (T nx) = Some np /\ np <> s /\ cleft (T nx) = rootp nl /\
  trep T8 (ctx_par (sp0 ++ top :: c)) nl /\ crep T8 (snd st1) (sp0 ++ top :: c) (rootp nl) nh /\
  NoDup (tslots nl ++ cslots (sp0 ++ top :: c)).
Proof.
  intros N d sp0 l Hfl Ht Hc Hnd Hos np T1 T2 st1 T8 top.
  assert (El : l = Node dl dk dv ds dh (plug N sp1)) by (unfold l, sp0; rewrite plug_app; reflexivity).
  set (tops := FL true k v s h r).
  assert (Hfull : trep T (ctx_par (sp0 ++ tops :: c)) N /\ crep T root (sp0 ++ tops :: c) (rootp N) (ht N)).
  { apply unplug_rep_inner; fold l.
    - cbn [trep] in Ht. tauto.
    - cbn [trep] in Ht. destruct Ht as (K & V & P & Lf & Rt & Hh & Sl & Hl & Hr). cbn [crep tops]. repeat split; auto. }
  destruct Hfull as (HtN & HcN).
  assert (Epar : ctx_par (sp0 ++ tops :: c) = Some np).
  { unfold sp0. rewrite <- app_assoc. cbn [app]. rewrite ctx_par_app. destruct sp1; reflexivity. }
  assert (Ecell : ctx_cell (sp0 ++ tops :: c) = CRight np) by (apply ctx_cell_allFR; exact Hfl).
  rewrite Epar in HtN. unfold N in HtN. cbn [trep rootp ht] in HtN, HcN.
  destruct HtN as (K2 & V2 & P2 & L2 & R2 & Hh2 & Sl2 & Hnl & _).
  assert (Hbig : NoDup (nx :: tslots nl ++ cslots sp0 ++ s :: tslots r ++ cslots c)).
  { pose proof (tslots_plug N (sp0 ++ tops :: c)) as P1. pose proof (tslots_plug (Node l k v s h r) c) as P3.
    assert (E : plug N (sp0 ++ tops :: c) = plug (Node l k v s h r) c) by (rewrite plug_app; reflexivity).
    rewrite E in P1. rewrite cslots_app in P1. cbn [N tslots app cslots tops] in P1.
    apply (Permutation_NoDup (l := (tslots nl ++ [nx]) ++ cslots sp0 ++ s :: tslots r ++ cslots c)).
    - change (nx :: tslots nl ++ cslots sp0 ++ s :: tslots r ++ cslots c)
        with ((nx :: tslots nl) ++ cslots sp0 ++ s :: tslots r ++ cslots c).
      apply Permutation_app_tail. apply Permutation_sym. apply Permutation_cons_append.
    - apply (Permutation_NoDup P1). apply (Permutation_NoDup (Permutation_sym P3)). exact Hnd. }
  pose proof Hbig as Hbig0. apply NoDup_cons_iff in Hbig0 as (Hnx & Hbig1).
  assert (Hc2 : trep T2 (Some np) nl /\ crep T2 root (sp0 ++ tops :: c) (rootp nl) nh).
  { pose proof (replace_hole T root (sp0 ++ tops :: c) (Some nx) nh nl (Some nx) HcN Hnl) as R.
    rewrite Ecell, Epar in R. cbn [wr_cell fst snd] in R. apply R.
    rewrite cslots_app. cbn [cslots tops]. exact Hbig1. }
  destruct Hc2 as (Hnl2 & HcN2).
  assert (Hds_in : In ds (cslots sp0)) by (unfold sp0; rewrite cslots_app; apply in_or_app; right; cbn; auto).
  assert (Hnp_in : In np (cslots sp0)).
  { unfold np, sp0. destruct sp1 as [|fr sp1]; cbn [hd app]; [cbn; auto|]. destruct fr; cbn [cslots fslot]; auto with datatypes. }
  assert (Hos_in : In os (tslots r)) by (apply rootp_in; exact Hos).
  apply NoDup_app_iff in Hbig1 as (Hndnl & Hbig2 & D1).
  apply NoDup_app_iff in Hbig2 as (Hndsp & Hbig3 & D2).
  apply NoDup_cons_iff in Hbig3 as (Hs3 & Hbig4). apply NoDup_app_iff in Hbig4 as (Hndr & Hndc & D3).
  rewrite !in_app_iff in Hnx. cbn [In] in Hnx. rewrite in_app_iff in Hnx, Hs3.
  assert (Nnp_s : np <> s) by (intros E; apply (D2 np Hnp_in); rewrite E; cbn; auto).
  assert (Nds_nx : ds <> nx) by (intros E; rewrite E in Hds_in; tauto).
  assert (Nds_os : ds <> os) by (intros E; apply (D2 ds Hds_in); rewrite E; cbn; rewrite in_app_iff; auto).
  assert (Nnx_os : nx <> os) by (intros E; rewrite E in Hnx; tauto).
  assert (G : forall x, ~ In x (cslots c) -> match ctx_cell c with CRoot => True | CLeft g | CRight g => x <> g end).
  { intros x Hx. destruct c as [|[]]; cbn [ctx_cell cslots] in *; auto; intros ->; apply Hx; auto with datatypes. }
  assert (Eo : forall x, x <> nx -> x <> os -> x <> ds -> ~ In x (cslots c) -> T8 x = T2 x).
  { intros x X1 X2 X3 X4. unfold T8, w_par, w_left, w_right. rewrite !upd_neq by assumption.
    unfold st1. apply wr_cell_other. apply G. exact X4. }
  assert (Eds : T8 ds = set_par (Some nx) (T2 ds)).
  { unfold T8. unfold w_par at 1. rewrite upd_same. f_equal. unfold w_right, w_par, w_left. rewrite !upd_neq by auto.
    unfold st1. apply wr_cell_other. apply G. intros X. apply (D2 ds Hds_in). cbn. rewrite in_app_iff. auto. }
  assert (Enx : T8 nx = set_left (Some ds) (set_right (Some os) (set_par (ctx_par c) (T2 nx)))).
  { unfold T8. unfold w_par at 1. rewrite upd_neq by auto. unfold w_left. rewrite upd_same. f_equal.
    unfold w_par at 1. rewrite upd_neq by auto. unfold w_right. rewrite upd_same. f_equal.
    unfold w_par. rewrite upd_same. f_equal. unfold st1. apply wr_cell_other. apply G. tauto. }
  assert (E2nx : T2 nx = T nx).
  { unfold T2, T1. destruct (rootp nl) as [a|] eqn:Ea.
    - unfold w_par, w_right. rewrite !upd_neq; auto.
      + intros E. rewrite <- E in Hnp_in. tauto.
      + intros E. apply rootp_in in Ea. rewrite <- E in Ea. tauto.
    - unfold w_right. rewrite upd_neq; auto. intros E. rewrite <- E in Hnp_in. tauto. }
  split; [rewrite El; reflexivity|]. split; [exact P2|]. split; [exact Nnp_s|]. split; [exact L2|].
  assert (Epar' : ctx_par (sp0 ++ top :: c) = Some np).
  { unfold sp0. rewrite <- app_assoc. cbn [app]. rewrite ctx_par_app. destruct sp1; reflexivity. }
  split; [|split].
  - rewrite Epar'. apply trep_ext with T2; auto. intros x Hx. apply Eo.
    + intros ->. tauto.
    + intros ->. apply (D1 os Hx). rewrite in_app_iff. right. cbn. rewrite in_app_iff. auto.
    + intros ->. apply (D1 ds Hx). rewrite in_app_iff. auto.
    + intros X. apply (D1 x Hx). rewrite in_app_iff. right. cbn. rewrite in_app_iff. auto.
  - unfold sp0 in *. rewrite <- app_assoc in *. cbn [app] in *.
    apply (crep_app_swap T2 T8 root (snd st1) (d :: tops :: c) (d :: top :: c)); auto.
    + intros q hq. unfold d, tops, top. cbn [crep ctx_par fslot].
      intros (A1 & A2 & A3 & A4 & A5 & A6 & A7 & A8 & B1 & B2 & B3 & B4 & B5 & B6 & B7 & B8 & B9).
      rewrite Eds, Enx, E2nx. cbn [set_par set_left set_right ckey cval cpar cleft cright cht cslope]. rewrite Hos.
      refine (conj A1 (conj A2 (conj eq_refl (conj A4 (conj A5 (conj A6 (conj A7 (conj _ _)))))))).
      * apply trep_ext with T2; auto. intros x Hx.
        assert (Xsp : In x (cslots (sp1 ++ [d]))) by (rewrite cslots_app; apply in_or_app; right; cbn; rewrite in_app_iff; auto).
        apply Eo.
        -- intros ->. tauto.
        -- intros ->. apply (D2 os Xsp). cbn. rewrite in_app_iff. auto.
        -- intros ->. rewrite cslots_app in Hndsp. apply NoDup_app_iff in Hndsp.
           destruct Hndsp as (_ & Hd & _). cbn [cslots d] in Hd. apply NoDup_cons_iff in Hd as (Hd & _).
           rewrite in_app_iff in Hd. tauto.
        -- intros X. apply (D2 x Xsp). cbn. rewrite in_app_iff. auto.
      * refine (conj K2 (conj V2 (conj eq_refl (conj eq_refl (conj eq_refl (conj _ (conj _ (conj _ _)))))))); try discriminate.
        -- destruct r as [|rl rk rv os' rh rr]; [discriminate|]. cbn [rootp] in Hos. injection Hos as ->.
           assert (Els : forall Tx, trep Tx (Some s) (Node rl rk rv os rh rr) -> trep (w_par os (Some nx) Tx) (Some nx) (Node rl rk rv os rh rr)).
           { intros Tx HTx. apply (trep_reparent Tx (Some s) (Some nx) (Node rl rk rv os rh rr) Hndr HTx). }
           apply trep_ext with (w_par os (Some nx) T2).
           ++ intros x Hx.
              assert (X1 : x <> ds) by (intros ->; apply (D2 ds Hds_in); cbn; rewrite in_app_iff; auto).
              assert (X2 : x <> nx) by (intros ->; tauto).
              assert (X3 : ~ In x (cslots c)) by (intros X; apply (D3 x Hx X)).
              destruct (Nat.eq_dec x os) as [->|Ex].
              ** unfold T8. unfold w_par at 1. rewrite upd_neq by exact X1. unfold w_left. rewrite upd_neq by exact X2.
                 unfold w_par at 1. rewrite upd_same. unfold w_par at 2. rewrite upd_same. f_equal.
                 unfold w_right, w_par. rewrite !upd_neq by exact X2.
                 unfold st1. apply wr_cell_other. apply G. exact X3.
              ** rewrite Eo by assumption. unfold w_par. rewrite upd_neq by exact Ex. reflexivity.
           ++ apply Els. exact B8.
        -- apply crep_ext with (fst st1).
           ++ intros x Hx.
              assert (X1 : x <> ds) by (intros ->; apply (D2 ds Hds_in); cbn; rewrite in_app_iff; auto).
              assert (X2 : x <> nx) by (intros ->; tauto).
              assert (X3 : x <> os) by (intros ->; apply (D3 os Hos_in Hx)).
              unfold T8, w_par, w_right, w_left. rewrite !upd_neq by assumption. reflexivity.
           ++ unfold st1. apply (crep_set_hole T2 root c (Some s) (Some nx) h); auto.
    + intros x Hx.
      assert (Xsp : In x (cslots (sp1 ++ [d]))) by (rewrite cslots_app; apply in_or_app; auto).
      apply Eo.
      * intros ->. tauto.
      * intros ->. apply (D2 os Xsp). cbn. rewrite in_app_iff. auto.
      * intros ->. rewrite cslots_app in Hndsp. apply NoDup_app_iff in Hndsp as (_ & _ & Dd). apply (Dd ds Hx). cbn. auto.
      * intros X. apply (D2 x Xsp). cbn. rewrite in_app_iff. auto.
  - rewrite cslots_app. cbn [cslots top].
    assert (Hb : NoDup ((tslots nl ++ cslots sp0) ++ s :: tslots r ++ cslots c)).
    { rewrite <- app_assoc. apply NoDup_cons_iff in Hbig as (_ & Hbig). exact Hbig. }
    rewrite app_assoc. apply NoDup_replace with s; auto.
    rewrite <- app_assoc. rewrite !in_app_iff. cbn [In]. rewrite in_app_iff. tauto.
Qed.

(* ---- the tree part of remove() ----------------------------------------------------------------------------------------- *)
Lemma tslots_head_succ N sp nx nk nv nh nr :
  N = Node Leaf nk nv nx nh nr -> Forall isFL sp -> exists rest, tslots (plug N sp) = nx :: rest.
Proof.
  intros -> H. rewrite tslots_plug_eq. unfold bslots. rewrite (before_allFL sp H). cbn [map app tslots]. eauto.
Qed.
Lemma tslots_last_pred N sp nx nk nv nh nl :
  N = Node nl nk nv nx nh Leaf -> Forall isFR sp -> exists rest, tslots (plug N sp) = rest ++ [nx].
Proof.
  intros -> H. rewrite tslots_plug_eq. unfold aslots. rewrite (after_allFR sp H). cbn [map tslots]. rewrite app_nil_r.
  exists (bslots sp ++ tslots nl). rewrite <- app_assoc. reflexivity.
Qed.

Lemma m_remove_tree_spec T root c l k v s h r fuel nextp prevp :
  trep T (ctx_par c) (Node l k v s h r) -> crep T root c (Some s) h ->
  NoDup (tslots (Node l k v s h r) ++ cslots c) -> bal (Node l k v s h r) ->
  (size (Node l k v s h r) <= fuel)%nat ->
  (forall a rest, tslots r = a :: rest -> nextp = LCell a) ->
  (forall a rest, tslots l = rest ++ [a] -> prevp = Some a) ->
  exists T1 root1, m_remove_tree fuel s nextp prevp (T, root) = Some ((T1, root1), ctx_par c) /\
    trep T1 (ctx_par c) (remove_root l r) /\ crep T1 root1 c (rootp (remove_root l r)) h.
Proof.
  intros Ht Hc Hnd Hbal Hfuel Hnext Hprev.
  pose proof Ht as Ht0. cbn [trep] in Ht0. destruct Ht0 as (K & V & P & Lf & Rt & Hh & Sl & Hl & Hr).
  pose proof Hnd as Hnd0. apply NoDup_app_iff in Hnd0 as (Hndt & Hndc & D).
  assert (Hsc : ~ In s (cslots c)) by (intros X; apply (D s); auto; cbn [tslots]; apply in_elt).
  pose proof (remove_root_bal l k v s h r Hbal) as (Hbal' & _).
  unfold m_remove_tree. cbn [fst snd]. rewrite P, (cell_of_ctx2 _ _ _ _ _ Hc Hsc), Lf, Rt.
  assert (Hnd_l : NoDup (tslots l ++ cslots c)).
  { cbn [tslots] in Hnd. rewrite <- app_assoc in Hnd. apply NoDup_app_iff in Hnd as (H1 & H2 & H3).
    cbn [app] in H2. apply NoDup_cons_iff in H2 as (_ & H2). apply NoDup_app_iff in H2 as (_ & H2 & _).
    apply NoDup_app_iff. repeat split; auto. intros x X1 X2. apply (D x); auto. cbn [tslots]. apply in_or_app. auto. }
  assert (Hnd_r : NoDup (tslots r ++ cslots c)).
  { cbn [tslots] in Hnd. rewrite <- app_assoc in Hnd. apply NoDup_app_iff in Hnd as (_ & H2 & _).
    cbn [app] in H2. apply NoDup_cons_iff in H2 as (_ & H2). exact H2. }
  destruct l as [|ll lk lv ls lh lr], r as [|rl rk rv rs rh rr]; cbn [rootp remove_root].
  - (* leaf *)
    destruct (replace_hole T root c (Some s) h Leaf None Hc I) as (R1 & R2); [exact Hndc|].
    cbn [rootp] in R1, R2.
    exists (fst (wr_cell (ctx_cell c) None (T, root))), (snd (wr_cell (ctx_cell c) None (T, root))).
    rewrite <- surjective_pairing. auto.
  - (* only a right child *)
    destruct (replace_hole T root c (Some s) h _ _ Hc Hr Hnd_r) as (R1 & R2). cbn [rootp] in R1, R2. eauto.
  - (* only a left child *)
    destruct (replace_hole T root c (Some s) h _ _ Hc Hl Hnd_l) as (R1 & R2). cbn [rootp] in R1, R2. eauto.
  - (* two children *)
    pose proof Hl as Hl0. pose proof Hr as Hr0. cbn [trep] in Hl0, Hr0.
    destruct Hl0 as (_ & _ & _ & _ & _ & Hlh & _). destruct Hr0 as (_ & _ & _ & _ & _ & Hrh & _).
    rewrite Hlh, Hrh. cbn [ht].
    cbn [bal] in Hbal. destruct Hbal as (Bl & Br & _).
    destruct (lh <? rh)%nat eqn:Ecmp.
    + (* the in-order successor takes the place *)
      destruct rl as [|rll rlk rlv rls rlh rlr].
      * (* it is the right child *)
        cbn [pop_min].
        rewrite (Hnext rs (tslots rr)) by reflexivity.
        assert (Epar : cpar (T rs) = Some s) by (cbn [trep] in Hr; tauto). rewrite Epar, ptr_eqb_refl.
        destruct (relink_succ_direct T root c _ k v s h rk rv rs rh rr ls Ht Hc Hnd eq_refl) as (R1 & R2 & R3).
        cbn [ekey eval eslot fst snd].
        apply (m_rebal_parent_spec (FR false (Node ll lk lv ls lh lr) rk rv rs h) c [] fuel _ _ rr O); auto.
        -- cbn [length size] in *. lia.
        -- exact I.
        -- exact I.
        -- cbn [remove_root ht pop_min] in Hbal'. rewrite Ecmp in Hbal'. exact Hbal'.
      * (* it lies deeper *)
        destruct (lmost rll rlk rlv rls rlh rlr [(FL true rk rv rs rh rr)]) as [[[[[nk nv] nx] nh] nr] sp] eqn:E.
        destruct (lmost_spec _ _ _ _ _ _ _ _ _ _ _ _ _ E) as (I1 & I2 & I3 & sp1 & I4 & I5 & I7 & _).
        subst sp. cbn [plug] in I1.
        assert (Hfl : Forall isFL (sp1 ++ [(FL true rk rv rs rh rr)])) by (apply Forall_app; split; auto; constructor; [exact I|constructor]).
        rewrite I1 in Ht, Hnd, Hnext.
        destruct (relink_succ_deep T root c _ k v s h sp1 rk rv rs rh rr nk nv nx nh nr ls Hfl Ht Hc Hnd eq_refl)
          as (Q1 & Q2 & Q3 & Q4 & Q5 & Q6 & Q7).
        destruct (tslots_head_succ _ (sp1 ++ [(FL true rk rv rs rh rr)]) nx nk nv nh nr eq_refl Hfl) as (rest & Erest).
        rewrite (Hnext nx rest Erest).
        rewrite Q2. replace (ptr_eqb (Some (fslot (hd (FL true rk rv rs rh rr) sp1))) (Some s)) with false.
        2:{ symmetry. destruct (ptr_eqb (Some (fslot (hd (FL true rk rv rs rh rr) sp1))) (Some s)) eqn:X; auto. apply ptr_eqb_eq in X. injection X as X. destruct (Q3 X). }
        rewrite Q4.
        assert (Erem : (let '(e, r') := pop_min (Node rll rlk rlv rls rlh rlr) rk rv rs rr in
                        rebal (mk (Node ll lk lv ls lh lr) (ekey e) (eval e) (eslot e) r')) =
                       rebal (fill_mk (FR false (Node ll lk lv ls lh lr) nk nv nx h) (rebuild nr (sp1 ++ [(FL true rk rv rs rh rr)])))).
        { cbn [pop_min]. destruct (pop_min rll rlk rlv rls rlr) as [e l'] eqn:Ep. cbn [fst snd] in I2, I3.
          subst e. cbn [ekey eval eslot fst snd fill_mk]. cbn [rebuild] in I3. rewrite I3. reflexivity. }
        rewrite Erem in *.
        apply (m_rebal_parent_spec' (FR false (Node ll lk lv ls lh lr) nk nv nx h) c (sp1 ++ [(FL true rk rv rs rh rr)]) fuel _ _ nr nh); auto.
        -- destruct sp1; reflexivity.
        -- pose proof (size_plug_ge (sp1 ++ [(FL true rk rv rs rh rr)]) (Node Leaf nk nv nx nh nr)) as X. rewrite <- I1 in X.
           cbn [size] in *. lia.
        -- assert (Br' : bal (Node (Node rll rlk rlv rls rlh rlr) rk rv rs rh rr)) by (cbn [bal] in *; exact Br).
           rewrite I1 in Br'. apply bal_plug in Br'. cbn [ht] in Br'. tauto.
        -- apply ctx_strict_app. cbn [ctx_strict fok]. auto.
        -- rewrite <- Erem. cbn [remove_root ht] in Hbal'. rewrite Ecmp in Hbal'. exact Hbal'.
    + (* the in-order predecessor takes the place *)
      destruct lr as [|lrl lrk lrv lrs lrh lrr].
      * cbn [pop_max].
        rewrite (Hprev ls (tslots ll)) by (cbn [tslots]; reflexivity).
        assert (Epar : cpar (T ls) = Some s) by (cbn [trep] in Hl; tauto). rewrite Epar, ptr_eqb_refl.
        destruct (relink_pred_direct T root c _ k v s h ll lk lv ls lh rs Ht Hc Hnd eq_refl) as (R1 & R2 & R3).
        cbn [ekey eval eslot fst snd].
        apply (m_rebal_parent_spec (FL false lk lv ls h (Node rl rk rv rs rh rr)) c [] fuel _ _ ll O); auto.
        -- cbn [length size] in *. lia.
        -- exact I.
        -- exact I.
        -- cbn [remove_root ht pop_max] in Hbal'. rewrite Ecmp in Hbal'. exact Hbal'.
      * destruct (rmost lrl lrk lrv lrs lrh lrr [(FR true ll lk lv ls lh)]) as [[[[[nl nk] nv] nx] nh] sp] eqn:E.
        destruct (rmost_spec _ _ _ _ _ _ _ _ _ _ _ _ _ E) as (I1 & I2 & I3 & sp1 & I4 & I5 & I7 & _).
        subst sp. cbn [plug] in I1.
        assert (Hfl : Forall isFR (sp1 ++ [(FR true ll lk lv ls lh)])) by (apply Forall_app; split; auto; constructor; [exact I|constructor]).
        rewrite I1 in Ht, Hnd, Hprev.
        destruct (relink_pred_deep T root c _ k v s h sp1 ll lk lv ls lh nl nk nv nx nh rs Hfl Ht Hc Hnd eq_refl)
          as (Q1 & Q2 & Q3 & Q4 & Q5 & Q6 & Q7).
        destruct (tslots_last_pred _ (sp1 ++ [(FR true ll lk lv ls lh)]) nx nk nv nh nl eq_refl Hfl) as (rest & Erest).
        rewrite (Hprev nx rest Erest).
        rewrite Q2. replace (ptr_eqb (Some (fslot (hd (FR true ll lk lv ls lh) sp1))) (Some s)) with false.
        2:{ symmetry. destruct (ptr_eqb (Some (fslot (hd (FR true ll lk lv ls lh) sp1))) (Some s)) eqn:X; auto. apply ptr_eqb_eq in X. injection X as X. destruct (Q3 X). }
        rewrite Q4.
        assert (Erem : (let '(e, l') := pop_max ll lk lv ls (Node lrl lrk lrv lrs lrh lrr) in
                        rebal (mk l' (ekey e) (eval e) (eslot e) (Node rl rk rv rs rh rr))) =
                       rebal (fill_mk (FL false nk nv nx h (Node rl rk rv rs rh rr)) (rebuild nl (sp1 ++ [(FR true ll lk lv ls lh)])))).
        { cbn [pop_max]. destruct (pop_max lrl lrk lrv lrs lrr) as [e r'] eqn:Ep. cbn [fst snd] in I2, I3.
          subst e. cbn [ekey eval eslot fst snd fill_mk]. cbn [rebuild] in I3. rewrite I3. reflexivity. }
        rewrite Erem in *.
        apply (m_rebal_parent_spec' (FL false nk nv nx h (Node rl rk rv rs rh rr)) c (sp1 ++ [(FR true ll lk lv ls lh)]) fuel _ _ nl nh); auto.
        -- destruct sp1; reflexivity.
        -- pose proof (size_plug_ge (sp1 ++ [(FR true ll lk lv ls lh)]) (Node nl nk nv nx nh Leaf)) as X. rewrite <- I1 in X.
           cbn [size] in *. lia.
        -- assert (Bl' : bal (Node ll lk lv ls lh (Node lrl lrk lrv lrs lrh lrr))) by (cbn [bal] in *; exact Bl).
           rewrite I1 in Bl'. apply bal_plug in Bl'. cbn [ht] in Bl'. tauto.
        -- apply ctx_strict_app. cbn [ctx_strict fok]. auto.
        -- rewrite <- Erem. cbn [remove_root ht] in Hbal'. rewrite Ecmp in Hbal'. exact Hbal'.
Qed.

(* ---- remove(Iterator) of one container --------------------------------------------------------------------------------- *)
Lemma tslots_remove_root l r : tslots (remove_root l r) = tslots l ++ tslots r.
Proof. rewrite !tslots_inorder, remove_root_inorder, map_app. reflexivity. Qed.

Lemma prev_of_mid ls A a B : lrep ls (A ++ a :: B) -> cprev (lh ls a) = last_ptr A None.
Proof. intros (_ & Hp & _). apply pseg_app in Hp as (_ & Hp). cbn [pseg] in Hp. tauto. Qed.

Lemma m_remove_rep cs cont c l k v s h r :
  Rep cs cont -> tr cont = plug (Node l k v s h r) c -> ctx_strict c ->
  bal (tr cont) -> sz cont = size (tr cont) -> NoDup (tslots (tr cont)) ->
  exists cs', m_remove s cs = Some (cs', hd_ptr (tslots r ++ aslots c) LEnd) /\
    Rep cs' {| tr := rebuild (remove_root l r) c; sz := pred (sz cont) |}.
Proof.
  intros (Ht & Hroot & Hl & Hsz) Etr Hst Hbal Hsize Hnd.
  destruct cs as [[T root] ls0]. cbn [ts ls fst snd] in *. rewrite Etr in *.
  destruct (unplug_rep _ _ _ _ Ht Hroot) as (Htn & Hcn). cbn [rootp ht] in Hcn.
  assert (Hnd2 : NoDup (tslots (Node l k v s h r) ++ cslots c)).
  { apply (Permutation_NoDup (tslots_plug _ c)). exact Hnd. }
  destruct (bal_plug c _ Hbal) as (Hbn & Hok). cbn [ht] in Hok.
  pose proof (bal_plug_ctx c _ Hbal) as Hcb.
  destruct (remove_root_bal l k v s h r Hbn) as (Hbr & Hnear).
  rewrite tslots_plug_eq in Hl, Hnd. cbn [tslots] in Hl, Hnd.
  assert (Elist : bslots c ++ (tslots l ++ s :: tslots r) ++ aslots c = (bslots c ++ tslots l) ++ s :: (tslots r ++ aslots c)).
  { repeat rewrite <- app_assoc. reflexivity. }
  rewrite Elist in Hl, Hnd.
  destruct (l_unthread_spec ls0 _ s _ Hl Hnd) as (Hl' & Hsz' & Hnx).
  pose proof (prev_of_mid _ _ _ _ Hl) as Hpv.
  pose proof (size_plug_ge c (Node l k v s h r)) as Hge.
  unfold m_remove. cbn [ts ls].
  destruct (m_remove_tree_spec T root c l k v s h r (S (l_size ls0)) (cnext (lh ls0 s)) (cprev (lh ls0 s)) Htn Hcn Hnd2 Hbn)
    as (T1 & root1 & Hrun & Ht1 & Hc1).
  - lia.
  - intros a rest E. rewrite Hnx, E. reflexivity.
  - intros a rest E. rewrite Hpv, E, app_assoc, last_ptr_app. reflexivity.
  - rewrite Hrun.
    destruct (m_up_spec c (S (l_size ls0)) T1 root1 (remove_root l r) h) as (T' & root' & Hup & Hrep & Hroot'); auto.
    + lia.
    + rewrite tslots_remove_root. cbn [tslots] in Hnd2. rewrite <- !app_assoc in *. cbn [app] in Hnd2.
      apply NoDup_app_iff in Hnd2 as (N1 & N2 & N3). apply NoDup_cons_iff in N2 as (_ & N2).
      apply NoDup_app_iff. split; [exact N1|]. split; [exact N2|].
      intros x X1 X2. apply (N3 x X1). cbn. auto.
    + unfold near. destruct Hnear; auto.
    + rewrite Hup, Hnx. exists {| ts := (T', root'); ls := l_unthread s ls0 |}. split; [reflexivity|].
      unfold Rep. cbn [ts ls fst snd tr sz]. split; [exact Hrep|]. split; [exact Hroot'|]. split.
      * rewrite tslots_rebuild_eq, tslots_remove_root. repeat rewrite <- app_assoc. repeat rewrite <- app_assoc in Hl'. exact Hl'.
      * rewrite Hsz', Hsz. reflexivity.
Qed.
