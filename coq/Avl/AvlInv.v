(* The AVL invariant of one container and what each container-level operation of the model does
   to it, expressed against the reference list operations of AvlSpec. *)
From Coq Require Import ZArith List Bool Arith Lia ZifyBool.
From Avl Require Import AvlSpec AvlModel AvlLists AvlBalance AvlOrder.
Import ListNotations.
Local Open Scope Z_scope.

Arguments Nat.max : simpl never.

(* ---- the invariant ---------------------------------------------------------------------------- *)
(* bal: stored height = 1 + max of the children's stored heights (hence = real height) and the
   children's heights differ by at most one, at every node.  sorted: BST order of the in-order
   sequence (strict for Map, non-strict for MultiMap). *)
Definition tinv (f : flavour) (t : tree) : Prop := bal t /\ sorted f (inorder t).
Definition cinv (f : flavour) (c : cont) : Prop := tinv f (tr c) /\ sz c = size (tr c).

Lemma cinv_empty f : cinv f c_empty.
Proof. repeat split. Qed.

(* ---- small list facts --------------------------------------------------------------------------- *)
Lemma leaf_iff_nil t : inorder t = [] <-> t = Leaf.
Proof.
  split; [|intros ->; reflexivity]. destruct t as [|l k v s h r]; auto. cbn [inorder].
  intros H. apply (f_equal (@length entry)) in H. rewrite app_length in H. cbn [length] in H. lia.
Qed.

Lemma sorted_nth_bounds f l j p :
  sorted f l -> nth_error l j = Some p ->
  (forall a, In a (firstn (S j) l) -> ekey a <= ekey p) /\ (forall b, In b (skipn j l) -> ekey p <= ekey b).
Proof.
  intros Hs Hn. destruct (nth_error_split_len _ _ _ Hn) as (Hsplit & Hlen).
  rewrite Hsplit in Hs. destruct (sorted_mid _ _ _ _ Hs) as (_ & _ & Hlo & Hhi).
  split.
  - intros a Ha. rewrite Hsplit in Ha.
    rewrite firstn_app, Hlen in Ha. replace (S j - j)%nat with 1%nat in Ha by lia.
    rewrite firstn_firstn in Ha. replace (Nat.min (S j) j) with j in Ha by lia. cbn [firstn] in Ha.
    apply in_app_or in Ha as [Ha|[<-|[]]]; [apply klt_le with f; auto|lia].
  - intros b Hb. rewrite Hsplit in Hb.
    rewrite skipn_app, Hlen, Nat.sub_diag in Hb. cbn [skipn] in Hb.
    rewrite skipn_firstn_comm, Nat.sub_diag in Hb. cbn [firstn app] in Hb.
    destruct Hb as [<-|Hb]; [lia|apply klt_le with f; auto].
Qed.

Lemma in_firstn_app {A} (a : A) (P R : list A) p : In a P -> (length P <= p)%nat -> In a (firstn p (P ++ R)).
Proof. intros Ha Hl. rewrite firstn_app, firstn_all2 by exact Hl. apply in_or_app. auto. Qed.

Lemma in_skipn_app {A} (b : A) (P B : list A) p : In b B -> (p <= length P)%nat -> In b (skipn p (P ++ B)).
Proof.
  intros Hb Hl. rewrite skipn_app. replace (p - length P)%nat with O by lia. cbn [skipn]. apply in_or_app. auto.
Qed.

Lemma skipn_app_2 {A} (a l : list A) n : skipn (length a + n) (a ++ l) = skipn n l.
Proof. induction a as [|e a IH]; cbn [length app Nat.add skipn]; auto. Qed.

Lemma insert_at_app {A} (a sub b : list A) q (x : A) :
  (q <= length sub)%nat -> a ++ insert_at q x sub ++ b = insert_at (length a + q) x (a ++ sub ++ b).
Proof.
  intros Hq. unfold insert_at. rewrite firstn_app_2, skipn_app_2.
  rewrite firstn_app, skipn_app. replace (q - length sub)%nat with O by lia. cbn [firstn skipn app].
  rewrite app_nil_r. repeat rewrite <- app_assoc. cbn [app]. reflexivity.
Qed.

Lemma count_le_le_length k l : (count_le k l <= length l)%nat.
Proof. unfold count_le. induction l as [|e l IH]; cbn [filter length]; [lia|]. destruct (ekey e <=? k); cbn [length]; lia. Qed.

Lemma valid_pos_of_sorted k v s p l :
  (p <= length l)%nat -> sorted FMulti (insert_at p (k, v, s) l) -> valid_pos k p l = true.
Proof.
  intros Hp Hs. unfold insert_at in Hs. destruct (sorted_mid _ _ _ _ Hs) as (_ & _ & Hlo & Hhi).
  unfold valid_pos. repeat (apply andb_true_iff; split).
  - apply Nat.leb_le. exact Hp.
  - apply forallb_forall. intros x Hx. specialize (Hlo x Hx). cbn [klt ekey fst] in Hlo. lia.
  - apply forallb_forall. intros x Hx. specialize (Hhi x Hx). cbn [klt ekey fst] in Hhi. lia.
Qed.

Lemma nth_error_insert_at {A} p (x : A) l : (p <= length l)%nat -> nth_error (insert_at p x l) p = Some x.
Proof.
  intros Hp. unfold insert_at. rewrite nth_error_app2; rewrite firstn_length_le by exact Hp; [|lia].
  rewrite Nat.sub_diag. reflexivity.
Qed.

(* Map: the key is present at position [pos] *)
Lemma ins_list_map_update k v s a x b :
  sorted FMap (a ++ x :: b) -> ekey x = k ->
  ins_list FMap k v s (a ++ x :: b) = a ++ (k, v, eslot x) :: b /\
  count_lt k (a ++ x :: b) = length a /\ has_key k (a ++ x :: b) = true.
Proof.
  intros Hs Hk. destruct (sorted_mid _ _ _ _ Hs) as (_ & _ & Hlo & Hhi). cbn [klt] in Hlo, Hhi.
  repeat split.
  - rewrite ins_list_app_r by (intros y Hy; cbn [klt]; specialize (Hlo y Hy); lia).
    cbn [ins_list]. rewrite Hk, Z.ltb_irrefl, Z.eqb_refl. reflexivity.
  - rewrite count_lt_app. change (x :: b) with ([x] ++ b). rewrite count_lt_app.
    rewrite (count_lt_all k a) by (intros y Hy; specialize (Hlo y Hy); lia).
    rewrite (count_lt_none k [x]) by (intros y [<-|[]]; lia).
    rewrite (count_lt_none k b) by (intros y Hy; specialize (Hhi y Hy); lia). lia.
  - rewrite has_key_app. unfold has_key at 2. cbn [existsb]. rewrite Hk, Z.eqb_refl. cbn [orb]. apply orb_true_r.
Qed.

(* ---- plain insert -------------------------------------------------------------------------------- *)
(* "the container operation [out] behaves as the reference insert" *)
Definition ok_sins (f : flavour) (k v : Z) (c : cont) (n : nat) (out : cont * nat * nat) : Prop :=
  cinv f (fst (fst out)) /\
  s_insert f k v (inorder (tr c)) n =
    (inorder (tr (fst (fst out))), snd (fst out), itr_at (inorder (tr (fst (fst out)))) (snd out)).

(* "the MultiMap operation [out] inserted (k, v, n) at the position it reports, and that position
   keeps the sequence sorted and the other entries in their order" *)
Definition ok_multi (k v : Z) (c : cont) (n : nat) (out : cont * nat * nat) : Prop :=
  cinv FMulti (fst (fst out)) /\
  valid_pos k (snd out) (inorder (tr c)) = true /\
  inorder (tr (fst (fst out))) = insert_at (snd out) (k, v, n) (inorder (tr c)) /\
  snd (fst out) = S n.

Lemma c_insert_ok f k v c n : cinv f c -> ok_sins f k v c n (c_insert f k v c n).
Proof.
  intros ((Hb & Hs) & Hsz). unfold ok_sins, c_insert, cinv, tinv. cbn [fst snd tr sz].
  repeat split.
  - apply ins_bal. exact Hb.
  - rewrite ins_inorder by exact Hs. apply sorted_ins_list. exact Hs.
  - rewrite size_ins, Hsz. unfold bump. destruct (ins_new f k (tr c)); lia.
  - unfold s_insert. rewrite ins_inorder by exact Hs. rewrite ins_rank_pos by exact Hs.
    f_equal. f_equal. unfold bump. destruct f.
    + rewrite ins_new_has by exact Hs. reflexivity.
    + rewrite ins_new_multi. reflexivity.
Qed.

Lemma c_insert_multi k v c n : cinv FMulti c -> ok_multi k v c n (c_insert FMulti k v c n).
Proof.
  intros Hc. destruct (c_insert_ok FMulti k v c n Hc) as (Hc' & Hs).
  destruct Hc as ((Hb & Hso) & Hsz).
  unfold s_insert in Hs. cbn [ins_pos] in Hs.
  unfold ok_multi. split; [exact Hc'|].
  assert (Hrk : snd (c_insert FMulti k v c n) = count_le k (inorder (tr c))).
  { unfold c_insert. cbn [snd]. apply (ins_rank_pos FMulti). exact Hso. }
  assert (Hl : inorder (tr (fst (fst (c_insert FMulti k v c n)))) = ins_list FMulti k v n (inorder (tr c))).
  { injection Hs as H1 _ _. symmetry. exact H1. }
  assert (Hn : snd (fst (c_insert FMulti k v c n)) = S n).
  { injection Hs as _ H2 _. symmetry. exact H2. }
  rewrite Hrk, Hl, Hn. repeat split.
  - apply valid_pos_count_le. exact Hso.
  - apply ins_list_multi_insert_at. exact Hso.
Qed.

(* ---- hinted insert: the descent under the hint node ------------------------------------------------ *)
Definition under_res (f : flavour) (rank : nat) (side : bool) (k v : Z) (n : nat) (c : cont) : cont * nat * nat :=
  ({| tr := ins_at f rank side k v n (tr c); sz := bump (new_at f rank side k (tr c)) (sz c) |},
   bump (new_at f rank side k (tr c)) n, rank_at f rank side k (tr c)).

(* decomposition of the sequence around the cell under the hint, with the hypotheses the
   neighbour tests of insert(position, ...) establish *)
Lemma under_decomp f (rank : nat) (side : bool) k v n t :
  tinv f t -> (rank < size t)%nat ->
  (forall e, In e (firstn (if side then S rank else rank) (inorder t)) -> klt f (ekey e) k) ->
  (forall e, In e (skipn (if side then S rank else rank) (inorder t)) -> klt f k (ekey e)) ->
  exists A sub B,
    inorder t = A ++ inorder sub ++ B /\
    inorder (ins_at f rank side k v n t) = A ++ ins_list f k v n (inorder sub) ++ B /\
    rank_at f rank side k t = (length A + ins_rank f k sub)%nat /\
    new_at f rank side k t = ins_new f k sub /\
    sorted f (inorder sub) /\
    (forall e, In e A -> klt f (ekey e) k) /\ (forall e, In e B -> klt f k (ekey e)) /\
    bal (ins_at f rank side k v n t) /\ size (ins_at f rank side k v n t) = (size t + if ins_new f k sub then 1 else 0)%nat.
Proof.
  intros (Hb & Hs) Hr HA HB.
  destruct (ins_at_spec f rank side k v n t Hr) as (A & sub & B & H1 & H2 & H3 & H4 & H5).
  assert (Hsub : sorted f (inorder sub)).
  { rewrite H1 in Hs. apply sorted_app in Hs as (_ & Hs & _). apply sorted_app in Hs as (Hs & _). exact Hs. }
  exists A, sub, B. repeat split; auto.
  - rewrite H3, ins_inorder by exact Hsub. reflexivity.
  - intros e He. apply HA. rewrite H1. apply in_firstn_app; auto.
    destruct side; [lia|rewrite app_length in H2; lia].
  - intros e He. apply HB. rewrite H1, app_assoc. apply in_skipn_app; auto.
    destruct side; [rewrite app_length; lia|lia].
  - apply ins_at_bal. exact Hb.
  - rewrite !size_inorder, H3, H1, !app_length, <- !size_inorder, size_ins. lia.
Qed.

Lemma under_map (rank : nat) (side : bool) k v n c :
  cinv FMap c -> (rank < size (tr c))%nat ->
  (forall e, In e (firstn (if side then S rank else rank) (inorder (tr c))) -> ekey e < k) ->
  (forall e, In e (skipn (if side then S rank else rank) (inorder (tr c))) -> k < ekey e) ->
  ok_sins FMap k v c n (under_res FMap rank side k v n c).
Proof.
  intros (Ht & Hsz) Hr HA HB.
  destruct (under_decomp FMap rank side k v n (tr c) Ht Hr HA HB)
    as (A & sub & B & H1 & H3 & H4 & H5 & Hsub & HA' & HB' & Hbal & Hsize).
  destruct Ht as (Hb & Hs). cbn [klt] in HA', HB'.
  assert (Hins : ins_list FMap k v n (inorder (tr c)) = A ++ ins_list FMap k v n (inorder sub) ++ B).
  { rewrite H1. rewrite ins_list_app_r by exact HA'. rewrite ins_list_app_l by exact HB'. reflexivity. }
  assert (Hhas : has_key k (inorder (tr c)) = has_key k (inorder sub)).
  { rewrite H1, !has_key_app.
    rewrite (has_key_none k A) by (intros x Hx; specialize (HA' x Hx); lia).
    rewrite (has_key_none k B) by (intros x Hx; specialize (HB' x Hx); lia).
    rewrite orb_false_r. reflexivity. }
  unfold ok_sins, under_res, cinv, tinv. cbn [fst snd tr sz]. repeat split.
  - exact Hbal.
  - rewrite H3, <- Hins. apply sorted_ins_list. exact Hs.
  - rewrite Hsize, H5, Hsz. unfold bump. destruct (ins_new FMap k sub); lia.
  - unfold s_insert. rewrite H3, <- Hins. f_equal; [f_equal|].
    + rewrite H5, Hhas, ins_new_has by exact Hsub. reflexivity.
    + f_equal. rewrite H4. cbn [ins_pos]. rewrite H1, !count_lt_app.
      rewrite (count_lt_all k A) by exact HA'.
      rewrite (count_lt_none k B) by (intros x Hx; specialize (HB' x Hx); lia).
      rewrite (ins_rank_pos FMap) by exact Hsub. cbn [ins_pos]. lia.
Qed.

Lemma under_multi (rank : nat) (side : bool) k v n c :
  cinv FMulti c -> (rank < size (tr c))%nat ->
  (forall e, In e (firstn (if side then S rank else rank) (inorder (tr c))) -> ekey e <= k) ->
  (forall e, In e (skipn (if side then S rank else rank) (inorder (tr c))) -> k <= ekey e) ->
  ok_multi k v c n (under_res FMulti rank side k v n c).
Proof.
  intros (Ht & Hsz) Hr HA HB.
  destruct (under_decomp FMulti rank side k v n (tr c) Ht Hr HA HB)
    as (A & sub & B & H1 & H3 & H4 & H5 & Hsub & HA' & HB' & Hbal & Hsize).
  destruct Ht as (Hb & Hs).
  assert (Hsorted : sorted FMulti (A ++ ins_list FMulti k v n (inorder sub) ++ B)).
  { apply sorted_ins_segment; auto. rewrite <- H1. exact Hs. }
  assert (Hpos : A ++ ins_list FMulti k v n (inorder sub) ++ B =
                 insert_at (length A + count_le k (inorder sub)) (k, v, n) (inorder (tr c))).
  { rewrite ins_list_multi_insert_at by exact Hsub. rewrite H1. apply insert_at_app. apply count_le_le_length. }
  assert (Hrk : rank_at FMulti rank side k (tr c) = (length A + count_le k (inorder sub))%nat).
  { rewrite H4, (ins_rank_pos FMulti) by exact Hsub. reflexivity. }
  unfold ok_multi, under_res, cinv, tinv. cbn [fst snd tr sz]. rewrite H5, ins_new_multi in *. repeat split.
  - exact Hbal.
  - rewrite H3. exact Hsorted.
  - rewrite Hsize, Hsz. cbn [bump]. lia.
  - rewrite Hrk. apply valid_pos_of_sorted with v n.
    + pose proof (count_le_le_length k (inorder sub)). rewrite H1, !app_length. lia.
    + rewrite <- Hpos. exact Hsorted.
  - rewrite H3, Hrk. exact Hpos.
Qed.

(* ---- insert(position, key, value) ------------------------------------------------------------------- *)
Lemma last_error_nth {A} (l : list A) p : last_error l = Some p -> nth_error l (length l - 1) = Some p /\ l <> [].
Proof. destruct l; [discriminate|]. unfold last_error. intros H. split; [exact H|discriminate]. Qed.

Lemma firstn_all_len {A} (l : list A) : firstn (S (length l - 1)) l = l.
Proof. apply firstn_all2. lia. Qed.

Lemma c_insert_hint_map pos k v c n : cinv FMap c -> ok_sins FMap k v c n (c_insert_hint FMap pos k v c n).
Proof.
  intros Hc. pose proof Hc as ((Hb & Hs) & Hsz).
  unfold c_insert_hint. cbv zeta. rewrite !size_inorder in *.
  change (fun (rank : nat) (side : bool) => _) with (fun rank side => under_res FMap rank side k v n c).
  cbv beta.
  destruct (nth_error (inorder (tr c)) pos) as [x|] eqn:Ex.
  - assert (Hpos : (pos < length (inorder (tr c)))%nat) by (apply nth_error_Some; congruence).
    destruct (sorted_nth_bounds _ _ _ _ Hs Ex) as (Hlo & Hhi).
    destruct (k <? ekey x) eqn:E1.
    + (* left cell of the hint *)
      assert (Habove : forall e, In e (skipn pos (inorder (tr c))) -> k < ekey e)
        by (intros e He; specialize (Hhi e He); lia).
      destruct pos as [|p].
      * apply under_map; auto; [rewrite size_inorder; exact Hpos|intros e []].
      * destruct (nth_error (inorder (tr c)) p) as [y|] eqn:Ey.
        -- cbn [gt_prev]. destruct (k >? ekey y) eqn:E2; [|apply c_insert_ok; exact Hc].
           apply under_map; auto; [rewrite size_inorder; exact Hpos|].
           destruct (sorted_nth_bounds _ _ _ _ Hs Ey) as (Hlo' & _).
           intros e He. specialize (Hlo' e He). lia.
        -- apply under_map; auto; [rewrite size_inorder; exact Hpos|].
           apply nth_error_None in Ey. lia.
    + destruct (k >? ekey x) eqn:E2.
      * (* right cell of the hint *)
        assert (Hbelow : forall e, In e (firstn (S pos) (inorder (tr c))) -> ekey e < k)
          by (intros e He; specialize (Hlo e He); lia).
        destruct (nth_error (inorder (tr c)) (S pos)) as [y|] eqn:Ey.
        -- cbn [lt_next]. destruct (k <? ekey y) eqn:E3; [|apply c_insert_ok; exact Hc].
           apply under_map; auto; [rewrite size_inorder; exact Hpos|].
           destruct (sorted_nth_bounds _ _ _ _ Hs Ey) as (_ & Hhi').
           intros e He. specialize (Hhi' e He). lia.
        -- apply under_map; auto; [rewrite size_inorder; exact Hpos|].
           apply nth_error_None in Ey. rewrite skipn_all2 by exact Ey. intros e [].
      * (* same key: insertPos->value = value *)
        assert (Hk : ekey x = k) by lia.
        destruct (nth_error_split_len _ _ _ Ex) as (Hsplit & Hlen).
        pose proof Hs as Hs'. rewrite Hsplit in Hs'.
        destruct (ins_list_map_update k v n _ _ _ Hs' Hk) as (Hu1 & Hu2 & Hu3).
        rewrite <- Hsplit in Hu1, Hu2, Hu3. rewrite Hlen in Hu2.
        unfold ok_sins, cinv, tinv. cbn [fst snd tr sz].
        rewrite (set_val_at_inorder pos v (tr c) x Ex), Hk, <- Hu1.
        repeat split.
        -- apply set_val_at_bal. exact Hb.
        -- apply sorted_ins_list. exact Hs.
        -- rewrite Hsz, !size_inorder, (set_val_at_inorder pos v (tr c) x Ex), Hsplit at 1.
           rewrite !app_length. cbn [length]. reflexivity.
        -- unfold s_insert. cbn [ins_pos]. rewrite Hu2, Hu3. reflexivity.
  - (* position == end() *)
    destruct (last_error (inorder (tr c))) as [p|] eqn:El; [|apply c_insert_ok; exact Hc].
    destruct (k >? ekey p) eqn:E1; [|apply c_insert_ok; exact Hc].
    destruct (last_error_nth _ _ El) as (Hn & Hne).
    assert (Hlen : (0 < length (inorder (tr c)))%nat) by (destruct (inorder (tr c)); [congruence|cbn [length]; lia]).
    destruct (sorted_nth_bounds _ _ _ _ Hs Hn) as (Hlo & _). rewrite firstn_all_len in Hlo.
    apply under_map; auto.
    + rewrite size_inorder. lia.
    + rewrite firstn_all_len. intros e He. specialize (Hlo e He). lia.
    + rewrite skipn_all2 by lia. intros e [].
Qed.

Lemma c_insert_hint_multi pos k v c n : cinv FMulti c -> ok_multi k v c n (c_insert_hint FMulti pos k v c n).
Proof.
  intros Hc. pose proof Hc as ((Hb & Hs) & Hsz).
  unfold c_insert_hint. cbv zeta. rewrite !size_inorder in *.
  change (fun (rank : nat) (side : bool) => _) with (fun rank side => under_res FMulti rank side k v n c).
  cbv beta.
  destruct (nth_error (inorder (tr c)) pos) as [x|] eqn:Ex.
  - assert (Hpos : (pos < length (inorder (tr c)))%nat) by (apply nth_error_Some; congruence).
    destruct (sorted_nth_bounds _ _ _ _ Hs Ex) as (Hlo & Hhi).
    destruct (k <? ekey x) eqn:E1.
    + assert (Habove : forall e, In e (skipn pos (inorder (tr c))) -> k <= ekey e)
        by (intros e He; specialize (Hhi e He); lia).
      destruct pos as [|p].
      * apply under_multi; auto; [rewrite size_inorder; exact Hpos|intros e []].
      * destruct (nth_error (inorder (tr c)) p) as [y|] eqn:Ey.
        -- cbn [gt_prev]. destruct (k >=? ekey y) eqn:E2; [|apply c_insert_multi; exact Hc].
           apply under_multi; auto; [rewrite size_inorder; exact Hpos|].
           destruct (sorted_nth_bounds _ _ _ _ Hs Ey) as (Hlo' & _).
           intros e He. specialize (Hlo' e He). lia.
        -- apply under_multi; auto; [rewrite size_inorder; exact Hpos|].
           apply nth_error_None in Ey. lia.
    + assert (Hbelow : forall e, In e (firstn (S pos) (inorder (tr c))) -> ekey e <= k)
        by (intros e He; specialize (Hlo e He); lia).
      destruct (nth_error (inorder (tr c)) (S pos)) as [y|] eqn:Ey.
      * cbn [lt_next]. destruct (k <=? ekey y) eqn:E3; [|apply c_insert_multi; exact Hc].
        apply under_multi; auto; [rewrite size_inorder; exact Hpos|].
        destruct (sorted_nth_bounds _ _ _ _ Hs Ey) as (_ & Hhi').
        intros e He. specialize (Hhi' e He). lia.
      * apply under_multi; auto; [rewrite size_inorder; exact Hpos|].
        apply nth_error_None in Ey. rewrite skipn_all2 by exact Ey. intros e [].
  - destruct (last_error (inorder (tr c))) as [p|] eqn:El; [|apply c_insert_multi; exact Hc].
    destruct (k >? ekey p) eqn:E1; [|apply c_insert_multi; exact Hc].
    destruct (last_error_nth _ _ El) as (Hn & Hne).
    assert (Hlen : (0 < length (inorder (tr c)))%nat) by (destruct (inorder (tr c)); [congruence|cbn [length]; lia]).
    destruct (sorted_nth_bounds _ _ _ _ Hs Hn) as (Hlo & _). rewrite firstn_all_len in Hlo.
    apply under_multi; auto.
    + rewrite size_inorder. lia.
    + rewrite firstn_all_len. intros e He. specialize (Hlo e He). lia.
    + rewrite skipn_all2 by lia. intros e [].
Qed.

(* ---- removal ------------------------------------------------------------------------------------------ *)
Lemma c_remove_ok f i c :
  cinv f c -> (i < length (inorder (tr c)))%nat ->
  cinv f (c_remove i c) /\ inorder (tr (c_remove i c)) = remove_nth i (inorder (tr c)).
Proof.
  intros ((Hb & Hs) & Hsz) Hi. unfold c_remove, cinv, tinv. cbn [tr sz].
  rewrite remove_rank_inorder. repeat split.
  - apply remove_rank_bal. exact Hb.
  - apply sorted_remove_nth. exact Hs.
  - rewrite Hsz, !size_inorder, remove_rank_inorder, length_remove_nth by exact Hi. reflexivity.
Qed.

(* ---- copy: plain inserts of an ascending sequence into an empty container ----------------------------------- *)
Definition copy_step (f : flavour) (acc : cont * nat) (e : entry) : cont * nat :=
  let '(c1, n1, _) := c_insert f (ekey e) (eval e) (fst acc) (snd acc) in (c1, n1).

Lemma copy_step_eq f c n e :
  copy_step f (c, n) e = (fst (fst (c_insert f (ekey e) (eval e) c n)), snd (fst (c_insert f (ekey e) (eval e) c n))).
Proof. unfold copy_step. cbn [fst snd]. destruct (c_insert f (ekey e) (eval e) c n) as [[c1 n1] r1]. reflexivity. Qed.

Lemma copy_fold f es : forall c n,
  cinv f c -> sorted f es ->
  (forall x y, In x (inorder (tr c)) -> In y es -> klt f (ekey x) (ekey y)) ->
  let r := fold_left (copy_step f) es (c, n) in
  cinv f (fst r) /\ inorder (tr (fst r)) = inorder (tr c) ++ renumber n es /\ snd r = (n + length es)%nat.
Proof.
  induction es as [|e es IH]; intros c n Hc Hs Hlt; cbv zeta.
  - cbn [fold_left fst snd renumber length]. rewrite app_nil_r. split; [exact Hc|split; [reflexivity|lia]].
  - cbn [fold_left]. rewrite copy_step_eq.
    destruct (c_insert_ok f (ekey e) (eval e) c n Hc) as (Hc' & Hsi).
    destruct (c_insert f (ekey e) (eval e) c n) as [[c' n'] rk]. cbn [fst snd] in Hc', Hsi |- *.
    unfold s_insert in Hsi.
    rewrite (ins_list_all_below f) in Hsi by (intros x Hx; apply Hlt; cbn; auto).
    assert (Hfresh : match f with FMap => negb (has_key (ekey e) (inorder (tr c))) | FMulti => true end = true).
    { destruct f; [|reflexivity]. rewrite has_key_none; [reflexivity|].
      intros x Hx. specialize (Hlt x e Hx (or_introl eq_refl)). cbn [klt] in Hlt. lia. }
    rewrite Hfresh in Hsi. injection Hsi as Hl Hn _. subst n'.
    destruct Hs as (He & Hs).
    specialize (IH c' (S n) Hc' Hs). cbv zeta in IH.
    destruct IH as (I1 & I2 & I3).
    + intros x y Hx Hy. rewrite <- Hl in Hx. apply in_app_or in Hx as [Hx|[<-|[]]].
      * apply Hlt; cbn; auto.
      * cbn [ekey fst]. apply (He y Hy).
    + split; [exact I1|split].
      * rewrite I2, <- Hl, <- app_assoc. reflexivity.
      * rewrite I3. cbn [length]. lia.
Qed.

(* both flavours: the copy holds the source's (key, value) sequence in the source's order - in a
   MultiMap every run of equal keys keeps its order, because each plain insert lands after all
   entries with a key <= its own - with fresh slots n, n+1, ... *)
Lemma c_copy_ok f src n :
  cinv f src ->
  cinv f (fst (c_copy f src n)) /\
  inorder (tr (fst (c_copy f src n))) = renumber n (inorder (tr src)) /\
  snd (c_copy f src n) = (n + length (inorder (tr src)))%nat.
Proof.
  intros ((Hb & Hs) & Hsz).
  apply (copy_fold f (inorder (tr src)) c_empty n (cinv_empty f) Hs). intros x y [].
Qed.

(* ---- bulk insert: first plain, then hinted with the previous result ------------------------------------------ *)
Definition bulk_step (f : flavour) (acc : cont * nat * nat) (e : entry) : cont * nat * nat :=
  let '(c1, n1, r1) := acc in c_insert_hint f r1 (ekey e) (eval e) c1 n1.
Definition sbulk_step (f : flavour) (acc : list entry * nat) (e : entry) : list entry * nat :=
  let '(l1, n1, _) := s_insert f (ekey e) (eval e) (fst acc) (snd acc) in (l1, n1).

Lemma bulk_step_eq f c n r e : bulk_step f (c, n, r) e = c_insert_hint f r (ekey e) (eval e) c n.
Proof. reflexivity. Qed.
Lemma sbulk_step_eq f l n e :
  sbulk_step f (l, n) e = (fst (fst (s_insert f (ekey e) (eval e) l n)), snd (fst (s_insert f (ekey e) (eval e) l n))).
Proof. unfold sbulk_step. cbn [fst snd]. destruct (s_insert f (ekey e) (eval e) l n) as [[l1 n1] r1]. reflexivity. Qed.

Lemma bulk_fold rest : forall c n r,
  cinv FMap c ->
  let out := fold_left (bulk_step FMap) rest (c, n, r) in
  cinv FMap (fst (fst out)) /\
  fold_left (sbulk_step FMap) rest (inorder (tr c), n) = (inorder (tr (fst (fst out))), snd (fst out)).
Proof.
  induction rest as [|e rest IH]; intros c n r Hc; cbv zeta.
  - cbn [fold_left fst snd]. auto.
  - cbn [fold_left]. rewrite bulk_step_eq, sbulk_step_eq.
    destruct (c_insert_hint_map r (ekey e) (eval e) c n Hc) as (Hc' & Hsi).
    destruct (c_insert_hint FMap r (ekey e) (eval e) c n) as [[c' n'] rk]. cbn [fst snd] in Hc', Hsi |- *.
    rewrite Hsi. cbn [fst snd]. apply IH. exact Hc'.
Qed.

Lemma c_bulk_ok src c n :
  cinv FMap c ->
  cinv FMap (fst (c_bulk FMap src c n)) /\
  s_bulk FMap (inorder (tr src)) (inorder (tr c)) n = (inorder (tr (fst (c_bulk FMap src c n))), snd (c_bulk FMap src c n)).
Proof.
  intros Hc. unfold c_bulk, s_bulk.
  destruct (inorder (tr src)) as [|e rest]; [cbn [fold_left fst snd]; auto|].
  cbn [fold_left].
  destruct (c_insert_ok FMap (ekey e) (eval e) c n Hc) as (Hc' & Hsi).
  destruct (c_insert FMap (ekey e) (eval e) c n) as [[c' n'] rk]. cbn [fst snd] in Hc', Hsi |- *.
  cbn [fst snd]. rewrite Hsi.
  pose proof (bulk_fold rest c' n' rk Hc') as Hf. cbv zeta in Hf.
  change (fun acc e0 => let '(c1, n1, r1) := acc in c_insert_hint FMap r1 (ekey e0) (eval e0) c1 n1) with (bulk_step FMap).
  change (fun acc e0 => let '(l1, n1, _) := s_insert FMap (ekey e0) (eval e0) (fst acc) (snd acc) in (l1, n1)) with (sbulk_step FMap).
  destruct (fold_left (bulk_step FMap) rest (c', n', rk)) as [[c2 n2] r2]. cbn [fst snd] in *. exact Hf.
Qed.
