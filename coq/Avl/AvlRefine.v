(* State level: the invariant holds in every reachable state and every operation of the model
   refines the reference sorted (multi)map of AvlSpec. *)
From Coq Require Import ZArith List Bool Arith Lia ZifyBool.
From Avl Require Import AvlSpec AvlModel AvlLists AvlBalance AvlOrder AvlInv.
Import ListNotations.
Local Open Scope Z_scope.

Arguments Nat.max : simpl never.

Definition Inv (f : flavour) (st : mstate) : Prop := cinv f (m_a st) /\ cinv f (m_b st).

Definition abs (st : mstate) : sstate :=
  {| s_a := inorder (tr (m_a st)); s_b := inorder (tr (m_b st)); s_cur := m_cur st; s_next := m_next st |}.

Lemma inv_init f : Inv f m_init.
Proof. split; apply cinv_empty. Qed.

Lemma abs_init : abs m_init = s_init.
Proof. reflexivity. Qed.

Lemma sel_abs st : s_sel (abs st) = inorder (tr (m_sel st)).
Proof. unfold s_sel, m_sel, abs. cbn [s_cur s_a s_b]. destruct (m_cur st); reflexivity. Qed.

Lemma other_abs st : s_other (abs st) = inorder (tr (m_other st)).
Proof. unfold s_other, m_other, abs. cbn [s_cur s_a s_b]. destruct (m_cur st); reflexivity. Qed.

Lemma next_abs st : s_next (abs st) = m_next st.
Proof. reflexivity. Qed.

Lemma abs_set st c n : abs (m_set st c n) = s_set (abs st) (inorder (tr c)) n.
Proof. unfold m_set, s_set, abs. cbn [s_cur]. destruct (m_cur st); reflexivity. Qed.

Lemma inv_set f st c n : Inv f st -> cinv f c -> Inv f (m_set st c n).
Proof. intros (Ha & Hb) Hc. unfold m_set, Inv. destruct (m_cur st); cbn [m_a m_b]; auto. Qed.

Lemma inv_sel f st : Inv f st -> cinv f (m_sel st).
Proof. intros (Ha & Hb). unfold m_sel. destruct (m_cur st); auto. Qed.

Lemma inv_other f st : Inv f st -> cinv f (m_other st).
Proof. intros (Ha & Hb). unfold m_other. destruct (m_cur st); auto. Qed.

Lemma tree_case {A} (t : tree) (a b : A) :
  match t with Leaf => a | Node _ _ _ _ _ _ => b end = match inorder t with [] => a | _ :: _ => b end.
Proof.
  destruct t as [|l k v s h r]; [reflexivity|]. destruct (inorder (Node l k v s h r)) eqn:E; [|reflexivity].
  apply leaf_iff_nil in E. discriminate.
Qed.

(* ---- one operation ------------------------------------------------------------------------------------ *)
Lemma step_ok f st o :
  Inv f st ->
  Inv f (fst (step f st o)) /\
  spec_step f (abs st) o (choice_of f st o) = (abs (fst (step f st o)), fst (snd (step f st o))).
Proof.
  intros HI. pose proof (inv_sel f st HI) as Hsel. pose proof Hsel as ((Hbal & Hsorted) & Hsz).
  destruct o as [k v|pos k v|k|pos| | | |k|k|k| | |b| | | ];
    unfold step, spec_step, choice_of; cbv beta iota zeta; rewrite ?sel_abs, ?other_abs, ?next_abs.
  - (* insert(key, value) *)
    destruct (c_insert_ok f k v (m_sel st) (m_next st) Hsel) as (Hc' & Hsi).
    destruct (c_insert f k v (m_sel st) (m_next st)) as [[c' n'] rk]. cbn [fst snd] in Hc', Hsi |- *.
    rewrite Hsi. split; [apply inv_set; auto|rewrite abs_set; reflexivity].
  - (* insert(position, key, value) *)
    destruct f.
    + destruct (c_insert_hint_map pos k v (m_sel st) (m_next st) Hsel) as (Hc' & Hsi).
      destruct (c_insert_hint FMap pos k v (m_sel st) (m_next st)) as [[c' n'] rk]. cbn [fst snd] in Hc', Hsi |- *.
      rewrite Hsi. split; [apply inv_set; auto|rewrite abs_set; reflexivity].
    + destruct (c_insert_hint_multi pos k v (m_sel st) (m_next st) Hsel) as (Hc' & Hv & Hl & Hn).
      destruct (c_insert_hint FMulti pos k v (m_sel st) (m_next st)) as [[c' n'] rk]. cbn [fst snd] in Hc', Hv, Hl, Hn |- *.
      rewrite Hv. subst n'. split; [apply inv_set; auto|rewrite abs_set, Hl; reflexivity].
  - (* remove(key): the rank the model removes is a legitimate choice for the reference *)
    rewrite !(find_rank_list f) by exact Hsorted. rewrite has_key_find.
    destruct (find_list k (inorder (tr (m_sel st)))) as [i|] eqn:E; cbn [fst snd]; [|destruct f; auto].
    destruct (find_list_nth _ _ _ E) as (e & Hn & Hk & _).
    assert (Hi : (i < length (inorder (tr (m_sel st))))%nat) by (apply nth_error_Some; congruence).
    destruct (c_remove_ok f i (m_sel st) Hsel Hi) as (Hc' & Hl).
    assert (Hka : key_at k i (inorder (tr (m_sel st))) = true) by (unfold key_at; rewrite Hn; lia).
    rewrite Hka.
    split; [apply inv_set; auto|destruct f; rewrite abs_set, Hl; reflexivity].
  - (* remove(iterator) *)
    destruct (nth_error (inorder (tr (m_sel st))) pos) as [e|] eqn:E; cbn [fst snd].
    + assert (Hi : (pos < length (inorder (tr (m_sel st))))%nat) by (apply nth_error_Some; congruence).
      replace (pos <? length (inorder (tr (m_sel st))))%nat with true by lia.
      destruct (c_remove_ok f pos (m_sel st) Hsel Hi) as (Hc' & Hl).
      split; [apply inv_set; auto|rewrite abs_set, Hl; reflexivity].
    + apply nth_error_None in E.
      replace (pos <? length (inorder (tr (m_sel st))))%nat with false by lia. auto.
  - (* removeFront *)
    rewrite tree_case. destruct (inorder (tr (m_sel st))) as [|x tl] eqn:El; cbn [fst snd]; [auto|].
    assert (Hi : (0 < length (inorder (tr (m_sel st))))%nat) by (rewrite El; cbn [length]; lia).
    destruct (c_remove_ok f O (m_sel st) Hsel Hi) as (Hc' & Hl). rewrite El in Hl. cbn [remove_nth] in Hl.
    split; [apply inv_set; auto|rewrite abs_set, Hl; reflexivity].
  - (* removeBack *)
    rewrite tree_case. destruct (inorder (tr (m_sel st))) as [|x tl] eqn:El; cbn [fst snd]; [auto|].
    assert (Hi : (size (tr (m_sel st)) - 1 < length (inorder (tr (m_sel st))))%nat)
      by (rewrite size_inorder, El; cbn [length]; lia).
    destruct (c_remove_ok f _ (m_sel st) Hsel Hi) as (Hc' & Hl).
    split; [apply inv_set; auto|rewrite abs_set, Hl, size_inorder, remove_nth_last, El; reflexivity].
  - (* clear *)
    cbn [fst snd]. split; [apply inv_set; auto; apply cinv_empty|rewrite abs_set; reflexivity].
  - (* find *)
    cbn [fst snd]. rewrite (find_rank_list f) by exact Hsorted. auto.
  - (* contains *)
    cbn [fst snd]. rewrite (find_rank_list f) by exact Hsorted. rewrite has_key_find. auto.
  - (* count *)
    cbn [fst snd]. rewrite (count_model_list f) by exact Hsorted. auto.
  - (* front *) cbn [fst snd]. auto.
  - (* back *) cbn [fst snd]. auto.
  - (* select the other container *)
    cbn [fst snd]. split; [exact HI|reflexivity].
  - (* copy *)
    destruct (c_copy_ok f (m_other st) (m_next st) (inv_other _ _ HI)) as (Hc' & Hl & Hn).
    destruct (c_copy f (m_other st) (m_next st)) as [c' n']. cbn [fst snd] in Hc', Hl, Hn |- *.
    split; [apply inv_set; auto|rewrite abs_set, Hl, Hn; reflexivity].
  - (* insert(other) *)
    destruct f; cbn [fst snd]; [|auto].
    destruct (c_bulk_ok (m_other st) (m_sel st) (m_next st) Hsel) as (Hc' & Hs).
    destruct (c_bulk FMap (m_other st) (m_sel st) (m_next st)) as [c' n']. cbn [fst snd] in Hc', Hs |- *.
    rewrite Hs. split; [apply inv_set; auto|rewrite abs_set; reflexivity].
  - (* self-assignment *)
    cbn [fst snd]. split; [exact HI|reflexivity].
Qed.

Lemma step_inv f st o : Inv f st -> Inv f (fst (step f st o)).
Proof. intros H. apply step_ok. exact H. Qed.

Lemma step_refines f st o :
  Inv f st ->
  spec_step f (abs st) o (choice_of f st o) = (abs (fst (step f st o)), fst (snd (step f st o))).
Proof. intros H. apply step_ok. exact H. Qed.

(* the relational input of the spec is never rejected *)
Lemma step_not_bad f st o : Inv f st -> fst (snd (step f st o)) <> RBad.
Proof.
  intros _. destruct o; unfold step; cbv beta iota zeta;
    repeat match goal with
           | |- context [match ?x with _ => _ end] => destruct x
           end; cbn [fst snd]; discriminate.
Qed.

(* ---- all histories ---------------------------------------------------------------------------------------- *)
Lemma run_inv_from f ops : forall st, Inv f st -> Inv f (run f st ops).
Proof. induction ops as [|o ops IH]; intros st H; cbn [run]; auto. apply IH, step_inv, H. Qed.

Lemma run_inv f ops : Inv f (run f m_init ops).
Proof. apply run_inv_from, inv_init. Qed.

(* results of a history, model side and reference side (the reference takes the model's choice of
   position for hinted MultiMap inserts as an input and checks it) *)
Fixpoint m_trace (f : flavour) (st : mstate) (ops : list op) : list res :=
  match ops with
  | [] => []
  | o :: rest => fst (snd (step f st o)) :: m_trace f (fst (step f st o)) rest
  end.

Fixpoint s_trace (f : flavour) (sp : sstate) (ops : list op) (choices : list nat) : list res * sstate :=
  match ops with
  | [] => ([], sp)
  | o :: rest =>
      let '(sp', r) := spec_step f sp o (hd O choices) in
      let '(rs, fin) := s_trace f sp' rest (tl choices) in (r :: rs, fin)
  end.

Fixpoint m_choices (f : flavour) (st : mstate) (ops : list op) : list nat :=
  match ops with
  | [] => []
  | o :: rest => choice_of f st o :: m_choices f (fst (step f st o)) rest
  end.

Lemma trace_refines_from f ops : forall st,
  Inv f st ->
  s_trace f (abs st) ops (m_choices f st ops) = (m_trace f st ops, abs (run f st ops)).
Proof.
  induction ops as [|o ops IH]; intros st H; cbn [s_trace m_choices m_trace run hd tl]; [reflexivity|].
  rewrite (step_refines f st o H). rewrite (IH _ (step_inv f st o H)). reflexivity.
Qed.

Lemma trace_refines f ops :
  s_trace f s_init ops (m_choices f m_init ops) = (m_trace f m_init ops, abs (run f m_init ops)).
Proof. rewrite <- abs_init. apply trace_refines_from, inv_init. Qed.

Lemma trace_not_bad f ops : forall st, Inv f st -> ~ In RBad (m_trace f st ops).
Proof.
  induction ops as [|o ops IH]; intros st H; cbn [m_trace]; [intros []|].
  intros [Hb|Hb]; [exact (step_not_bad f st o H Hb)|exact (IH _ (step_inv f st o H) Hb)].
Qed.

Lemma trace_not_bad_init f ops : ~ In RBad (m_trace f m_init ops).
Proof. apply trace_not_bad, inv_init. Qed.

(* ---- the clauses of the property, spelled out on reachable states ------------------------------------------- *)
Lemma reachable_sorted f ops :
  let c := m_sel (run f m_init ops) in
  sorted f (inorder (tr c)) /\ sz c = length (inorder (tr c)).
Proof.
  cbv zeta. destruct (inv_sel _ _ (run_inv f ops)) as ((Hb & Hs) & Hsz). split; auto.
  rewrite Hsz. apply size_inorder.
Qed.

Lemma reachable_balanced f ops :
  let t := tr (m_sel (run f m_init ops)) in bal t /\ ht t = height t.
Proof.
  cbv zeta. destruct (inv_sel _ _ (run_inv f ops)) as ((Hb & Hs) & Hsz). split; auto. apply bal_ht_height, Hb.
Qed.

(* MultiMap, plain insert: the new entry goes after every entry with a key <= k (so after all
   equal keys inserted earlier) and nothing else moves *)
Lemma multimap_insert_after_equal ops k v :
  let st := run FMulti m_init ops in
  let l := inorder (tr (m_sel st)) in
  let st' := fst (step FMulti st (OIns k v)) in
  inorder (tr (m_sel st')) =
    filter (fun e => ekey e <=? k) l ++ (k, v, m_next st) :: filter (fun e => negb (ekey e <=? k)) l.
Proof.
  cbv zeta. set (st := run FMulti m_init ops).
  pose proof (run_inv FMulti ops) as HI. fold st in HI.
  pose proof (step_refines FMulti st (OIns k v) HI) as Hr.
  destruct (inv_sel _ _ HI) as ((Hb & Hs) & Hsz).
  unfold spec_step in Hr. cbv beta iota zeta in Hr. unfold s_insert in Hr. rewrite sel_abs, next_abs in Hr.
  apply (f_equal fst) in Hr. cbn [fst] in Hr. apply (f_equal s_sel) in Hr. rewrite sel_abs in Hr.
  rewrite <- Hr. clear Hr.
  assert (Hsel : forall l n, s_sel (s_set (abs st) l n) = l).
  { intros l n. unfold s_sel, s_set. destruct (s_cur (abs st)); reflexivity. }
  rewrite Hsel. clear Hsel.
  induction (inorder (tr (m_sel st))) as [|e l IH]; [reflexivity|].
  destruct Hs as (He & Hs). specialize (IH Hs). cbn [ins_list filter].
  destruct (k <? ekey e) eqn:E1.
  - replace (ekey e <=? k) with false by lia. cbn [negb app].
    rewrite (filter_none (fun e0 => ekey e0 <=? k) l), (filter_all (fun e0 => negb (ekey e0 <=? k)) l); [reflexivity| |];
      intros x Hx; specialize (He x Hx); cbn [klt] in He; lia.
  - replace (ekey e <=? k) with true by lia. cbn [negb app]. rewrite IH. reflexivity.
Qed.

(* ---- copy construction / operator=, both flavours ---------------------------------------------------------- *)
Definition kv (e : entry) : Z * Z := (ekey e, eval e).

Lemma renumber_kv n l : map kv (renumber n l) = map kv l.
Proof. revert n. induction l as [|e l IH]; intros n; cbn [renumber map]; [reflexivity|]. rewrite IH. reflexivity. Qed.

Lemma renumber_slots n l : map eslot (renumber n l) = seq n (length l).
Proof. revert n. induction l as [|e l IH]; intros n; cbn [renumber map length seq]; [reflexivity|]. rewrite IH. reflexivity. Qed.

Lemma s_sel_set sp l n : s_sel (s_set sp l n) = l.
Proof. unfold s_sel, s_set. destruct (s_cur sp); reflexivity. Qed.
Lemma s_other_set sp l n : s_other (s_set sp l n) = s_other sp.
Proof. unfold s_other, s_set. destruct (s_cur sp); reflexivity. Qed.

(* the copy holds the keys and values of the source in the source's order (so every run of equal
   keys of a MultiMap keeps its order), its entries are new (slots n, n+1, ...), the source is untouched *)
Lemma copy_sequence f ops :
  let st := run f m_init ops in
  let st' := fst (step f st OCopy) in
  map kv (inorder (tr (m_sel st'))) = map kv (inorder (tr (m_other st))) /\
  map eslot (inorder (tr (m_sel st'))) = seq (m_next st) (length (inorder (tr (m_other st)))) /\
  inorder (tr (m_other st')) = inorder (tr (m_other st)) /\
  sz (m_sel st') = sz (m_other st).
Proof.
  cbv zeta. set (st := run f m_init ops).
  pose proof (run_inv f ops) as HI. fold st in HI.
  pose proof (step_refines f st OCopy HI) as Hr. pose proof (step_inv f st OCopy HI) as HI'.
  unfold spec_step in Hr. cbv beta iota zeta in Hr. rewrite other_abs, next_abs in Hr.
  apply (f_equal fst) in Hr. cbn [fst] in Hr.
  pose proof (f_equal s_sel Hr) as H1. pose proof (f_equal s_other Hr) as H2.
  rewrite s_sel_set, sel_abs in H1. rewrite s_other_set, !other_abs in H2.
  rewrite <- H1, <- H2. rewrite renumber_kv, renumber_slots. repeat split.
  destruct (inv_sel _ _ HI') as (_ & Hsz'). destruct (inv_other _ _ HI) as (_ & Hsz).
  rewrite Hsz', Hsz, !size_inorder, <- H1. clear. generalize (m_next st).
  induction (inorder (tr (m_other st))) as [|e l IH]; intros n; cbn [renumber length]; [reflexivity|]. rewrite IH. reflexivity.
Qed.

(* ---- the relational input of the reference (position of a hinted MultiMap insert) ---------------------------- *)
Lemma hint_choice_valid ops pos k v :
  let st := run FMulti m_init ops in
  valid_pos k (choice_of FMulti st (OHint pos k v)) (inorder (tr (m_sel st))) = true.
Proof.
  cbv zeta. set (st := run FMulti m_init ops).
  pose proof (inv_sel _ _ (run_inv FMulti ops)) as Hsel. fold st in Hsel.
  destruct (c_insert_hint_multi pos k v (m_sel st) (m_next st) Hsel) as (_ & Hv & _).
  unfold choice_of. destruct (c_insert_hint FMulti pos k v (m_sel st) (m_next st)) as [[c' n'] rk]. exact Hv.
Qed.

Lemma spec_trace_not_bad f ops : ~ In RBad (fst (s_trace f s_init ops (m_choices f m_init ops))).
Proof. rewrite trace_refines. cbn [fst]. apply trace_not_bad_init. Qed.

(* ---- remove(key) removes exactly one entry: the first of the run of equal keys --------------------------------- *)
Lemma count_list_cons k e l : count_list k (e :: l) = if ekey e =? k then S (count_list k l) else count_list k l.
Proof. unfold count_list. cbn [filter]. destruct (ekey e =? k); reflexivity. Qed.

Lemma count_remove_found k k' l : forall i,
  find_list k l = Some i ->
  count_list k' (remove_nth i l) = if k' =? k then pred (count_list k' l) else count_list k' l.
Proof.
  induction l as [|e l IH]; intros i; cbn [find_list]; [discriminate|].
  destruct (ekey e =? k) eqn:E.
  - intros [= <-]. cbn [remove_nth]. rewrite count_list_cons.
    destruct (k' =? k) eqn:E2.
    + replace (ekey e =? k') with true by lia. reflexivity.
    + replace (ekey e =? k') with false by lia. reflexivity.
  - destruct (find_list k l) as [j|]; cbn [option_map]; [|discriminate]. intros [= <-].
    cbn [remove_nth]. rewrite !count_list_cons, (IH j eq_refl).
    destruct (k' =? k) eqn:E2; [|reflexivity].
    replace (ekey e =? k') with false by lia. reflexivity.
Qed.

Lemma remove_key_one f ops k :
  let st := run f m_init ops in
  let l := inorder (tr (m_sel st)) in
  let l' := inorder (tr (m_sel (fst (step f st (ORemKey k))))) in
  match find_list k l with Some i => l' = remove_nth i l | None => l' = l end /\
  forall k', count_list k' l' = if k' =? k then pred (count_list k' l) else count_list k' l.
Proof.
  cbv zeta. set (st := run f m_init ops).
  pose proof (run_inv f ops) as HI. fold st in HI.
  pose proof (step_refines f st (ORemKey k) HI) as Hr.
  destruct (inv_sel _ _ HI) as ((Hb & Hs) & Hsz).
  unfold spec_step, choice_of in Hr. cbv beta iota zeta in Hr. rewrite sel_abs, next_abs in Hr.
  rewrite (find_rank_list f) in Hr by exact Hs. rewrite has_key_find in Hr.
  apply (f_equal fst) in Hr. cbn [fst] in Hr. apply (f_equal s_sel) in Hr. rewrite sel_abs in Hr.
  rewrite <- Hr. clear Hr.
  destruct (find_list k (inorder (tr (m_sel st)))) as [i|] eqn:E.
  - destruct (find_list_nth _ _ _ E) as (e & Hn & Hk & _).
    assert (Hka : key_at k i (inorder (tr (m_sel st))) = true) by (unfold key_at; rewrite Hn; lia).
    rewrite Hka. destruct f; cbn [fst]; rewrite s_sel_set; (split; [reflexivity|]); intros k'; apply count_remove_found; exact E.
  - assert (Hno : forall k', count_list k' (inorder (tr (m_sel st))) =
                   if k' =? k then pred (count_list k' (inorder (tr (m_sel st)))) else count_list k' (inorder (tr (m_sel st)))).
    { intros k'. destruct (k' =? k) eqn:E2; [|reflexivity].
      assert (k' = k) by lia. subst k'.
      rewrite count_list_none; [reflexivity|]. apply find_list_none. exact E. }
    destruct f; cbn [fst]; rewrite sel_abs; (split; [reflexivity|exact Hno]).
Qed.

(* ---- the relational input of the reference (which entry of a run of equal keys remove(key) takes) -------------- *)
Lemma key_at_cons k e l i : key_at k (S i) (e :: l) = key_at k i l.
Proof. reflexivity. Qed.

Lemma key_at_count k l : forall i, key_at k i l = true -> (0 < count_list k l)%nat.
Proof.
  induction l as [|e l IH]; intros i; [destruct i; discriminate|].
  rewrite count_list_cons. destruct i as [|i].
  - unfold key_at. cbn [nth_error]. intros H. rewrite H. lia.
  - rewrite key_at_cons. intros H. specialize (IH i H). destruct (ekey e =? k); lia.
Qed.

Lemma key_at_lt k l i : key_at k i l = true -> (i < length l)%nat.
Proof.
  unfold key_at. intros H. apply nth_error_Some. destruct (nth_error l i); [discriminate|discriminate H].
Qed.

Lemma count_remove_at k k' l : forall i,
  key_at k i l = true ->
  count_list k' (remove_nth i l) = if k' =? k then pred (count_list k' l) else count_list k' l.
Proof.
  induction l as [|e l IH]; intros i; [destruct i; discriminate|].
  destruct i as [|i].
  - unfold key_at. cbn [nth_error remove_nth]. intros H. rewrite count_list_cons.
    destruct (k' =? k) eqn:E2.
    + replace (ekey e =? k') with true by lia. reflexivity.
    + replace (ekey e =? k') with false by lia. reflexivity.
  - rewrite key_at_cons. intros H. cbn [remove_nth]. rewrite !count_list_cons, (IH i H).
    destruct (k' =? k) eqn:E2; [|reflexivity].
    destruct (ekey e =? k') eqn:E3; [|reflexivity].
    assert (k' = k) by lia. subst k'. pose proof (key_at_count k l i H). lia.
Qed.

(* Whatever entry with key k the container decides to remove, the reference accepts the decision and answers with
   the sorted multimap that has exactly that entry less: the count of k drops by one, every other count and the
   other container stay; when k is present, a rank that does not hold k (or no rank) is rejected; when k is
   absent nothing happens. *)
Lemma spec_remove_key_choice sp k c :
  let l := s_sel sp in
  let sp' := fst (spec_step FMulti sp (ORemKey k) c) in
  let r := snd (spec_step FMulti sp (ORemKey k) c) in
  sorted FMulti l ->
  (key_at k c l = true ->
     r = RNone /\ s_sel sp' = remove_nth c l /\ sorted FMulti (s_sel sp') /\ length (s_sel sp') = pred (length l) /\
     s_other sp' = s_other sp /\
     forall k', count_list k' (s_sel sp') = if k' =? k then pred (count_list k' l) else count_list k' l) /\
  (has_key k l = true -> key_at k c l = false -> r = RBad /\ sp' = sp) /\
  (has_key k l = false -> r = RNone /\ sp' = sp).
Proof.
  cbv zeta. intros Hs. unfold spec_step. cbv beta iota zeta. repeat split.
  - destruct (has_key k (s_sel sp)) eqn:Eh; [rewrite H; reflexivity|].
    pose proof (key_at_count _ _ _ H) as Hc. rewrite has_key_find in Eh.
    destruct (find_list k (s_sel sp)) eqn:Ef; [discriminate|].
    rewrite count_list_none in Hc; [lia|]. apply find_list_none. exact Ef.
  - assert (Eh : has_key k (s_sel sp) = true).
    { rewrite has_key_find. destruct (find_list k (s_sel sp)) eqn:Ef; [reflexivity|].
      pose proof (key_at_count _ _ _ H) as Hc. rewrite count_list_none in Hc; [lia|]. apply find_list_none. exact Ef. }
    rewrite Eh, H. cbn [fst]. apply s_sel_set.
  - assert (Eh : has_key k (s_sel sp) = true).
    { rewrite has_key_find. destruct (find_list k (s_sel sp)) eqn:Ef; [reflexivity|].
      pose proof (key_at_count _ _ _ H) as Hc. rewrite count_list_none in Hc; [lia|]. apply find_list_none. exact Ef. }
    rewrite Eh, H. cbn [fst]. rewrite s_sel_set. apply sorted_remove_nth. exact Hs.
  - assert (Eh : has_key k (s_sel sp) = true).
    { rewrite has_key_find. destruct (find_list k (s_sel sp)) eqn:Ef; [reflexivity|].
      pose proof (key_at_count _ _ _ H) as Hc. rewrite count_list_none in Hc; [lia|]. apply find_list_none. exact Ef. }
    rewrite Eh, H. cbn [fst]. rewrite s_sel_set. apply length_remove_nth, (key_at_lt k). exact H.
  - assert (Eh : has_key k (s_sel sp) = true).
    { rewrite has_key_find. destruct (find_list k (s_sel sp)) eqn:Ef; [reflexivity|].
      pose proof (key_at_count _ _ _ H) as Hc. rewrite count_list_none in Hc; [lia|]. apply find_list_none. exact Ef. }
    rewrite Eh, H. cbn [fst]. apply s_other_set.
  - intros k'.
    assert (Eh : has_key k (s_sel sp) = true).
    { rewrite has_key_find. destruct (find_list k (s_sel sp)) eqn:Ef; [reflexivity|].
      pose proof (key_at_count _ _ _ H) as Hc. rewrite count_list_none in Hc; [lia|]. apply find_list_none. exact Ef. }
    rewrite Eh, H. cbn [fst]. rewrite s_sel_set. apply count_remove_at. exact H.
  - rewrite H, H0. reflexivity.
  - rewrite H, H0. reflexivity.
  - rewrite H. reflexivity.
  - rewrite H. reflexivity.
Qed.

(* the rank the model's remove(key) takes is such a choice, in every reachable state *)
Lemma remove_key_choice_valid ops k :
  let st := run FMulti m_init ops in
  let l := inorder (tr (m_sel st)) in
  has_key k l = true -> key_at k (choice_of FMulti st (ORemKey k)) l = true.
Proof.
  cbv zeta. set (st := run FMulti m_init ops).
  destruct (inv_sel _ _ (run_inv FMulti ops)) as ((Hb & Hs) & Hsz). fold st in Hs.
  unfold choice_of. rewrite (find_rank_list FMulti) by exact Hs. rewrite has_key_find.
  destruct (find_list k (inorder (tr (m_sel st)))) as [i|] eqn:E; [|discriminate]. intros _.
  destruct (find_list_nth _ _ _ E) as (e & Hn & Hk & _). unfold key_at. rewrite Hn. lia.
Qed.

(* ---- example histories used by the non-vacuity Examples of Properties_C01.v -------------------------------- *)
Definition ex_ops_map : list op :=
  [OIns 5 50; OIns 3 30; OIns 8 80; OIns 1 10; OIns 4 40; OIns 7 70; OIns 9 90; OIns 2 20;
   OHint 0 0 1; OHint 99 10 100; OHint 3 3 33; ORemAt 4; ORemKey 5; OFind 9; OHas 5; OCount 3;
   OFront; OBack; ORemFront; ORemBack; OSel true; OIns 100 1; OIns 4 44; OBulk; OSel false; OCopy; OSelf].
Definition ex_ops_multi : list op :=
  [OIns 5 1; OIns 5 2; OIns 3 3; OIns 5 4; OHint 1 5 5; OHint 0 3 6; OHint 9 7 7; OIns 3 8;
   OCount 5; OFind 5; ORemKey 5; OCount 5; OFind 3; ORemAt 2; OBack].
(* MultiMap copy / assignment of a container with runs of equal keys, in both directions *)
Definition ex_ops_multi_copy : list op :=
  ex_ops_multi ++ [OSel true; OIns 9 9; OCopy; OIns 5 10; OSelf; OSel false; OCopy].

