(* Executable model of include/nstd/Map.hpp and MultiMap.hpp (the MultiMap after the repair of
   find/count, see fixes/C01).  No proofs in this file.

   tree  = the Item graph reachable from `root`, with the STORED height of every Item.
   The threaded prev/next list of the code is the in-order sequence of the tree (the harness
   checks that on the real object after every operation), so neighbour look-ups (`item->prev`,
   `item->next`, `_end.item->prev`, `_begin`) are look-ups in [inorder t], and an iterator is the
   rank of its Item in iteration order.
   The code's "stop going up when the height did not change" shortcuts are not modelled: the
   model re-balances every node on the way back to the root; on a correct shortcut that
   computes the same tree, and the harness compares shape and stored heights after every op. *)
From Coq Require Import ZArith List Bool Arith.
From Avl Require Import AvlSpec.
Import ListNotations.
Local Open Scope Z_scope.

Inductive tree := Leaf | Node (l : tree) (k v : Z) (s : nat) (h : nat) (r : tree).

Definition ht (t : tree) : nat := match t with Leaf => O | Node _ _ _ _ h _ => h end.
(* Item::updateHeightAndSlope *)
Definition mk (l : tree) (k v : Z) (s : nat) (r : tree) : tree := Node l k v s (S (Nat.max (ht l) (ht r))) r.
Definition slope (t : tree) : Z :=
  match t with Leaf => 0 | Node l _ _ _ _ r => Z.of_nat (ht l) - Z.of_nat (ht r) end.

Fixpoint size (t : tree) : nat :=
  match t with Leaf => O | Node l _ _ _ _ r => (size l + 1 + size r)%nat end.
Fixpoint inorder (t : tree) : list entry :=
  match t with Leaf => [] | Node l k v s _ r => inorder l ++ (k, v, s) :: inorder r end.

(* ---- rotations (Map.hpp:471-540) -------------------------------------------------------- *)
Definition rotr (t : tree) : tree :=
  match t with
  | Node (Node a k1 v1 s1 _ b) k2 v2 s2 _ c => mk a k1 v1 s1 (mk b k2 v2 s2 c)
  | _ => t
  end.
Definition rotl (t : tree) : tree :=
  match t with
  | Node a k1 v1 s1 _ (Node b k2 v2 s2 _ c) => mk (mk a k1 v1 s1 b) k2 v2 s2 c
  | _ => t
  end.
Definition shiftr (t : tree) : tree :=
  match t with
  | Node l k v s h r => rotr (if slope l =? -1 then Node (rotl l) k v s h r else t)
  | Leaf => t
  end.
Definition shiftl (t : tree) : tree :=
  match t with
  | Node l k v s h r => rotl (if slope r =? 1 then Node l k v s h (rotr r) else t)
  | Leaf => t
  end.
Definition rebal (t : tree) : tree :=
  if slope t >? 1 then shiftr t else if slope t <? -1 then shiftl t else t.

(* ---- descending insert (Map.hpp:389-469 / MultiMap.hpp) --------------------------------- *)
Fixpoint ins (f : flavour) (k v : Z) (s : nat) (t : tree) : tree :=
  match t with
  | Leaf => Node Leaf k v s 1 Leaf
  | Node l k' v' s' h r =>
      match f with
      | FMap =>
          if k >? k' then rebal (mk l k' v' s' (ins f k v s r))
          else if k <? k' then rebal (mk (ins f k v s l) k' v' s' r)
          else Node l k' v s' h r
      | FMulti =>
          if k <? k' then rebal (mk (ins f k v s l) k' v' s' r)
          else rebal (mk l k' v' s' (ins f k v s r))
      end
  end.

(* rank (in iteration order) of the Item that insert returns *)
Fixpoint ins_rank (f : flavour) (k : Z) (t : tree) : nat :=
  match t with
  | Leaf => O
  | Node l k' _ _ _ r =>
      match f with
      | FMap =>
          if k >? k' then (size l + 1 + ins_rank f k r)%nat
          else if k <? k' then ins_rank f k l
          else size l
      | FMulti =>
          if k <? k' then ins_rank f k l else (size l + 1 + ins_rank f k r)%nat
      end
  end.

(* does that insert create a new Item (++_size) ? *)
Fixpoint ins_new (f : flavour) (k : Z) (t : tree) : bool :=
  match t with
  | Leaf => true
  | Node l k' _ _ _ r =>
      match f with
      | FMap => if k >? k' then ins_new f k r else if k <? k' then ins_new f k l else false
      | FMulti => if k <? k' then ins_new f k l else ins_new f k r
      end
  end.

(* insert(&hint->left / &hint->right, hint, key, value): the hint is the Item of rank [rank];
   descend from its left (side = false) or right (side = true) cell, re-balance up to the root *)
Fixpoint ins_at (f : flavour) (rank : nat) (side : bool) (k v : Z) (s : nat) (t : tree) : tree :=
  match t with
  | Leaf => Leaf
  | Node l k' v' s' h r =>
      let n := size l in
      if (rank <? n)%nat then rebal (mk (ins_at f rank side k v s l) k' v' s' r)
      else if (rank =? n)%nat then
        (if side then rebal (mk l k' v' s' (ins f k v s r)) else rebal (mk (ins f k v s l) k' v' s' r))
      else rebal (mk l k' v' s' (ins_at f (rank - n - 1) side k v s r))
  end.

Fixpoint rank_at (f : flavour) (rank : nat) (side : bool) (k : Z) (t : tree) : nat :=
  match t with
  | Leaf => O
  | Node l _ _ _ _ r =>
      let n := size l in
      if (rank <? n)%nat then rank_at f rank side k l
      else if (rank =? n)%nat then (if side then n + 1 + ins_rank f k r else ins_rank f k l)%nat
      else (n + 1 + rank_at f (rank - n - 1) side k r)%nat
  end.

Fixpoint new_at (f : flavour) (rank : nat) (side : bool) (k : Z) (t : tree) : bool :=
  match t with
  | Leaf => false
  | Node l _ _ _ _ r =>
      let n := size l in
      if (rank <? n)%nat then new_at f rank side k l
      else if (rank =? n)%nat then (if side then ins_new f k r else ins_new f k l)
      else new_at f (rank - n - 1) side k r
  end.

(* insertPos->value = value  (Map.hpp:148) *)
Fixpoint set_val_at (rank : nat) (v : Z) (t : tree) : tree :=
  match t with
  | Leaf => Leaf
  | Node l k' v' s' h r =>
      let n := size l in
      if (rank <? n)%nat then Node (set_val_at rank v l) k' v' s' h r
      else if (rank =? n)%nat then Node l k' v s' h r
      else Node l k' v' s' h (set_val_at (rank - n - 1) v r)
  end.

(* ---- removal (Map.hpp:195-346) ---------------------------------------------------------- *)
(* unlink the in-order first / last Item of the subtree Node l k v s _ r, re-balancing the spine *)
Fixpoint pop_min (l : tree) (k v : Z) (s : nat) (r : tree) : entry * tree :=
  match l with
  | Leaf => ((k, v, s), r)
  | Node ll lk lv ls _ lr =>
      let '(e, l') := pop_min ll lk lv ls lr in (e, rebal (mk l' k v s r))
  end.
Fixpoint pop_max (l : tree) (k v : Z) (s : nat) (r : tree) : entry * tree :=
  match r with
  | Leaf => ((k, v, s), l)
  | Node rl rk rv rs _ rr =>
      let '(e, r') := pop_max rl rk rv rs rr in (e, rebal (mk l k v s r'))
  end.

Definition remove_root (l r : tree) : tree :=
  match l, r with
  | Leaf, Leaf => Leaf
  | Leaf, _ => r
  | _, Leaf => l
  | Node ll lk lv ls _ lr, Node rl rk rv rs _ rr =>
      if (ht l <? ht r)%nat
      then let '(e, r') := pop_min rl rk rv rs rr in rebal (mk l (ekey e) (eval e) (eslot e) r')
      else let '(e, l') := pop_max ll lk lv ls lr in rebal (mk l' (ekey e) (eval e) (eslot e) r)
  end.

Fixpoint remove_rank (i : nat) (t : tree) : tree :=
  match t with
  | Leaf => Leaf
  | Node l k v s h r =>
      let n := size l in
      if (i <? n)%nat then rebal (mk (remove_rank i l) k v s r)
      else if (i =? n)%nat then remove_root l r
      else rebal (mk l k v s (remove_rank (i - n - 1) r))
  end.

(* ---- find / count ------------------------------------------------------------------------ *)
(* Map::find: first equal key met on the descent.  MultiMap::find (repaired): keeps descending
   to the left after a match, so it returns the first Item of the run of equal keys. *)
Fixpoint find_rank (f : flavour) (k : Z) (t : tree) : option nat :=
  match t with
  | Leaf => None
  | Node l k' _ _ _ r =>
      if k >? k' then option_map (fun i => (size l + 1 + i)%nat) (find_rank f k r)
      else if k <? k' then find_rank f k l
      else match f with
           | FMap => Some (size l)
           | FMulti => match find_rank f k l with Some i => Some i | None => Some (size l) end
           end
  end.

(* number of key comparisons find performs: `key > item->key`, then `key < item->key` *)
Fixpoint find_cmps (f : flavour) (k : Z) (t : tree) : nat :=
  match t with
  | Leaf => O
  | Node l k' _ _ _ r =>
      if k >? k' then S (find_cmps f k r)
      else if k <? k' then S (S (find_cmps f k l))
      else match f with FMap => 2%nat | FMulti => S (S (find_cmps f k l)) end
  end.

(* MultiMap::count (repaired): from find's Item walk `next` while not at end and key equal *)
Fixpoint run_len (k : Z) (l : list entry) : nat :=
  match l with
  | e :: t => if ekey e =? k then S (run_len k t) else O
  | [] => O
  end.
Definition count_model (f : flavour) (k : Z) (t : tree) : nat :=
  match find_rank f k t with
  | None => O
  | Some i => S (run_len k (skipn (S i) (inorder t)))
  end.

(* ---- the containers ---------------------------------------------------------------------- *)
Record cont := { tr : tree; sz : nat }.          (* root, _size *)
Definition c_empty : cont := {| tr := Leaf; sz := O |}.
Definition bump (b : bool) (n : nat) : nat := if b then S n else n.

(* insert(key, value): container, slot counter, rank of the returned iterator *)
Definition c_insert (f : flavour) (k v : Z) (c : cont) (n : nat) : cont * nat * nat :=
  let nw := ins_new f k (tr c) in
  ({| tr := ins f k v n (tr c); sz := bump nw (sz c) |}, bump nw n, ins_rank f k (tr c)).

Definition gt_prev (f : flavour) (k p : Z) : bool := match f with FMap => k >? p | FMulti => k >=? p end.
Definition lt_next (f : flavour) (k x : Z) : bool := match f with FMap => k <? x | FMulti => k <=? x end.

(* insert(position, key, value)  (Map.hpp:123-153, MultiMap.hpp:117-140) *)
Definition c_insert_hint (f : flavour) (pos : nat) (k v : Z) (c : cont) (n : nat) : cont * nat * nat :=
  let t := tr c in
  let es := inorder t in
  let under (rank : nat) (side : bool) :=
    let nw := new_at f rank side k t in
    ({| tr := ins_at f rank side k v n t; sz := bump nw (sz c) |}, bump nw n, rank_at f rank side k t) in
  let plain := c_insert f k v c n in
  match nth_error es pos with
  | None =>                                        (* position == end() *)
      match last_error es with
      | Some p => if k >? ekey p then under (length es - 1)%nat true else plain
      | None => plain
      end
  | Some x =>
      if k <? ekey x then
        match (match pos with O => None | S p => nth_error es p end) with
        | None => under pos false
        | Some p => if gt_prev f k (ekey p) then under pos false else plain
        end
      else if (match f with FMap => k >? ekey x | FMulti => true end) then
        match nth_error es (S pos) with
        | None => under pos true
        | Some nx => if lt_next f k (ekey nx) then under pos true else plain
        end
      else ({| tr := set_val_at pos v t; sz := sz c |}, n, pos)
  end.

(* copy constructor / operator= (after clear()): plain inserts of the source's entries in iteration
   order, Map.hpp:44-51,65-73 and MultiMap.hpp:44-51,64-72 *)
Definition c_copy (f : flavour) (src : cont) (n : nat) : cont * nat :=
  fold_left (fun acc e => let '(c1, n1, _) := c_insert f (ekey e) (eval e) (fst acc) (snd acc) in (c1, n1))
            (inorder (tr src)) (c_empty, n).

Definition c_bulk (f : flavour) (src : cont) (c : cont) (n : nat) : cont * nat :=
  match inorder (tr src) with
  | [] => (c, n)
  | e :: rest =>
      let '(c2, n2, _) :=
        fold_left (fun acc e => let '(c1, n1, r1) := acc in c_insert_hint f r1 (ekey e) (eval e) c1 n1)
                  rest (c_insert f (ekey e) (eval e) c n) in
      (c2, n2)
  end.

Record mstate := { m_a : cont; m_b : cont; m_cur : bool; m_next : nat }.
Definition m_init : mstate := {| m_a := c_empty; m_b := c_empty; m_cur := false; m_next := O |}.
Definition m_sel (st : mstate) : cont := if m_cur st then m_b st else m_a st.
Definition m_other (st : mstate) : cont := if m_cur st then m_a st else m_b st.
Definition m_set (st : mstate) (c : cont) (n : nat) : mstate :=
  if m_cur st then {| m_a := m_a st; m_b := c; m_cur := true; m_next := n |}
  else {| m_a := c; m_b := m_b st; m_cur := false; m_next := n |}.

Definition c_remove (i : nat) (c : cont) : cont := {| tr := remove_rank i (tr c); sz := pred (sz c) |}.

(* result, number of key comparisons made by find (0 for the other operations) *)
Definition step (f : flavour) (st : mstate) (o : op) : mstate * (res * nat) :=
  let c := m_sel st in
  let t := tr c in
  let n := m_next st in
  match o with
  | OIns k v =>
      let '(c', n', rk) := c_insert f k v c n in (m_set st c' n', (RIter (itr_at (inorder (tr c')) rk), O))
  | OHint pos k v =>
      let '(c', n', rk) := c_insert_hint f pos k v c n in (m_set st c' n', (RIter (itr_at (inorder (tr c')) rk), O))
  | ORemKey k =>
      match find_rank f k t with
      | Some i => (m_set st (c_remove i c) n, (RNone, O))
      | None => (st, (RNone, O))
      end
  | ORemAt pos =>
      match nth_error (inorder t) pos with
      | Some _ => let c' := c_remove pos c in (m_set st c' n, (RIter (itr_at (inorder (tr c')) pos), O))
      | None => (st, (RNone, O))
      end
  | ORemFront =>
      match t with
      | Leaf => (st, (RNone, O))
      | _ => let c' := c_remove O c in (m_set st c' n, (RIter (itr_at (inorder (tr c')) O), O))
      end
  | ORemBack =>
      match t with
      | Leaf => (st, (RNone, O))
      | _ => (m_set st (c_remove (size t - 1) c) n, (RIter IEnd, O))
      end
  | OClear => (m_set st c_empty n, (RNone, O))
  | OFind k =>
      (st, (RIter (match find_rank f k t with Some i => itr_at (inorder t) i | None => IEnd end), find_cmps f k t))
  | OHas k => (st, (RBool (match find_rank f k t with Some _ => true | None => false end), O))
  | OCount k => (st, (RNat (count_model f k t), O))
  | OFront => (st, (RVal (option_map eval (hd_error (inorder t))), O))
  | OBack => (st, (RVal (option_map eval (last_error (inorder t))), O))
  | OSel b => ({| m_a := m_a st; m_b := m_b st; m_cur := b; m_next := n |}, (RNone, O))
  | OCopy => let '(c', n') := c_copy f (m_other st) n in (m_set st c' n', (RNone, O))
  | OBulk =>
      match f with
      | FMap => let '(c', n') := c_bulk f (m_other st) c n in (m_set st c' n', (RNone, O))
      | FMulti => (st, (RNone, O))
      end
  | OSelf => (st, (RNone, O))       (* `if(this == &other) return *this;` *)
  end.

(* the inputs of the relational spec: the position the hinted MultiMap insert chose, the rank of the
   entry remove(key) removed *)
Definition choice_of (f : flavour) (st : mstate) (o : op) : nat :=
  match o with
  | OHint pos k v => let '(_, _, rk) := c_insert_hint f pos k v (m_sel st) (m_next st) in rk
  | ORemKey k => match find_rank f k (tr (m_sel st)) with Some i => i | None => O end
  | _ => O
  end.

Fixpoint run (f : flavour) (st : mstate) (ops : list op) : mstate :=
  match ops with [] => st | o :: rest => run f (fst (step f st o)) rest end.
