(* Property C01 - "Map and MultiMap stay sorted, complete and logarithmically deep".
   Only statements closed by `exact`, each followed by Print Assumptions, plus non-vacuity Examples.

   Objects.  Model = AvlModel (tree with STORED heights, rebal/shiftl/shiftr/rotl/rotr, descending
   insert, hinted insert with the code's four neighbour tests, removal with the code's
   successor/predecessor choice, find/count, copy = sequential inserts, insert(other) = plain +
   hinted inserts; two containers `a`/`b`, `OSel` selects).  Reference = AvlSpec (sorted list of
   (key, value, slot); slot = identity of the Item).  abs = in-order sequences of the two trees.
   Inv f st  =  for both containers:  bal (stored height = 1 + max of the children's stored heights,
   hence = real height [reachable_balanced]; heights of the two children differ by at most 1, at every
   node)  /\  sorted f (in-order sequence; strict for Map, non-strict for MultiMap)  /\  _size = number
   of nodes.

   Clause of the property text                                    -> theorem
   ------------------------------------------------------------------------------------------------
   "after any sequence of inserts (plain/hinted), removals by key/iterator, removeFront/removeBack,
    clear, copy and bulk insert"                                   -> all theorems quantify over
                                                                      `ops : list op` (every history)
   invariant holds initially / is kept by every operation         -> avl_invariant_initially,
                                                                      avl_invariant_preserved,
                                                                      avl_invariant_reachable
   rotations keep the order; re-balancing a node whose subtrees
   are balanced and differ by <= 2 restores balance               -> rebal_keeps_order, rebal_restores_balance
   "iterate their entries in ascending key order", size            -> reachable_sorted_and_counted
   "MultiMap keeps plainly inserted equal keys in insertion order" -> multimap_plain_insert_after_equal_keys
   "agree with a reference sorted (multi)map on size, contents,
    find/contains, count, front/back and the iterator each
    operation returns"                                             -> step_refines_reference (one op),
                                                                      history_refines_reference (all ops,
                                                                      results and final contents),
                                                                      reference_never_rejects (the position a
                                                                      hinted MultiMap insert chose is always one
                                                                      that keeps the sequence sorted)
   "finding any key among n entries needs at most
    2*floor(1.4405*log2(n+2)) key comparisons"                     -> find_cost_logarithmic (integer form, no
                                                                      axioms: floor(1.4405*log2 m) =
                                                                      Z.log2 (m^14405) / 10000),
                                                                      find_cost_logarithmic_real (ln/Int_part),
                                                                      height_logarithmic, fibonacci_size_bound
   Not theorems (validated by the correspondence run only): the threaded prev/next list equals the
   in-order walk, parent links, the stored `slope` field, and that the code's "stop when the height
   did not change" shortcuts compute the tree of the model (shape and stored heights are compared
   after every operation). *)
From Coq Require Import ZArith List Reals.
From Avl Require Import AvlSpec AvlModel AvlLists AvlBalance AvlOrder AvlInv AvlRefine AvlCost AvlCostReal.
Import ListNotations.
Local Open Scope Z_scope.

(* ---- (1) the invariant ------------------------------------------------------------------------------ *)
Theorem avl_invariant_initially : forall f, Inv f m_init.
Proof. exact inv_init. Qed.
Print Assumptions avl_invariant_initially.

Theorem avl_invariant_preserved : forall f st o, Inv f st -> Inv f (fst (step f st o)).
Proof. exact step_inv. Qed.
Print Assumptions avl_invariant_preserved.

Theorem avl_invariant_reachable : forall f ops, Inv f (run f m_init ops).
Proof. exact run_inv. Qed.
Print Assumptions avl_invariant_reachable.

Theorem rebal_keeps_order : forall t, inorder (rebal t) = inorder t.
Proof. exact inorder_rebal. Qed.
Print Assumptions rebal_keeps_order.

Theorem rebal_restores_balance : forall l k v s r,
  bal l -> bal r -> (ht l <= ht r + 2)%nat -> (ht r <= ht l + 2)%nat ->
  let t' := rebal (mk l k v s r) in
  bal t' /\ inorder t' = inorder l ++ (k, v, s) :: inorder r /\
  (ht t' <= S (Nat.max (ht l) (ht r)))%nat /\ (Nat.max (ht l) (ht r) <= ht t')%nat /\
  ((ht l <= S (ht r))%nat -> (ht r <= S (ht l))%nat -> t' = mk l k v s r).
Proof. exact rebal_spec. Qed.
Print Assumptions rebal_restores_balance.

Theorem reachable_sorted_and_counted : forall f ops,
  let c := m_sel (run f m_init ops) in
  sorted f (inorder (tr c)) /\ sz c = length (inorder (tr c)).
Proof. exact reachable_sorted. Qed.
Print Assumptions reachable_sorted_and_counted.

Theorem reachable_balanced_heights_exact : forall f ops,
  let t := tr (m_sel (run f m_init ops)) in bal t /\ ht t = height t.
Proof. exact reachable_balanced. Qed.
Print Assumptions reachable_balanced_heights_exact.

Theorem multimap_plain_insert_after_equal_keys : forall ops k v,
  let st := run FMulti m_init ops in
  let l := inorder (tr (m_sel st)) in
  let st' := fst (step FMulti st (OIns k v)) in
  inorder (tr (m_sel st')) =
    filter (fun e => ekey e <=? k) l ++ (k, v, m_next st) :: filter (fun e => negb (ekey e <=? k)) l.
Proof. exact multimap_insert_after_equal. Qed.
Print Assumptions multimap_plain_insert_after_equal_keys.

(* ---- (2) refinement ------------------------------------------------------------------------------------ *)
Theorem step_refines_reference : forall f st o,
  Inv f st ->
  spec_step f (abs st) o (choice_of f st o) = (abs (fst (step f st o)), fst (snd (step f st o))).
Proof. exact step_refines. Qed.
Print Assumptions step_refines_reference.

Theorem history_refines_reference : forall f ops,
  s_trace f s_init ops (m_choices f m_init ops) = (m_trace f m_init ops, abs (run f m_init ops)).
Proof. exact trace_refines. Qed.
Print Assumptions history_refines_reference.

Theorem reference_never_rejects : forall f ops, ~ In RBad (m_trace f m_init ops).
Proof. exact trace_not_bad_init. Qed.
Print Assumptions reference_never_rejects.

(* ---- (3) cost ------------------------------------------------------------------------------------------- *)
Theorem fibonacci_size_bound : forall t, bal t -> (fib (ht t + 2) <= size t + 1)%nat.
Proof. exact size_lower_bound. Qed.
Print Assumptions fibonacci_size_bound.

Theorem height_logarithmic : forall f ops,
  let t := tr (m_sel (run f m_init ops)) in
  Z.of_nat (height t) <= Z.log2 ((Z.of_nat (size t) + 2) ^ 14405) / 10000.
Proof. exact height_bound. Qed.
Print Assumptions height_logarithmic.

Theorem find_cost_logarithmic : forall f ops k,
  let st := run f m_init ops in
  Z.of_nat (snd (snd (step f st (OFind k)))) <= cost_bound (sz (m_sel st)).
Proof. exact find_cost. Qed.
Print Assumptions find_cost_logarithmic.

Theorem find_cost_logarithmic_real : forall f ops k,
  let st := run f m_init ops in
  Z.of_nat (snd (snd (step f st (OFind k)))) <= cost_bound_real (sz (m_sel st)).
Proof. exact find_cost_real. Qed.
Print Assumptions find_cost_logarithmic_real.

(* ---- non-vacuity ----------------------------------------------------------------------------------------- *)
(* a reachable Map state with rotations, two-child removal, hinted inserts, bulk insert and copy behind it *)
Example ex_reachable_map :
  tr (m_sel (run FMap m_init ex_ops_map)) =
    Node (Node (Node Leaf 1 10 18 1 Leaf) 2 20 19 2 (Node Leaf 3 33 20 1 Leaf)) 4 44 21 4
         (Node (Node Leaf 7 70 22 1 Leaf) 8 80 23 3 (Node Leaf 9 90 24 2 (Node Leaf 100 1 25 1 Leaf)))
  /\ sz (m_sel (run FMap m_init ex_ops_map)) = 8%nat.
Proof. vm_compute. split; reflexivity. Qed.

(* a reachable MultiMap state: runs of equal keys, hinted inserts inside a run *)
Example ex_reachable_multi :
  inorder (tr (m_sel (run FMulti m_init ex_ops_multi))) =
    [(3, 3, 2%nat); (3, 6, 5%nat); (5, 2, 1%nat); (5, 4, 3%nat); (5, 5, 4%nat); (7, 7, 6%nat)].
Proof. vm_compute. reflexivity. Qed.

(* the reference, run on the same history with the model's choices, produces these results *)
Example ex_trace_multi :
  fst (s_trace FMulti s_init ex_ops_multi (m_choices FMulti m_init ex_ops_multi)) =
    [RIter (IAt 0 (5, 1, 0%nat)); RIter (IAt 1 (5, 2, 1%nat)); RIter (IAt 0 (3, 3, 2%nat));
     RIter (IAt 3 (5, 4, 3%nat)); RIter (IAt 4 (5, 5, 4%nat)); RIter (IAt 1 (3, 6, 5%nat));
     RIter (IAt 6 (7, 7, 6%nat)); RIter (IAt 2 (3, 8, 7%nat)); RNat 4; RIter (IAt 3 (5, 1, 0%nat));
     RNone; RNat 3; RIter (IAt 0 (3, 3, 2%nat)); RIter (IAt 2 (5, 2, 1%nat)); RVal (Some 7)].
Proof. vm_compute. reflexivity. Qed.

(* the reference does reject a wrong position (the relational input is checked, not trusted) *)
Example ex_reference_rejects :
  snd (spec_step FMulti (abs (run FMulti m_init ex_ops_multi)) (OHint 0 4 0) 0) = RBad.
Proof. vm_compute. reflexivity. Qed.

(* re-balancing does something: a left-left chain of height 3 becomes a perfect tree of height 2 *)
Example ex_rebal :
  rebal (mk (Node (Node Leaf 1 0 0 1 Leaf) 2 0 1 2 Leaf) 3 0 2 Leaf) =
    Node (Node Leaf 1 0 0 1 Leaf) 2 0 1 2 (Node Leaf 3 0 2 1 Leaf).
Proof. vm_compute. reflexivity. Qed.

(* cost: 5 comparisons to find key 100 among the 8 entries of ex_reachable_map
   (the bound 2*floor(1.4405*log2 10) is 8) *)
Example ex_cost :
  snd (snd (step FMap (run FMap m_init ex_ops_map) (OFind 100))) = 5%nat.
Proof. vm_compute. reflexivity. Qed.

(* the Fibonacci bound is tight: the sparsest tree of height 3 has fib 5 - 1 = 4 nodes *)
Example ex_fib_tight :
  let t := Node (Node (Node Leaf 1 0 0 1 Leaf) 2 0 1 2 Leaf) 3 0 2 3 (Node Leaf 4 0 3 1 Leaf) in
  ht t = 3%nat /\ size t = 4%nat /\ fib (ht t + 2) = (size t + 1)%nat.
Proof. vm_compute. repeat split; reflexivity. Qed.
