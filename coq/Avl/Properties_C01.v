(* Property C01 - "Map and MultiMap stay sorted, complete and logarithmically deep".
   Only statements closed by `exact`, each followed by Print Assumptions, plus non-vacuity Examples.

   Objects.  Model = AvlModel (tree with STORED heights, rebal/shiftl/shiftr/rotl/rotr, descending
   insert, hinted insert with the code's four neighbour tests, removal with the code's
   successor/predecessor choice, find/count, copy construction / operator= of Map AND MultiMap =
   sequential plain inserts of the source's entries in iteration order, self-assignment = nothing,
   Map::insert(other) = plain + hinted inserts; two containers `a`/`b`, `OSel` selects).  Reference = AvlSpec (sorted list of
   (key, value, slot); slot = identity of the Item).  abs = in-order sequences of the two trees.
   Inv f st  =  for both containers:  bal (stored height = 1 + max of the children's stored heights,
   hence = real height [reachable_balanced]; heights of the two children differ by at most 1, at every
   node)  /\  sorted f (in-order sequence; strict for Map, non-strict for MultiMap)  /\  _size = number
   of nodes.

   Clause of the property text                                    -> theorem
   ------------------------------------------------------------------------------------------------
   "after any sequence of inserts (plain/hinted), removals by key/iterator, removeFront/removeBack,
    clear, copy and bulk insert"                                   -> all theorems quantify over
                                                                      `ops : list op` (every history)
   invariant holds initially / is kept by every operation         -> avl_invariant_initially,
                                                                      avl_invariant_preserved,
                                                                      avl_invariant_reachable
   rotations keep the order; re-balancing a node whose subtrees
   are balanced and differ by <= 2 restores balance               -> rebal_keeps_order, rebal_restores_balance
   "iterate their entries in ascending key order", size            -> reachable_sorted_and_counted
   "MultiMap keeps plainly inserted equal keys in insertion order" -> multimap_plain_insert_after_equal_keys
   "copy" (Map and MultiMap): the copy has the source's keys and
   values in the source's order (runs of equal keys included), new
   entries, same size; the source is untouched                      -> copy_keeps_sequence (and OCopy/OSelf are
                                                                      cases of the invariant and refinement theorems,
                                                                      for both flavours)
   "agree with a reference sorted (multi)map on size, contents,
    find/contains, count, front/back and the iterator each
    operation returns"                                             -> step_refines_reference (one op),
                                                                      history_refines_reference (all ops,
                                                                      results and final contents),
                                                                      reference_never_rejects (the REFERENCE, run
                                                                      with the model's choices, never answers RBad),
                                                                      hinted_multimap_choice_valid (the position a
                                                                      hinted MultiMap insert chose passes the
                                                                      reference's valid_pos test in every reachable
                                                                      state)
   remove(key) (text silent on how many of a run of equal keys):
   exactly one entry, the first of the run, goes; count(key) drops
   by one, every other count is unchanged                          -> remove_key_removes_first_of_run
   "finding any key among n entries needs at most
    2*floor(1.4405*log2(n+2)) key comparisons"                     -> find_cost_logarithmic (integer form, no
                                                                      axioms: floor(1.4405*log2 m) =
                                                                      Z.log2 (m^14405) / 10000),
                                                                      find_cost_logarithmic_real (ln/Int_part),
                                                                      height_logarithmic, fibonacci_size_bound
   Not theorems (validated by the correspondence run only): the threaded prev/next list equals the
   in-order walk, parent links, the stored `slope` field, and that the code's "stop when the height
   did not change" shortcuts compute the tree of the model (shape and stored heights are compared
   after every operation). *)
From Coq Require Import ZArith List Reals.
From Avl Require Import AvlSpec AvlModel AvlLists AvlBalance AvlOrder AvlInv AvlRefine AvlCost AvlCostReal.
Import ListNotations.
Local Open Scope Z_scope.

(* ---- (1) the invariant ------------------------------------------------------------------------------ *)
Theorem avl_invariant_initially : forall f, Inv f m_init.
Proof. exact inv_init. Qed.
Print Assumptions avl_invariant_initially.

Theorem avl_invariant_preserved : forall f st o, Inv f st -> Inv f (fst (step f st o)).
Proof. exact step_inv. Qed.
Print Assumptions avl_invariant_preserved.

Theorem avl_invariant_reachable : forall f ops, Inv f (run f m_init ops).
Proof. exact run_inv. Qed.
Print Assumptions avl_invariant_reachable.

Theorem rebal_keeps_order : forall t, inorder (rebal t) = inorder t.
Proof. exact inorder_rebal. Qed.
Print Assumptions rebal_keeps_order.

Theorem rebal_restores_balance : forall l k v s r,
  bal l -> bal r -> (ht l <= ht r + 2)%nat -> (ht r <= ht l + 2)%nat ->
  let t' := rebal (mk l k v s r) in
  bal t' /\ inorder t' = inorder l ++ (k, v, s) :: inorder r /\
  (ht t' <= S (Nat.max (ht l) (ht r)))%nat /\ (Nat.max (ht l) (ht r) <= ht t')%nat /\
  ((ht l <= S (ht r))%nat -> (ht r <= S (ht l))%nat -> t' = mk l k v s r).
Proof. exact rebal_spec. Qed.
Print Assumptions rebal_restores_balance.

Theorem reachable_sorted_and_counted : forall f ops,
  let c := m_sel (run f m_init ops) in
  sorted f (inorder (tr c)) /\ sz c = length (inorder (tr c)).
Proof. exact reachable_sorted. Qed.
Print Assumptions reachable_sorted_and_counted.

Theorem reachable_balanced_heights_exact : forall f ops,
  let t := tr (m_sel (run f m_init ops)) in bal t /\ ht t = height t.
Proof. exact reachable_balanced. Qed.
Print Assumptions reachable_balanced_heights_exact.

Theorem multimap_plain_insert_after_equal_keys : forall ops k v,
  let st := run FMulti m_init ops in
  let l := inorder (tr (m_sel st)) in
  let st' := fst (step FMulti st (OIns k v)) in
  inorder (tr (m_sel st')) =
    filter (fun e => ekey e <=? k) l ++ (k, v, m_next st) :: filter (fun e => negb (ekey e <=? k)) l.
Proof. exact multimap_insert_after_equal. Qed.
Print Assumptions multimap_plain_insert_after_equal_keys.

(* ---- (2) refinement ------------------------------------------------------------------------------------ *)
Theorem step_refines_reference : forall f st o,
  Inv f st ->
  spec_step f (abs st) o (choice_of f st o) = (abs (fst (step f st o)), fst (snd (step f st o))).
Proof. exact step_refines. Qed.
Print Assumptions step_refines_reference.

Theorem history_refines_reference : forall f ops,
  s_trace f s_init ops (m_choices f m_init ops) = (m_trace f m_init ops, abs (run f m_init ops)).
Proof. exact trace_refines. Qed.
Print Assumptions history_refines_reference.

(* restated after the audit: about the results of the REFERENCE (spec_step can answer RBad, see
   ex_reference_rejects), not about the model's own result list *)
Theorem reference_never_rejects : forall f ops, ~ In RBad (fst (s_trace f s_init ops (m_choices f m_init ops))).
Proof. exact spec_trace_not_bad. Qed.
Print Assumptions reference_never_rejects.

Theorem hinted_multimap_choice_valid : forall ops pos k v,
  let st := run FMulti m_init ops in
  valid_pos k (choice_of FMulti st (OHint pos k v)) (inorder (tr (m_sel st))) = true.
Proof. exact hint_choice_valid. Qed.
Print Assumptions hinted_multimap_choice_valid.

Theorem copy_keeps_sequence : forall f ops,
  let st := run f m_init ops in
  let st' := fst (step f st OCopy) in
  map kv (inorder (tr (m_sel st'))) = map kv (inorder (tr (m_other st))) /\
  map eslot (inorder (tr (m_sel st'))) = seq (m_next st) (length (inorder (tr (m_other st)))) /\
  inorder (tr (m_other st')) = inorder (tr (m_other st)) /\
  sz (m_sel st') = sz (m_other st).
Proof. exact copy_sequence. Qed.
Print Assumptions copy_keeps_sequence.

Theorem remove_key_removes_first_of_run : forall f ops k,
  let st := run f m_init ops in
  let l := inorder (tr (m_sel st)) in
  let l' := inorder (tr (m_sel (fst (step f st (ORemKey k))))) in
  match find_list k l with Some i => l' = remove_nth i l | None => l' = l end /\
  forall k', count_list k' l' = if k' =? k then pred (count_list k' l) else count_list k' l.
Proof. exact remove_key_one. Qed.
Print Assumptions remove_key_removes_first_of_run.

(* ---- (3) cost ------------------------------------------------------------------------------------------- *)
Theorem fibonacci_size_bound : forall t, bal t -> (fib (ht t + 2) <= size t + 1)%nat.
Proof. exact size_lower_bound. Qed.
Print Assumptions fibonacci_size_bound.

Theorem height_logarithmic : forall f ops,
  let t := tr (m_sel (run f m_init ops)) in
  Z.of_nat (height t) <= Z.log2 ((Z.of_nat (size t) + 2) ^ 14405) / 10000.
Proof. exact height_bound. Qed.
Print Assumptions height_logarithmic.

Theorem find_cost_logarithmic : forall f ops k,
  let st := run f m_init ops in
  Z.of_nat (snd (snd (step f st (OFind k)))) <= cost_bound (sz (m_sel st)).
Proof. exact find_cost. Qed.
Print Assumptions find_cost_logarithmic.

Theorem find_cost_logarithmic_real : forall f ops k,
  let st := run f m_init ops in
  Z.of_nat (snd (snd (step f st (OFind k)))) <= cost_bound_real (sz (m_sel st)).
Proof. exact find_cost_real. Qed.
Print Assumptions find_cost_logarithmic_real.

(* ---- non-vacuity ----------------------------------------------------------------------------------------- *)
(* a reachable Map state with rotations, two-child removal, hinted inserts, bulk insert and copy behind it *)
Example ex_reachable_map :
  tr (m_sel (run FMap m_init ex_ops_map)) =
    Node (Node (Node Leaf 1 10 18 1 Leaf) 2 20 19 2 (Node Leaf 3 33 20 1 Leaf)) 4 44 21 4
         (Node (Node Leaf 7 70 22 1 Leaf) 8 80 23 3 (Node Leaf 9 90 24 2 (Node Leaf 100 1 25 1 Leaf)))
  /\ sz (m_sel (run FMap m_init ex_ops_map)) = 8%nat.
Proof. vm_compute. split; reflexivity. Qed.

(* a reachable MultiMap state: runs of equal keys, hinted inserts inside a run *)
Example ex_reachable_multi :
  inorder (tr (m_sel (run FMulti m_init ex_ops_multi))) =
    [(3, 3, 2%nat); (3, 6, 5%nat); (5, 2, 1%nat); (5, 4, 3%nat); (5, 5, 4%nat); (7, 7, 6%nat)].
Proof. vm_compute. reflexivity. Qed.

(* MultiMap copy construction / assignment in both directions: the runs 3,3 and 5,5,5,5 keep their order
   (values 3,6 and 2,4,5,10), the entries are new (slots 16..22), self-assignment changed nothing *)
Example ex_reachable_multi_copy :
  let st := run FMulti m_init ex_ops_multi_copy in
  inorder (tr (m_a st)) =
    [(3, 3, 16%nat); (3, 6, 17%nat); (5, 2, 18%nat); (5, 4, 19%nat); (5, 5, 20%nat); (5, 10, 21%nat); (7, 7, 22%nat)] /\
  inorder (tr (m_b st)) =
    [(3, 3, 9%nat); (3, 6, 10%nat); (5, 2, 11%nat); (5, 4, 12%nat); (5, 5, 13%nat); (5, 10, 15%nat); (7, 7, 14%nat)].
Proof. vm_compute. split; reflexivity. Qed.

(* a hinted insert of key 5 at the Item of rank 2 (first of the run of 5s) chooses position 5 (end of the run) *)
Example ex_choice_valid :
  let st := run FMulti m_init ex_ops_multi in
  choice_of FMulti st (OHint 2 5 0) = 5%nat /\ valid_pos 5 5 (inorder (tr (m_sel st))) = true /\
  valid_pos 5 1 (inorder (tr (m_sel st))) = false.
Proof. vm_compute. split; [reflexivity|split; reflexivity]. Qed.

(* remove(5) on [3 3 5 5 5 7] takes the entry of rank 2 (value 2, the oldest 5): count 3 -> 2 *)
Example ex_remove_key_one :
  let st := run FMulti m_init ex_ops_multi in
  let st' := fst (step FMulti st (ORemKey 5)) in
  find_list 5 (inorder (tr (m_sel st))) = Some 2%nat /\
  count_list 5 (inorder (tr (m_sel st))) = 3%nat /\
  inorder (tr (m_sel st')) = [(3, 3, 2%nat); (3, 6, 5%nat); (5, 4, 3%nat); (5, 5, 4%nat); (7, 7, 6%nat)].
Proof. vm_compute. split; [reflexivity|split; reflexivity]. Qed.

(* the reference, run on the same history with the model's choices, produces these results *)
Example ex_trace_multi :
  fst (s_trace FMulti s_init ex_ops_multi (m_choices FMulti m_init ex_ops_multi)) =
    [RIter (IAt 0 (5, 1, 0%nat)); RIter (IAt 1 (5, 2, 1%nat)); RIter (IAt 0 (3, 3, 2%nat));
     RIter (IAt 3 (5, 4, 3%nat)); RIter (IAt 4 (5, 5, 4%nat)); RIter (IAt 1 (3, 6, 5%nat));
     RIter (IAt 6 (7, 7, 6%nat)); RIter (IAt 2 (3, 8, 7%nat)); RNat 4; RIter (IAt 3 (5, 1, 0%nat));
     RNone; RNat 3; RIter (IAt 0 (3, 3, 2%nat)); RIter (IAt 2 (5, 2, 1%nat)); RVal (Some 7)].
Proof. vm_compute. reflexivity. Qed.

(* the reference does reject a wrong position (the relational input is checked, not trusted) *)
Example ex_reference_rejects :
  snd (spec_step FMulti (abs (run FMulti m_init ex_ops_multi)) (OHint 0 4 0) 0) = RBad.
Proof. vm_compute. reflexivity. Qed.

(* re-balancing does something: a left-left chain of height 3 becomes a perfect tree of height 2 *)
Example ex_rebal :
  rebal (mk (Node (Node Leaf 1 0 0 1 Leaf) 2 0 1 2 Leaf) 3 0 2 Leaf) =
    Node (Node Leaf 1 0 0 1 Leaf) 2 0 1 2 (Node Leaf 3 0 2 1 Leaf).
Proof. vm_compute. reflexivity. Qed.

(* cost: 5 comparisons to find key 100 among the 8 entries of ex_reachable_map
   (the bound 2*floor(1.4405*log2 10) is 8) *)
Example ex_cost :
  snd (snd (step FMap (run FMap m_init ex_ops_map) (OFind 100))) = 5%nat.
Proof. vm_compute. reflexivity. Qed.

(* the Fibonacci bound is tight: the sparsest tree of height 3 has fib 5 - 1 = 4 nodes *)
Example ex_fib_tight :
  let t := Node (Node (Node Leaf 1 0 0 1 Leaf) 2 0 1 2 Leaf) 3 0 2 3 (Node Leaf 4 0 3 1 Leaf) in
  ht t = 3%nat /\ size t = 4%nat /\ fib (ht t + 2) = (size t + 1)%nat.
Proof. vm_compute. repeat split; reflexivity. Qed.
