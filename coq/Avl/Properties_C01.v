(* Property C01 - "Map and MultiMap stay sorted, complete and logarithmically deep".
   Only statements closed by `exact`, each followed by Print Assumptions, plus non-vacuity Examples.

   Objects.  Model = AvlModel (tree with STORED heights, rebal/shiftl/shiftr/rotl/rotr, descending
   insert, hinted insert with the code's four neighbour tests, removal with the code's
   successor/predecessor choice, find/count, copy construction / operator= of Map AND MultiMap =
   sequential plain inserts of the source's entries in iteration order, self-assignment = nothing,
   Map::insert(other) = plain + hinted inserts; two containers `a`/`b`, `OSel` selects).  Reference = AvlSpec (sorted list of
   (key, value, slot); slot = identity of the Item).  abs = in-order sequences of the two trees.
   Inv f st  =  for both containers:  bal (stored height = 1 + max of the children's stored heights,
   hence = real height [reachable_balanced]; heights of the two children differ by at most 1, at every
   node)  /\  sorted f (in-order sequence; strict for Map, non-strict for MultiMap)  /\  _size = number
   of nodes.

   Clause of the property text                                    -> theorem
   ------------------------------------------------------------------------------------------------
   "after any sequence of inserts (plain/hinted), removals by key/iterator, removeFront/removeBack,
    clear, copy and bulk insert"                                   -> all theorems quantify over
                                                                      `ops : list op` (every history)
   invariant holds initially / is kept by every operation         -> avl_invariant_initially,
                                                                      avl_invariant_preserved,
                                                                      avl_invariant_reachable
   rotations keep the order; re-balancing a node whose subtrees
   are balanced and differ by <= 2 restores balance               -> rebal_keeps_order, rebal_restores_balance
   "iterate their entries in ascending key order", size            -> reachable_sorted_and_counted
   "MultiMap keeps plainly inserted equal keys in insertion order" -> multimap_plain_insert_after_equal_keys
   "copy" (Map and MultiMap): the copy has the source's keys and
   values in the source's order (runs of equal keys included), new
   entries, same size; the source is untouched                      -> copy_keeps_sequence (and OCopy/OSelf are
                                                                      cases of the invariant and refinement theorems,
                                                                      for both flavours)
   "agree with a reference sorted (multi)map on size, contents,
    find/contains, count, front/back and the iterator each
    operation returns"                                             -> step_refines_reference (one op),
                                                                      history_refines_reference (all ops,
                                                                      results and final contents),
                                                                      reference_never_rejects (the REFERENCE, run
                                                                      with the model's choices, never answers RBad),
                                                                      hinted_multimap_choice_valid (the position a
                                                                      hinted MultiMap insert chose passes the
                                                                      reference's valid_pos test in every reachable
                                                                      state)
   remove(key) on a MultiMap (text silent on which entry of a run
   of equal keys goes): the REFERENCE takes the rank of the removed
   entry as an input and accepts every entry that has the key - the
   result is the sorted multimap with exactly that entry less, the
   count of the key drops by one, every other count and the other
   container stay; it rejects a rank that does not hold the key and
   a remove that takes nothing although the key is present          -> reference_remove_key_accepts_any_entry_of_the_run,
                                                                      remove_key_choice_valid (the model's rank is
                                                                      accepted in every reachable state)
   the MODEL (= the code) removes the first entry of the run        -> remove_key_removes_first_of_run (a fact about
                                                                      the model only; a container that removes another
                                                                      entry of the run differs from the model, not
                                                                      from the reference)
   "finding any key among n entries needs at most
    2*floor(1.4405*log2(n+2)) key comparisons"                     -> find_cost_logarithmic (integer form, no
                                                                      axioms: floor(1.4405*log2 m) =
                                                                      Z.log2 (m^14405) / 10000),
                                                                      find_cost_logarithmic_real (ln/Int_part),
                                                                      height_logarithmic, fibonacci_size_bound
   POINTER LEVEL (round 3).  Cell machine = AvlHeapModel: a heap of Items addressed by slot, each with the
   nine fields key, value, parent, left, right, height, slope (map T) and prev, next (map L), plus the header
   root, _begin.item, endItem.prev, _size; insert (plain and hinted), remove(Iterator) with its leaf /
   one-child / two-children cases (in-order neighbour chosen by the stored heights, direct child or deeper),
   the rebalParent loop with its jump to `*cell`, the rebalParentUpwards / insert loop with its early exit,
   rebal, shiftl/shiftr, rotl/rotr, updateHeightAndSlope, the list threading and un-threading, find, clear,
   copy construction / operator=, insert(other) are written as the individual field writes of the C++ in the
   C++'s order; a null dereference or an exhausted loop bound makes the machine answer None.
   Rep cs c  =  the cells reachable from root represent the node-level tree [tr c] (trep: key, value, parent,
   left, right, height = stored height, slope = stored height(left) - stored height(right) at every node),
   the next/prev chains from _begin / endItem.prev are the slots of the in-order sequence (lrep), _size = sz c.
   "tree links + per-node height/slope", "begin/end sentinels
   and size counter"                                              -> parent_links_consistent,
                                                                      threaded_list_is_inorder,
                                                                      every_item_has_a_context
   "descending insert + list threading + upward rebalance",
   "two-child removal via in-order neighbour, rebalParent /
   rebalParentUpwards loops", "rotations keep height/slope":
   the cell machine never faults and ends every operation of
   every history in cells that represent the node-level tree     -> cell_machine_refines_tree,
                                                                      cell_step_refines_tree,
                                                                      cell_machine_never_faults,
                                                                      insert_cells_match_model,
                                                                      remove_cells_match_model,
                                                                      rebal_cells_match_model,
                                                                      upward_loop_computes_rebuild,
                                                                      rebal_parent_loop_computes_rebuild
   "stop when the height did not change"                          -> early_exit_is_sound (node level: the remaining
                                                                      ancestors would not change), used inside
                                                                      upward_loop_computes_rebuild and
                                                                      rebal_parent_loop_computes_rebuild
   slots (allocation numbers) are distinct and below the counter  -> slots_distinct_and_below_counter
   Not modelled at the pointer level: the free list / block allocator (a slot is never reused; the harness
   renames addresses to allocation numbers), the destructor, endItem.parent / endItem.next (never accessed).
   The public results (returned iterators, find/count/front/back) are those of the node-level model. *)
From Coq Require Import ZArith List Reals.
From Avl Require Import AvlSpec AvlModel AvlLists AvlBalance AvlOrder AvlInv AvlRefine AvlCost AvlCostReal.
From Avl Require Import AvlHeapModel AvlHeapRep AvlHeapTree AvlHeapList AvlHeapOps AvlHeapRemove AvlHeapRefine.
Import ListNotations.
Local Open Scope Z_scope.

(* ---- (1) the invariant ------------------------------------------------------------------------------ *)
Theorem avl_invariant_initially : forall f, Inv f m_init.
Proof. exact inv_init. Qed.
Print Assumptions avl_invariant_initially.

Theorem avl_invariant_preserved : forall f st o, Inv f st -> Inv f (fst (step f st o)).
Proof. exact step_inv. Qed.
Print Assumptions avl_invariant_preserved.

Theorem avl_invariant_reachable : forall f ops, Inv f (run f m_init ops).
Proof. exact run_inv. Qed.
Print Assumptions avl_invariant_reachable.

Theorem rebal_keeps_order : forall t, inorder (rebal t) = inorder t.
Proof. exact inorder_rebal. Qed.
Print Assumptions rebal_keeps_order.

Theorem rebal_restores_balance : forall l k v s r,
  bal l -> bal r -> (ht l <= ht r + 2)%nat -> (ht r <= ht l + 2)%nat ->
  let t' := rebal (mk l k v s r) in
  bal t' /\ inorder t' = inorder l ++ (k, v, s) :: inorder r /\
  (ht t' <= S (Nat.max (ht l) (ht r)))%nat /\ (Nat.max (ht l) (ht r) <= ht t')%nat /\
  ((ht l <= S (ht r))%nat -> (ht r <= S (ht l))%nat -> t' = mk l k v s r).
Proof. exact rebal_spec. Qed.
Print Assumptions rebal_restores_balance.

Theorem reachable_sorted_and_counted : forall f ops,
  let c := m_sel (run f m_init ops) in
  sorted f (inorder (tr c)) /\ sz c = length (inorder (tr c)).
Proof. exact reachable_sorted. Qed.
Print Assumptions reachable_sorted_and_counted.

Theorem reachable_balanced_heights_exact : forall f ops,
  let t := tr (m_sel (run f m_init ops)) in bal t /\ ht t = height t.
Proof. exact reachable_balanced. Qed.
Print Assumptions reachable_balanced_heights_exact.

Theorem multimap_plain_insert_after_equal_keys : forall ops k v,
  let st := run FMulti m_init ops in
  let l := inorder (tr (m_sel st)) in
  let st' := fst (step FMulti st (OIns k v)) in
  inorder (tr (m_sel st')) =
    filter (fun e => ekey e <=? k) l ++ (k, v, m_next st) :: filter (fun e => negb (ekey e <=? k)) l.
Proof. exact multimap_insert_after_equal. Qed.
Print Assumptions multimap_plain_insert_after_equal_keys.

(* ---- (2) refinement ------------------------------------------------------------------------------------ *)
Theorem step_refines_reference : forall f st o,
  Inv f st ->
  spec_step f (abs st) o (choice_of f st o) = (abs (fst (step f st o)), fst (snd (step f st o))).
Proof. exact step_refines. Qed.
Print Assumptions step_refines_reference.

Theorem history_refines_reference : forall f ops,
  s_trace f s_init ops (m_choices f m_init ops) = (m_trace f m_init ops, abs (run f m_init ops)).
Proof. exact trace_refines. Qed.
Print Assumptions history_refines_reference.

(* restated after the audit: about the results of the REFERENCE (spec_step can answer RBad, see
   ex_reference_rejects), not about the model's own result list *)
Theorem reference_never_rejects : forall f ops, ~ In RBad (fst (s_trace f s_init ops (m_choices f m_init ops))).
Proof. exact spec_trace_not_bad. Qed.
Print Assumptions reference_never_rejects.

Theorem hinted_multimap_choice_valid : forall ops pos k v,
  let st := run FMulti m_init ops in
  valid_pos k (choice_of FMulti st (OHint pos k v)) (inorder (tr (m_sel st))) = true.
Proof. exact hint_choice_valid. Qed.
Print Assumptions hinted_multimap_choice_valid.

Theorem copy_keeps_sequence : forall f ops,
  let st := run f m_init ops in
  let st' := fst (step f st OCopy) in
  map kv (inorder (tr (m_sel st'))) = map kv (inorder (tr (m_other st))) /\
  map eslot (inorder (tr (m_sel st'))) = seq (m_next st) (length (inorder (tr (m_other st)))) /\
  inorder (tr (m_other st')) = inorder (tr (m_other st)) /\
  sz (m_sel st') = sz (m_other st).
Proof. exact copy_sequence. Qed.
Print Assumptions copy_keeps_sequence.

Theorem remove_key_removes_first_of_run : forall f ops k,
  let st := run f m_init ops in
  let l := inorder (tr (m_sel st)) in
  let l' := inorder (tr (m_sel (fst (step f st (ORemKey k))))) in
  match find_list k l with Some i => l' = remove_nth i l | None => l' = l end /\
  forall k', count_list k' l' = if k' =? k then pred (count_list k' l) else count_list k' l.
Proof. exact remove_key_one. Qed.
Print Assumptions remove_key_removes_first_of_run.

(* round 5: which entry of a run of equal keys remove(key) takes is an input of the reference (checked, not trusted) *)
Theorem reference_remove_key_accepts_any_entry_of_the_run : forall sp k c,
  let l := s_sel sp in
  let sp' := fst (spec_step FMulti sp (ORemKey k) c) in
  let r := snd (spec_step FMulti sp (ORemKey k) c) in
  AvlSpec.sorted FMulti l ->
  (AvlSpec.key_at k c l = true ->
     r = RNone /\ s_sel sp' = remove_nth c l /\ AvlSpec.sorted FMulti (s_sel sp') /\ length (s_sel sp') = pred (length l) /\
     s_other sp' = s_other sp /\
     forall k', count_list k' (s_sel sp') = if k' =? k then pred (count_list k' l) else count_list k' l) /\
  (has_key k l = true -> AvlSpec.key_at k c l = false -> r = RBad /\ sp' = sp) /\
  (has_key k l = false -> r = RNone /\ sp' = sp).
Proof. exact spec_remove_key_choice. Qed.
Print Assumptions reference_remove_key_accepts_any_entry_of_the_run.

Theorem remove_key_choice_valid : forall ops k,
  let st := run FMulti m_init ops in
  let l := inorder (tr (m_sel st)) in
  has_key k l = true -> AvlSpec.key_at k (choice_of FMulti st (ORemKey k)) l = true.
Proof. exact AvlRefine.remove_key_choice_valid. Qed.
Print Assumptions remove_key_choice_valid.

(* ---- (3) cost ------------------------------------------------------------------------------------------- *)
Theorem fibonacci_size_bound : forall t, bal t -> (fib (ht t + 2) <= size t + 1)%nat.
Proof. exact size_lower_bound. Qed.
Print Assumptions fibonacci_size_bound.

Theorem height_logarithmic : forall f ops,
  let t := tr (m_sel (run f m_init ops)) in
  Z.of_nat (height t) <= Z.log2 ((Z.of_nat (size t) + 2) ^ 14405) / 10000.
Proof. exact height_bound. Qed.
Print Assumptions height_logarithmic.

Theorem find_cost_logarithmic : forall f ops k,
  let st := run f m_init ops in
  Z.of_nat (snd (snd (step f st (OFind k)))) <= cost_bound (sz (m_sel st)).
Proof. exact find_cost. Qed.
Print Assumptions find_cost_logarithmic.

Theorem find_cost_logarithmic_real : forall f ops k,
  let st := run f m_init ops in
  Z.of_nat (snd (snd (step f st (OFind k)))) <= cost_bound_real (sz (m_sel st)).
Proof. exact find_cost_real. Qed.
Print Assumptions find_cost_logarithmic_real.

(* ---- (4) the pointer level ---------------------------------------------------------------------------------- *)
Theorem cell_machine_refines_tree : forall f ops,
  exists hst, hrun f h_init ops = Some hst /\ HRep hst (run f m_init ops).
Proof. exact hrun_refines. Qed.
Print Assumptions cell_machine_refines_tree.

Theorem cell_step_refines_tree : forall f hst st o,
  Inv f st -> SInv st -> HRep hst st ->
  exists hst', hstep f hst o = Some hst' /\ HRep hst' (fst (step f st o)).
Proof. exact hstep_refines. Qed.
Print Assumptions cell_step_refines_tree.

Theorem cell_machine_never_faults : forall f ops, hrun f h_init ops <> None.
Proof. exact hrun_never_faults. Qed.
Print Assumptions cell_machine_never_faults.

Theorem slots_distinct_and_below_counter : forall f ops, SInv (run f m_init ops).
Proof. exact sinv_run. Qed.
Print Assumptions slots_distinct_and_below_counter.

Theorem threaded_list_is_inorder : forall f ops hst,
  hrun f h_init ops = Some hst ->
  let cs := h_sel hst in
  let c := m_sel (run f m_init ops) in
  l_list (S (l_size (ls cs))) (lh (ls cs)) (l_begin (ls cs)) = map eslot (inorder (tr c)) /\
  p_list (S (l_size (ls cs))) (lh (ls cs)) (l_eprev (ls cs)) = rev (map eslot (inorder (tr c))) /\
  l_eprev (ls cs) = last_ptr (map eslot (inorder (tr c))) None /\
  l_begin (ls cs) = hd_ptr (map eslot (inorder (tr c))) LEnd /\
  l_size (ls cs) = length (inorder (tr c)).
Proof. exact reachable_list. Qed.
Print Assumptions threaded_list_is_inorder.

Theorem parent_links_consistent : forall f ops hst c0 l k v s h r,
  hrun f h_init ops = Some hst ->
  tr (m_sel (run f m_init ops)) = plug (Node l k v s h r) c0 ->
  let T := fst (ts (h_sel hst)) in
  ckey (T s) = k /\ cval (T s) = v /\ cpar (T s) = ctx_par c0 /\ cleft (T s) = rootp l /\ cright (T s) = rootp r /\
  cht (T s) = h /\ cslope (T s) = Z.of_nat (ht l) - Z.of_nat (ht r) /\
  (forall a, rootp l = Some a -> cpar (T a) = Some s) /\
  (forall a, rootp r = Some a -> cpar (T a) = Some s) /\
  (c0 = [] -> snd (ts (h_sel hst)) = Some s).
Proof. exact reachable_cell. Qed.
Print Assumptions parent_links_consistent.

Theorem every_item_has_a_context : forall t i a,
  nth_error (tslots t) i = Some a ->
  exists c l k v h r, t = plug (Node l k v a h r) c /\ ctx_strict c /\ i = (length (before c) + size l)%nat.
Proof. exact decomp. Qed.
Print Assumptions every_item_has_a_context.

Theorem early_exit_is_sound : forall c t0 t, bal (plug t0 c) -> ht t = ht t0 -> rebuild t c = plug t c.
Proof. exact early_exit_bal. Qed.
Print Assumptions early_exit_is_sound.

Theorem upward_loop_computes_rebuild : forall c fuel T root t' hh,
  (length c < fuel)%nat ->
  trep T (ctx_par c) t' -> crep T root c (rootp t') hh -> NoDup (tslots t' ++ cslots c) ->
  bal t' -> ctx_bal c -> ctx_ok c hh -> near (ht t') hh -> ctx_strict c ->
  exists T' root', m_up fuel (T, root) (ctx_par c) = Some (T', root') /\
    trep T' None (rebuild t' c) /\ root' = rootp (rebuild t' c).
Proof. exact m_up_spec. Qed.
Print Assumptions upward_loop_computes_rebuild.

Theorem rebal_parent_loop_computes_rebuild : forall top c sp fuel T root t' hh,
  (length sp < fuel)%nat ->
  trep T (ctx_par (sp ++ top :: c)) t' -> crep T root (sp ++ top :: c) (rootp t') hh ->
  NoDup (tslots t' ++ cslots (sp ++ top :: c)) -> ctx_ok sp hh -> ctx_strict sp ->
  bal (rebal (fill_mk top (rebuild t' sp))) ->
  exists T' root',
    m_rebal_parent fuel (T, root) (ctx_cell c) (ctx_par c) (fslot (hd top sp)) = Some ((T', root'), ctx_par c) /\
    trep T' (ctx_par c) (rebal (fill_mk top (rebuild t' sp))) /\
    crep T' root' c (rootp (rebal (fill_mk top (rebuild t' sp)))) (fh top).
Proof. exact m_rebal_parent_spec. Qed.
Print Assumptions rebal_parent_loop_computes_rebuild.

Theorem rebal_cells_match_model : forall T root c l k v s h r hh0,
  let t := Node l k v s h r in
  trep T (ctx_par c) t -> crep T root c (Some s) hh0 -> NoDup (tslots t ++ cslots c) ->
  exists T' root' a, m_rebal s (T, root) = Some ((T', root'), a) /\ rootp (rebal t) = Some a /\
    trep T' (ctx_par c) (rebal t) /\ crep T' root' c (Some a) hh0.
Proof. exact m_rebal_spec. Qed.
Print Assumptions rebal_cells_match_model.

Theorem insert_cells_match_model : forall f k v n cs c,
  Rep cs c -> cinv f c -> slot_ok c n ->
  exists cs' it, m_insert_plain f k v n cs = Some (cs', it, ins_new f k (tr c)) /\
    Rep cs' (fst (fst (c_insert f k v c n))) /\
    nth_error (tslots (tr (fst (fst (c_insert f k v c n))))) (ins_rank f k (tr c)) = Some it.
Proof. exact insert_plain_rep. Qed.
Print Assumptions insert_cells_match_model.

Theorem remove_cells_match_model : forall cs cont c l k v s h r,
  Rep cs cont -> tr cont = plug (Node l k v s h r) c -> ctx_strict c ->
  bal (tr cont) -> sz cont = size (tr cont) -> NoDup (tslots (tr cont)) ->
  exists cs', m_remove s cs = Some (cs', hd_ptr (tslots r ++ aslots c) LEnd) /\
    Rep cs' {| tr := rebuild (remove_root l r) c; sz := pred (sz cont) |}.
Proof. exact m_remove_rep. Qed.
Print Assumptions remove_cells_match_model.

(* ---- non-vacuity ----------------------------------------------------------------------------------------- *)
(* a reachable Map state with rotations, two-child removal, hinted inserts, bulk insert and copy behind it *)
Example ex_reachable_map :
  tr (m_sel (run FMap m_init ex_ops_map)) =
    Node (Node (Node Leaf 1 10 18 1 Leaf) 2 20 19 2 (Node Leaf 3 33 20 1 Leaf)) 4 44 21 4
         (Node (Node Leaf 7 70 22 1 Leaf) 8 80 23 3 (Node Leaf 9 90 24 2 (Node Leaf 100 1 25 1 Leaf)))
  /\ sz (m_sel (run FMap m_init ex_ops_map)) = 8%nat.
Proof. vm_compute. split; reflexivity. Qed.

(* a reachable MultiMap state: runs of equal keys, hinted inserts inside a run *)
Example ex_reachable_multi :
  inorder (tr (m_sel (run FMulti m_init ex_ops_multi))) =
    [(3, 3, 2%nat); (3, 6, 5%nat); (5, 2, 1%nat); (5, 4, 3%nat); (5, 5, 4%nat); (7, 7, 6%nat)].
Proof. vm_compute. reflexivity. Qed.

(* MultiMap copy construction / assignment in both directions: the runs 3,3 and 5,5,5,5 keep their order
   (values 3,6 and 2,4,5,10), the entries are new (slots 16..22), self-assignment changed nothing *)
Example ex_reachable_multi_copy :
  let st := run FMulti m_init ex_ops_multi_copy in
  inorder (tr (m_a st)) =
    [(3, 3, 16%nat); (3, 6, 17%nat); (5, 2, 18%nat); (5, 4, 19%nat); (5, 5, 20%nat); (5, 10, 21%nat); (7, 7, 22%nat)] /\
  inorder (tr (m_b st)) =
    [(3, 3, 9%nat); (3, 6, 10%nat); (5, 2, 11%nat); (5, 4, 12%nat); (5, 5, 13%nat); (5, 10, 15%nat); (7, 7, 14%nat)].
Proof. vm_compute. split; reflexivity. Qed.

(* a hinted insert of key 5 at the Item of rank 2 (first of the run of 5s) chooses position 5 (end of the run) *)
Example ex_choice_valid :
  let st := run FMulti m_init ex_ops_multi in
  choice_of FMulti st (OHint 2 5 0) = 5%nat /\ valid_pos 5 5 (inorder (tr (m_sel st))) = true /\
  valid_pos 5 1 (inorder (tr (m_sel st))) = false.
Proof. vm_compute. split; [reflexivity|split; reflexivity]. Qed.

(* remove(5) on [3 3 5 5 5 7] takes the entry of rank 2 (value 2, the oldest 5): count 3 -> 2 *)
Example ex_remove_key_one :
  let st := run FMulti m_init ex_ops_multi in
  let st' := fst (step FMulti st (ORemKey 5)) in
  find_list 5 (inorder (tr (m_sel st))) = Some 2%nat /\
  count_list 5 (inorder (tr (m_sel st))) = 3%nat /\
  inorder (tr (m_sel st')) = [(3, 3, 2%nat); (3, 6, 5%nat); (5, 4, 3%nat); (5, 5, 4%nat); (7, 7, 6%nat)].
Proof. vm_compute. split; [reflexivity|split; reflexivity]. Qed.

(* the reference on [3 3 5 5 5 7], remove(5): rank 4 (value 5, the newest 5) is accepted and gives another multimap
   than the model's rank 2; rank 1 (a 3) and rank 9 (no entry) are rejected; remove(4) (absent) changes nothing *)
Example ex_remove_key_any_of_run :
  let sp := abs (run FMulti m_init ex_ops_multi) in
  choice_of FMulti (run FMulti m_init ex_ops_multi) (ORemKey 5) = 2%nat /\
  s_sel (fst (spec_step FMulti sp (ORemKey 5) 4)) = [(3, 3, 2%nat); (3, 6, 5%nat); (5, 2, 1%nat); (5, 4, 3%nat); (7, 7, 6%nat)] /\
  snd (spec_step FMulti sp (ORemKey 5) 4) = RNone /\
  snd (spec_step FMulti sp (ORemKey 5) 1) = RBad /\ snd (spec_step FMulti sp (ORemKey 5) 9) = RBad /\
  spec_step FMulti sp (ORemKey 4) 0 = (sp, RNone).
Proof. vm_compute. repeat split; reflexivity. Qed.

(* the reference, run on the same history with the model's choices, produces these results *)
Example ex_trace_multi :
  fst (s_trace FMulti s_init ex_ops_multi (m_choices FMulti m_init ex_ops_multi)) =
    [RIter (IAt 0 (5, 1, 0%nat)); RIter (IAt 1 (5, 2, 1%nat)); RIter (IAt 0 (3, 3, 2%nat));
     RIter (IAt 3 (5, 4, 3%nat)); RIter (IAt 4 (5, 5, 4%nat)); RIter (IAt 1 (3, 6, 5%nat));
     RIter (IAt 6 (7, 7, 6%nat)); RIter (IAt 2 (3, 8, 7%nat)); RNat 4; RIter (IAt 3 (5, 1, 0%nat));
     RNone; RNat 3; RIter (IAt 0 (3, 3, 2%nat)); RIter (IAt 2 (5, 2, 1%nat)); RVal (Some 7)].
Proof. vm_compute. reflexivity. Qed.

(* the reference does reject a wrong position (the relational input is checked, not trusted) *)
Example ex_reference_rejects :
  snd (spec_step FMulti (abs (run FMulti m_init ex_ops_multi)) (OHint 0 4 0) 0) = RBad.
Proof. vm_compute. reflexivity. Qed.

(* re-balancing does something: a left-left chain of height 3 becomes a perfect tree of height 2 *)
Example ex_rebal :
  rebal (mk (Node (Node Leaf 1 0 0 1 Leaf) 2 0 1 2 Leaf) 3 0 2 Leaf) =
    Node (Node Leaf 1 0 0 1 Leaf) 2 0 1 2 (Node Leaf 3 0 2 1 Leaf).
Proof. vm_compute. reflexivity. Qed.

(* cost: 5 comparisons to find key 100 among the 8 entries of ex_reachable_map
   (the bound 2*floor(1.4405*log2 10) is 8) *)
Example ex_cost :
  snd (snd (step FMap (run FMap m_init ex_ops_map) (OFind 100))) = 5%nat.
Proof. vm_compute. reflexivity. Qed.

(* the Fibonacci bound is tight: the sparsest tree of height 3 has fib 5 - 1 = 4 nodes *)
Example ex_fib_tight :
  let t := Node (Node (Node Leaf 1 0 0 1 Leaf) 2 0 1 2 Leaf) 3 0 2 3 (Node Leaf 4 0 3 1 Leaf) in
  ht t = 3%nat /\ size t = 4%nat /\ fib (ht t + 2) = (size t + 1)%nat.
Proof. vm_compute. repeat split; reflexivity. Qed.

(* the cell machine on a history with rotations in both directions, double rotations, two-child removals
   through a deeper successor / predecessor, a hinted insert, a copy and a bulk insert: it does not fault,
   the root is slot 13, the next chain from _begin and the prev chain from endItem.prev are the slots of the
   in-order sequence, the cell of slot 0 (key 50) hangs under slot 13 with children 7 and 9, height 3, slope 0 *)
Example ex_cells :
  match hrun FMap h_init ex_ops_cells with
  | None => False
  | Some h =>
      let cs := h_sel h in
      snd (ts cs) = Some 13%nat /\ l_size (ls cs) = 10%nat /\
      l_list 11 (lh (ls cs)) (l_begin (ls cs)) = map eslot (inorder (tr (m_sel (run FMap m_init ex_ops_cells)))) /\
      l_list 11 (lh (ls cs)) (l_begin (ls cs)) = [25; 3; 12; 13; 7; 4; 0; 5; 9; 2]%nat /\
      p_list 11 (lh (ls cs)) (l_eprev (ls cs)) = [2; 9; 5; 0; 4; 7; 13; 12; 3; 25]%nat /\
      fst (ts cs) 0%nat = {| ckey := 50; cval := 1; cpar := Some 13%nat; cleft := Some 7%nat; cright := Some 9%nat; cht := 3; cslope := 0 |}
  end.
Proof. vm_compute. repeat split; reflexivity. Qed.

(* the invariants the pointer-level theorems assume hold in that state, and the state is a plugged node *)
Example ex_cells_context :
  tr (m_sel (run FMap m_init ex_ops_cells)) =
    plug (Node (Node Leaf 35 8 7 2 (Node Leaf 40 5 4 1 Leaf)) 50 1 0 3 (Node (Node Leaf 60 6 5 1 Leaf) 65 10 9 2 (Node Leaf 70 3 2 1 Leaf)))
         [FR true (Node (Node Leaf 1 15 25 1 Leaf) 20 4 3 2 (Node Leaf 31 13 12 1 Leaf)) 32 14 13 4].
Proof. vm_compute. reflexivity. Qed.

(* early exit: in this balanced tree the left subtree of the root is replaced by another one of the same
   stored height; re-balancing the ancestors (rebuild) changes nothing (= plug), and both differ from the old tree *)
Example ex_early_exit :
  let c := [FL true 5 0 9 3 (Node Leaf 7 0 8 2 (Node Leaf 8 0 7 1 Leaf))] in
  let t0 := Node Leaf 1 0 1 1 Leaf in
  let t := Node Leaf 2 0 2 1 Leaf in
  bal (plug t0 c) /\ ht t = ht t0 /\ rebuild t c = plug t c /\ plug t c <> plug t0 c.
Proof. vm_compute. repeat split; try reflexivity; try discriminate; repeat constructor. Qed.
