(* Property C01 - only statements closed by `exact`, each followed by Print Assumptions. *)
From Coq Require Import ZArith List.
From Avl Require Import AvlSpec AvlModel AvlProofs.
Import ListNotations.
Local Open Scope Z_scope.

Theorem rotr_keeps_order : forall t, inorder (rotr t) = inorder t.
Proof. exact inorder_rotr. Qed.
Print Assumptions rotr_keeps_order.
