(* The cell machine refines the node-level model for every history. *)
From Coq Require Import ZArith List Bool Arith Lia ZifyBool Permutation.
From Avl Require Import AvlSpec AvlModel AvlLists AvlBalance AvlOrder AvlInv AvlRefine
  AvlHeapModel AvlHeapRep AvlHeapTree AvlHeapList AvlHeapOps AvlHeapRemove.
Import ListNotations.
Local Open Scope Z_scope.

Arguments Nat.max : simpl never.
Arguments Z.of_nat : simpl never.
Arguments Z.sub : simpl never.

(* ---- slots are allocation numbers: distinct and below the counter ------------------------------------------------------ *)
Definition slot_okl (l : list entry) (n : nat) : Prop := NoDup (map eslot l) /\ forall e, In e l -> (eslot e < n)%nat.

Lemma slot_okl_mono l n n' : slot_okl l n -> (n <= n')%nat -> slot_okl l n'.
Proof. intros (H1 & H2) Hn. split; auto. intros e He. specialize (H2 e He). lia. Qed.

Lemma slot_okl_perm_cons l l' k v n :
  slot_okl l n -> Permutation (map eslot l') (n :: map eslot l) ->
  (forall e, In e l' -> In e l \/ e = (k, v, n)) -> slot_okl l' (S n).
Proof.
  intros (H1 & H2) P Hin. split.
  - apply (Permutation_NoDup (Permutation_sym P)). constructor; auto.
    intros X. apply in_map_iff in X as (e & Ee & He). specialize (H2 e He). lia.
  - intros e He. destruct (Hin e He) as [X| ->]; [specialize (H2 e X); lia|cbn; lia].
Qed.

Lemma ins_list_slots f k v n l :
  sorted f l -> slot_okl l n ->
  let fresh := match f with FMap => negb (has_key k l) | FMulti => true end in
  slot_okl (ins_list f k v n l) (if fresh then S n else n).
Proof.
  intros Hs Hok. cbv zeta.
  assert (G : (match f with FMap => negb (has_key k l) | FMulti => true end = true ->
               Permutation (map eslot (ins_list f k v n l)) (n :: map eslot l) /\
               forall e, In e (ins_list f k v n l) -> In e l \/ e = (k, v, n)) /\
              (match f with FMap => negb (has_key k l) | FMulti => true end = false ->
               map eslot (ins_list f k v n l) = map eslot l /\
               forall e, In e (ins_list f k v n l) -> exists e', In e' l /\ eslot e' = eslot e)).
  { clear Hok. induction l as [|e t IH].
    - cbn [ins_list map has_key existsb negb]. split.
      + intros _. split; [reflexivity|]. intros x [<-|[]]. auto.
      + destruct f; discriminate.
    - cbn [ins_list]. destruct (k <? ekey e) eqn:E1.
      + assert (Hf : match f with FMap => negb (has_key k (e :: t)) | FMulti => true end = true).
        { destruct f; auto. rewrite (has_key_sorted_head FMap k e t Hs) by lia. reflexivity. }
        rewrite Hf. split; [|discriminate]. intros _. split; [reflexivity|].
        intros x [<-|X]; auto.
      + pose proof (sorted_cons_inv _ _ _ Hs) as Hs'. specialize (IH Hs').
        destruct f.
        * destruct (k =? ekey e) eqn:E2.
          -- unfold has_key. cbn [existsb]. replace (ekey e =? k) with true by lia. cbn [orb negb map eslot snd].
             split; [discriminate|]. intros _. split; [reflexivity|].
             intros x [<-|X]; [exists e; cbn; auto|exists x; cbn; auto].
          -- assert (Eh : has_key k (e :: t) = has_key k t).
             { unfold has_key. cbn [existsb]. replace (ekey e =? k) with false by lia. reflexivity. }
             rewrite Eh. destruct IH as (I1 & I2). split.
             ++ intros Hf. destruct (I1 Hf) as (P & Q). cbn [map]. split.
                ** apply Permutation_trans with (eslot e :: n :: map eslot t); [constructor; exact P|apply perm_swap].
                ** intros x [<-|X]; [cbn; auto|]. destruct (Q x X); cbn; auto.
             ++ intros Hf. destruct (I2 Hf) as (P & Q). cbn [map]. split; [rewrite P; reflexivity|].
                intros x [<-|X]; [exists e; cbn; auto|]. destruct (Q x X) as (e' & X1 & X2). exists e'. cbn. auto.
        * destruct IH as (I1 & _). split; [|discriminate]. intros _. destruct (I1 eq_refl) as (P & Q). cbn [map]. split.
          -- apply Permutation_trans with (eslot e :: n :: map eslot t); [constructor; exact P|apply perm_swap].
          -- intros x [<-|X]; [cbn; auto|]. destruct (Q x X); cbn; auto. }
  destruct G as (G1 & G2).
  destruct (match f with FMap => negb (has_key k l) | FMulti => true end) eqn:Ef.
  - destruct (G1 eq_refl) as (P & Q). apply (slot_okl_perm_cons l _ k v n Hok P Q).
  - destruct (G2 eq_refl) as (P & Q). destruct Hok as (H1 & H2). split; [rewrite P; exact H1|].
    intros e He. destruct (Q e He) as (e' & X1 & X2). rewrite <- X2. apply H2. exact X1.
Qed.

Lemma insert_at_slots p k v n l : slot_okl l n -> slot_okl (insert_at p (k, v, n) l) (S n).
Proof.
  intros Hok. unfold insert_at. apply (slot_okl_perm_cons l _ k v n Hok).
  - rewrite map_app. cbn [map eslot snd]. rewrite <- (firstn_skipn p l) at 3. rewrite map_app.
    apply Permutation_sym. apply Permutation_middle.
  - intros e He. apply in_app_or in He as [X|[<-|X]]; auto.
    + left. rewrite <- (firstn_skipn p l). apply in_or_app. auto.
    + left. rewrite <- (firstn_skipn p l). apply in_or_app. auto.
Qed.

Lemma remove_nth_slots i l n : slot_okl l n -> slot_okl (remove_nth i l) n.
Proof.
  intros (H1 & H2). split.
  - clear H2. revert i. induction l as [|e t IH]; intros i; cbn [remove_nth]; [destruct i; constructor|].
    cbn [map] in H1. apply NoDup_cons_iff in H1 as (Hn & H1). destruct i as [|i]; auto.
    cbn [map]. constructor; auto. intros X. apply Hn. apply in_map_iff in X as (e' & E1 & E2).
    apply in_map_iff. exists e'. split; auto. apply (in_remove_nth _ _ _ E2).
  - intros e He. apply H2. apply (in_remove_nth _ _ _ He).
Qed.

Lemma renumber_ok n l : slot_okl (renumber n l) (n + length l).
Proof.
  split.
  - rewrite renumber_slots. apply seq_NoDup.
  - intros e He. apply (in_map eslot) in He. rewrite renumber_slots in He. apply in_seq in He. lia.
Qed.

Lemma removelast_as_remove_nth {A} (l : list A) : removelast l = remove_nth (length l - 1) l.
Proof. symmetry. apply remove_nth_last. Qed.

Definition sslot_ok (sp : sstate) : Prop := slot_okl (s_a sp) (s_next sp) /\ slot_okl (s_b sp) (s_next sp).

Lemma sslot_set sp l n :
  sslot_ok sp -> (s_next sp <= n)%nat -> slot_okl l n -> sslot_ok (s_set sp l n).
Proof.
  intros (Ha & Hb) Hn Hl. unfold s_set, sslot_ok. destruct (s_cur sp); cbn [s_a s_b s_next]; split; auto;
    eapply slot_okl_mono; eauto.
Qed.

Lemma sslot_sel sp : sslot_ok sp -> slot_okl (s_sel sp) (s_next sp) /\ slot_okl (s_other sp) (s_next sp).
Proof. intros (Ha & Hb). unfold s_sel, s_other. destruct (s_cur sp); auto. Qed.

Lemma s_insert_slots f k v l n :
  sorted f l -> slot_okl l n ->
  slot_okl (fst (fst (s_insert f k v l n))) (snd (fst (s_insert f k v l n))) /\ (n <= snd (fst (s_insert f k v l n)))%nat.
Proof.
  intros Hs Hok. unfold s_insert. cbn [fst snd]. split; [apply ins_list_slots; auto|].
  destruct (match f with FMap => negb (has_key k l) | FMulti => true end); lia.
Qed.

Lemma s_bulk_slots f src : forall l n,
  sorted f l -> slot_okl l n ->
  slot_okl (fst (s_bulk f src l n)) (snd (s_bulk f src l n)) /\ (n <= snd (s_bulk f src l n))%nat.
Proof.
  unfold s_bulk. induction src as [|e src IH]; intros l n Hs Hok; cbn [fold_left fst snd]; [split; auto|].
  destruct (s_insert_slots f (ekey e) (eval e) l n Hs Hok) as (H1 & H2).
  pose proof (sorted_ins_list f (ekey e) (eval e) n l Hs) as Hs'.
  unfold s_insert in *. cbn [fst snd] in *.
  destruct (IH _ _ Hs' H1) as (I1 & I2). split; [exact I1|lia].
Qed.

Lemma spec_step_slots f sp o ch :
  sorted f (s_a sp) -> sorted f (s_b sp) -> sslot_ok sp -> sslot_ok (fst (spec_step f sp o ch)).
Proof.
  intros Sa Sb Hok. pose proof (sslot_sel sp Hok) as (Hsel & Hoth).
  assert (Ssel : sorted f (s_sel sp)) by (unfold s_sel; destruct (s_cur sp); auto).
  destruct o as [k v|pos k v|k|pos| | | |k|k|k| | |b| | | ]; unfold spec_step; cbv beta iota zeta; cbn [fst]; auto.
  - destruct (s_insert_slots f k v _ _ Ssel Hsel) as (H1 & H2).
    destruct (s_insert f k v (s_sel sp) (s_next sp)) as [[l' n'] it]. cbn [fst snd] in *. apply sslot_set; auto.
  - destruct f.
    + destruct (s_insert_slots FMap k v _ _ Ssel Hsel) as (H1 & H2).
      destruct (s_insert FMap k v (s_sel sp) (s_next sp)) as [[l' n'] it]. cbn [fst snd] in *. apply sslot_set; auto.
    + destruct (valid_pos k ch (s_sel sp)); cbn [fst]; auto. apply sslot_set; auto. apply insert_at_slots. exact Hsel.
  - destruct f.
    + destruct (find_list k (s_sel sp)); cbn [fst]; auto. apply sslot_set; auto. apply remove_nth_slots. exact Hsel.
    + destruct (has_key k (s_sel sp)); cbn [fst]; auto. destruct (key_at k ch (s_sel sp)); cbn [fst]; auto.
      apply sslot_set; auto. apply remove_nth_slots. exact Hsel.
  - destruct (pos <? length (s_sel sp))%nat; cbn [fst]; auto. apply sslot_set; auto. apply remove_nth_slots. exact Hsel.
  - destruct (s_sel sp) as [|x t] eqn:E; cbn [fst]; auto. apply sslot_set; auto.
    apply (remove_nth_slots O (x :: t)). exact Hsel.
  - destruct (s_sel sp) as [|x t] eqn:E; cbn [fst]; auto. apply sslot_set; auto.
    rewrite removelast_as_remove_nth. apply remove_nth_slots. exact Hsel.
  - apply sslot_set; auto. split; [constructor|intros e []].
  - apply sslot_set; auto; [lia|apply renumber_ok].
  - destruct f; cbn [fst]; auto.
    destruct (s_bulk_slots FMap (s_other sp) _ _ Ssel Hsel) as (H1 & H2).
    destruct (s_bulk FMap (s_other sp) (s_sel sp) (s_next sp)) as [l' n']. cbn [fst snd] in *. apply sslot_set; auto.
Qed.

(* ---- the invariants of the two-container state -------------------------------------------------------------------------- *)
Definition slot_ok (c : cont) (n : nat) : Prop := slot_okl (inorder (tr c)) n.
Definition SInv (st : mstate) : Prop := sslot_ok (abs st).

Lemma sinv_init : SInv m_init.
Proof. split; (split; [constructor|intros e []]). Qed.

Lemma sinv_step f st o : Inv f st -> SInv st -> SInv (fst (step f st o)).
Proof.
  intros HI HS. unfold SInv. pose proof (step_refines f st o HI) as E.
  replace (abs (fst (step f st o))) with (fst (spec_step f (abs st) o (choice_of f st o))) by (rewrite E; reflexivity).
  destruct HI as (((_ & Sa) & _) & ((_ & Sb) & _)). apply spec_step_slots; auto.
Qed.

Lemma slot_ok_tslots c n : slot_ok c n -> NoDup (tslots (tr c)) /\ forall s, In s (tslots (tr c)) -> (s < n)%nat.
Proof.
  intros (H1 & H2). rewrite tslots_inorder. split; auto.
  intros s Hs. apply in_map_iff in Hs as (e & <- & He). auto.
Qed.

Lemma sinv_sel st : SInv st -> slot_ok (m_sel st) (m_next st) /\ slot_ok (m_other st) (m_next st).
Proof. intros (Ha & Hb). unfold slot_ok, m_sel, m_other. cbn [abs s_a s_b s_next] in *. destruct (m_cur st); auto. Qed.

(* ---- reading the cells ----------------------------------------------------------------------------------------------------- *)
Lemma tslots_length t : length (tslots t) = size t.
Proof. rewrite tslots_inorder, map_length, size_inorder. reflexivity. Qed.

Lemma decomp t : forall i a,
  nth_error (tslots t) i = Some a ->
  exists c l k v h r, t = plug (Node l k v a h r) c /\ ctx_strict c /\ i = (length (before c) + size l)%nat.
Proof.
  induction t as [|L IHL K V S H R IHR]; intros i a Hn; [destruct i; discriminate|].
  cbn [tslots] in Hn.
  destruct (lt_eq_lt_dec i (size L)) as [[Hlt|Heq]|Hgt].
  - rewrite nth_error_app1 in Hn by (rewrite tslots_length; exact Hlt).
    destruct (IHL i a Hn) as (c & l & k & v & h & r & E1 & E2 & E3).
    exists (c ++ [FL true K V S H R]), l, k, v, h, r. split; [|split].
    + rewrite plug_app, <- E1. reflexivity.
    + apply ctx_strict_app. cbn [ctx_strict fok]. auto.
    + rewrite before_app. cbn [before app]. exact E3.
  - subst i. rewrite nth_error_app2 in Hn by (rewrite tslots_length; lia).
    rewrite tslots_length, Nat.sub_diag in Hn. cbn [nth_error] in Hn. injection Hn as <-.
    exists [], L, K, V, H, R. repeat split.
  - rewrite nth_error_app2 in Hn by (rewrite tslots_length; lia). rewrite tslots_length in Hn.
    destruct (i - size L)%nat as [|j] eqn:Ej; [lia|]. cbn [nth_error] in Hn.
    destruct (IHR j a Hn) as (c & l & k & v & h & r & E1 & E2 & E3).
    exists (c ++ [FR true L K V S H]), l, k, v, h, r. split; [|split].
    + rewrite plug_app, <- E1. reflexivity.
    + apply ctx_strict_app. cbn [ctx_strict fok]. auto.
    + rewrite before_app. cbn [before app]. rewrite !app_length, <- size_inorder. cbn [length]. lia.
Qed.

Lemma key_at T t : forall par j e,
  trep T par t -> nth_error (inorder t) j = Some e -> ckey (T (eslot e)) = ekey e /\ cval (T (eslot e)) = eval e.
Proof.
  induction t as [|l IHl k v s h r IHr]; intros par j e Ht Hn; [destruct j; discriminate|].
  cbn [trep] in Ht. destruct Ht as (K & V & _ & _ & _ & _ & _ & Hl & Hr). cbn [inorder] in Hn.
  destruct (lt_eq_lt_dec j (length (inorder l))) as [[Hlt|Heq]|Hgt].
  - rewrite nth_error_app1 in Hn by exact Hlt. eapply IHl; eauto.
  - subst j. rewrite nth_error_app2, Nat.sub_diag in Hn by lia. cbn [nth_error] in Hn. injection Hn as <-.
    cbn [eslot ekey eval fst snd]. auto.
  - rewrite nth_error_app2 in Hn by lia. destruct (j - length (inorder l))%nat as [|j'] eqn:Ej; [lia|].
    cbn [nth_error] in Hn. eapply IHr; eauto.
Qed.

Lemma next_at L l X : forall j a,
  nseg L l X -> nth_error l j = Some a ->
  cnext (L a) = match nth_error l (S j) with Some b => LCell b | None => X end.
Proof.
  induction l as [|x l IH]; intros j a Hs Hn; [destruct j; discriminate|].
  cbn [nseg] in Hs. destruct Hs as (H1 & H2). destruct j as [|j]; cbn [nth_error] in *.
  - injection Hn as <-. rewrite H1. destruct l; reflexivity.
  - apply IH; auto.
Qed.

Lemma prev_at L l : forall p j a,
  pseg L p l -> nth_error l j = Some a ->
  cprev (L a) = match j with O => p | S j' => nth_error l j' end.
Proof.
  induction l as [|x l IH]; intros p j a Hs Hn; [destruct j; discriminate|].
  cbn [pseg] in Hs. destruct Hs as (H1 & H2). destruct j as [|j]; cbn [nth_error] in *.
  - injection Hn as <-. exact H1.
  - rewrite (IH _ _ _ H2 Hn). destruct j; reflexivity.
Qed.

Lemma find_rank_lt f k t : forall i, find_rank f k t = Some i -> (i < size t)%nat.
Proof.
  induction t as [|l IHl k' v' s' h r IHr]; intros i Hf; cbn [find_rank size] in *; [discriminate|].
  destruct (k >? k').
  - destruct (find_rank f k r) as [j|]; [|discriminate]. cbn [option_map] in Hf. injection Hf as <-.
    specialize (IHr j eq_refl). lia.
  - destruct (k <? k').
    + specialize (IHl i Hf). lia.
    + destruct f; [injection Hf as <-; lia|].
      destruct (find_rank FMulti k l) as [j|]; injection Hf as <-; [specialize (IHl j eq_refl)|]; lia.
Qed.

Definition slot_ptr (t : tree) (i : nat) : lptr := match nth_error (tslots t) i with Some a => LCell a | None => LEnd end.

Lemma m_find_spec f k T t : forall fuel par res,
  trep T par t -> (size t < fuel)%nat ->
  m_find fuel f k T (rootp t) res = Some (match find_rank f k t with Some i => slot_ptr t i | None => res end).
Proof.
  induction t as [|l IHl k' v' s' h r IHr]; intros fuel par res Ht Hf.
  - destruct fuel; reflexivity.
  - destruct fuel as [|fuel]; [lia|]. cbn [size] in Hf. cbn [rootp m_find find_rank].
    cbn [trep] in Ht. destruct Ht as (K & _ & _ & Lf & Rt & _ & _ & Hl & Hr). rewrite K, Lf, Rt.
    destruct (k >? k').
    + rewrite (IHr fuel (Some s') res Hr) by lia. destruct (find_rank f k r) as [i|] eqn:E; cbn [option_map]; auto.
      unfold slot_ptr. cbn [tslots]. rewrite nth_error_app2 by (rewrite tslots_length; lia). rewrite tslots_length.
      replace (size l + 1 + i - size l)%nat with (S i) by lia. reflexivity.
    + destruct (k <? k').
      * rewrite (IHl fuel (Some s') res Hl) by lia. destruct (find_rank f k l) as [i|] eqn:E; auto.
        unfold slot_ptr. cbn [tslots]. rewrite nth_error_app1 by (rewrite tslots_length; apply (find_rank_lt _ _ _ _ E)).
        reflexivity.
      * assert (Es : slot_ptr (Node l k' v' s' h r) (size l) = LCell s').
        { unfold slot_ptr. cbn [tslots]. rewrite nth_error_app2 by (rewrite tslots_length; lia).
          rewrite tslots_length, Nat.sub_diag. reflexivity. }
        destruct f; [rewrite Es; reflexivity|].
        rewrite (IHl fuel (Some s') (LCell s') Hl) by lia. destruct (find_rank FMulti k l) as [i|] eqn:E; [|rewrite Es; reflexivity].
        unfold slot_ptr. cbn [tslots]. rewrite nth_error_app1 by (rewrite tslots_length; apply (find_rank_lt _ _ _ _ E)).
        reflexivity.
Qed.

(* ---- plain insert, removal at a rank ----------------------------------------------------------------------------------------- *)
Lemma insert_plain_rep f k v n cs c :
  Rep cs c -> cinv f c -> slot_ok c n ->
  exists cs' it, m_insert_plain f k v n cs = Some (cs', it, ins_new f k (tr c)) /\
    Rep cs' (fst (fst (c_insert f k v c n))) /\
    nth_error (tslots (tr (fst (fst (c_insert f k v c n))))) (ins_rank f k (tr c)) = Some it.
Proof.
  intros (Ht & Hroot & Hl & Hsz) ((Hbal & _) & Hsize) Hok. apply slot_ok_tslots in Hok as (Hnd & Hlt).
  unfold m_insert_plain.
  destruct (m_insert_spec f k v n (tr c) (S (l_size (ls cs))) [] cs) as (cs' & it & Hrun & (P1 & P2 & P3 & P4) & Hit); auto.
  - rewrite Hsz, Hsize. lia.
  - rewrite app_nil_r. exact Hnd.
  - rewrite app_nil_r. intros X. specialize (Hlt n X). lia.
  - cbn [plug]. rewrite Hsz, Hsize. lia.
  - exact I.
  - exists cs', it. cbn [ctx_cell ctx_par rebuild] in *. split; [exact Hrun|]. unfold c_insert. cbn [fst snd tr sz].
    split; [|exact Hit]. unfold Rep. cbn [tr sz]. rewrite P4, Hsz. auto.
Qed.

Lemma remove_at_rep f cs c n pos a :
  Rep cs c -> cinv f c -> slot_ok c n -> nth_error (tslots (tr c)) pos = Some a ->
  exists cs' nx, m_remove a cs = Some (cs', nx) /\ Rep cs' (c_remove pos c).
Proof.
  intros HR ((Hbal & _) & Hsize) Hok Hn. apply slot_ok_tslots in Hok as (Hnd & _).
  destruct (decomp _ _ _ Hn) as (c0 & l & k & v & h & r & E1 & E2 & E3).
  destruct (m_remove_rep cs c c0 l k v a h r HR E1 E2 Hbal Hsize Hnd) as (cs' & Hrun & HR').
  exists cs', (hd_ptr (tslots r ++ aslots c0) LEnd). split; [exact Hrun|].
  unfold c_remove. rewrite E1, E3, remove_rank_plug by (cbn [size]; lia). rewrite remove_rank_root. exact HR'.
Qed.

(* ---- hinted insert --------------------------------------------------------------------------------------------------------------- *)
Lemma ins_at_plug f side k v n c : forall t i,
  (i < size t)%nat ->
  ins_at f (length (before c) + i) side k v n (plug t c) = rebuild (ins_at f i side k v n t) c /\
  new_at f (length (before c) + i) side k (plug t c) = new_at f i side k t /\
  rank_at f (length (before c) + i) side k (plug t c) = (length (before c) + rank_at f i side k t)%nat.
Proof.
  induction c as [|[ok k' v' s' h r|ok l k' v' s' h] c IH]; intros t i Hi; cbn [plug before rebuild].
  - auto.
  - destruct (IH (Node t k' v' s' h r) i) as (I1 & I2 & I3); [cbn [size]; lia|].
    rewrite I1, I2, I3. cbn [ins_at new_at rank_at]. replace (i <? size t)%nat with true by lia. auto.
  - rewrite !app_length. cbn [length]. rewrite <- size_inorder.
    replace (length (before c) + (size l + 1) + i)%nat with (length (before c) + (size l + 1 + i))%nat by lia.
    destruct (IH (Node l k' v' s' h t) (size l + 1 + i)%nat) as (I1 & I2 & I3); [cbn [size]; lia|].
    rewrite I1, I2, I3. cbn [ins_at new_at rank_at].
    replace (size l + 1 + i <? size l)%nat with false by lia.
    replace (size l + 1 + i =? size l)%nat with false by lia.
    replace (size l + 1 + i - size l - 1)%nat with i by lia. repeat split; auto. lia.
Qed.

Lemma set_val_at_plug v c : forall t i,
  (i < size t)%nat -> set_val_at (length (before c) + i) v (plug t c) = plug (set_val_at i v t) c.
Proof.
  induction c as [|[ok k' v' s' h r|ok l k' v' s' h] c IH]; intros t i Hi; cbn [plug before].
  - reflexivity.
  - rewrite IH by (cbn [size]; lia). cbn [set_val_at]. replace (i <? size t)%nat with true by lia. reflexivity.
  - rewrite !app_length. cbn [length]. rewrite <- size_inorder.
    replace (length (before c) + (size l + 1) + i)%nat with (length (before c) + (size l + 1 + i))%nat by lia.
    rewrite IH by (cbn [size]; lia). cbn [set_val_at].
    replace (size l + 1 + i <? size l)%nat with false by lia.
    replace (size l + 1 + i =? size l)%nat with false by lia.
    replace (size l + 1 + i - size l - 1)%nat with i by lia. reflexivity.
Qed.

Lemma bslots_length c : length (bslots c) = length (before c).
Proof. unfold bslots. apply map_length. Qed.

(* descending insert under the Item of rank [rank] (its left or right cell) *)
Lemma under_rep f rank (side : bool) k v n cs c ip :
  Rep cs c -> cinv f c -> slot_ok c n -> nth_error (tslots (tr c)) rank = Some ip ->
  exists cs' it,
    m_insert (S (l_size (ls cs))) f k v n (if side then CRight ip else CLeft ip) (Some ip) cs
      = Some (cs', it, new_at f rank side k (tr c)) /\
    Rep cs' {| tr := ins_at f rank side k v n (tr c); sz := bump (new_at f rank side k (tr c)) (sz c) |} /\
    nth_error (tslots (ins_at f rank side k v n (tr c))) (rank_at f rank side k (tr c)) = Some it.
Proof.
  intros (Ht & Hroot & Hl & Hsz) ((Hbal & _) & Hsize) Hok Hn. apply slot_ok_tslots in Hok as (Hnd & Hlt).
  destruct (decomp _ _ _ Hn) as (c0 & l & k' & v' & h & r & E1 & E2 & E3).
  rewrite E1 in Ht, Hroot, Hl, Hbal, Hnd, Hlt.
  destruct (unplug_rep _ _ _ _ Ht Hroot) as (Htn & Hcn). cbn [rootp ht] in Hcn.
  assert (Hnd2 : NoDup (tslots (Node l k' v' ip h r) ++ cslots c0)) by (apply (Permutation_NoDup (tslots_plug _ c0)); exact Hnd).
  assert (Hn2 : ~ In n (tslots (Node l k' v' ip h r) ++ cslots c0)).
  { intros X. apply (Permutation_in _ (Permutation_sym (tslots_plug _ c0))) in X. specialize (Hlt n X). lia. }
  destruct (ins_at_plug f side k v n c0 (Node l k' v' ip h r) (size l)) as (A1 & A2 & A3); [cbn [size]; lia|].
  rewrite E1, E3, A1, A2, A3. cbn [ins_at new_at rank_at]. rewrite Nat.ltb_irrefl, Nat.eqb_refl.
  pose proof (size_plug_ge c0 (Node l k' v' ip h r)) as Hge. cbn [size] in Hge.
  assert (Hszp : size (plug (Node l k' v' ip h r) c0) = l_size (ls cs)) by (rewrite Hsz, Hsize, E1; reflexivity).
  destruct side.
  - destruct (go_right n l k' v' ip h r c0 cs Htn Hcn Hnd2 Hn2) as (G1 & G2 & G3 & G4).
    destruct (m_insert_spec f k v n r (S (l_size (ls cs))) (FR true l k' v' ip h :: c0) cs) as (cs' & it & Hrun & (P1 & P2 & P3 & P4) & Hit); auto.
    + lia.
    + cbn [plug]. lia.
    + cbn [ctx_strict fok]. auto.
    + exists cs', it. cbn [ctx_cell ctx_par fslot rebuild] in *. split; [exact Hrun|]. split.
      * unfold Rep. cbn [tr sz]. rewrite P4, Hsz. auto.
      * rewrite bslots_length in Hit. cbn [before] in Hit. rewrite !app_length in Hit. cbn [length] in Hit.
        rewrite <- size_inorder in Hit.
        replace (length (before c0) + (size l + 1 + ins_rank f k r))%nat with (length (before c0) + (size l + 1) + ins_rank f k r)%nat by lia.
        exact Hit.
  - destruct (go_left n l k' v' ip h r c0 cs Htn Hcn Hnd2 Hn2) as (G1 & G2 & G3 & G4).
    destruct (m_insert_spec f k v n l (S (l_size (ls cs))) (FL true k' v' ip h r :: c0) cs) as (cs' & it & Hrun & (P1 & P2 & P3 & P4) & Hit); auto.
    + lia.
    + cbn [plug]. lia.
    + cbn [ctx_strict fok]. auto.
    + exists cs', it. cbn [ctx_cell ctx_par fslot rebuild] in *. split; [exact Hrun|]. split.
      * unfold Rep. cbn [tr sz]. rewrite P4, Hsz. auto.
      * rewrite bslots_length in Hit. cbn [before] in Hit. exact Hit.
Qed.

(* insertPos->value = value *)
Lemma set_val_rep f cs c n pos ip v :
  Rep cs c -> cinv f c -> slot_ok c n -> nth_error (tslots (tr c)) pos = Some ip ->
  Rep {| ts := (w_val ip v (fst (ts cs)), snd (ts cs)); ls := ls cs |} {| tr := set_val_at pos v (tr c); sz := sz c |}.
Proof.
  intros (Ht & Hroot & Hl & Hsz) ((Hbal & _) & Hsize) Hok Hn. apply slot_ok_tslots in Hok as (Hnd & _).
  destruct (decomp _ _ _ Hn) as (c0 & l & k' & v' & h & r & E1 & E2 & E3).
  rewrite E1 in Ht, Hroot, Hl, Hnd.
  destruct (unplug_rep _ _ _ _ Ht Hroot) as (Htn & Hcn). cbn [rootp ht] in Hcn.
  assert (Hnd2 : NoDup (tslots (Node l k' v' ip h r) ++ cslots c0)) by (apply (Permutation_NoDup (tslots_plug _ c0)); exact Hnd).
  rewrite E1, E3, set_val_at_plug by (cbn [size]; lia). cbn [set_val_at]. rewrite Nat.ltb_irrefl, Nat.eqb_refl.
  apply NoDup_app_iff in Hnd2 as (Hndt & _ & D). cbn [tslots] in Hndt. apply NoDup_node in Hndt as (_ & _ & Hsl & Hsr & _).
  cbn [trep] in Htn. destruct Htn as (K & V & P & Lf & Rt & Hh & Sl & Hl' & Hr').
  set (t2 := Node l k' v ip h r).
  assert (Ht2 : trep (w_val ip v (fst (ts cs))) (ctx_par c0) t2).
  { unfold t2. cbn [trep]. unfold w_val. rewrite upd_same. cbn [set_val ckey cval cpar cleft cright cht cslope].
    repeat split; auto; (apply trep_ext with (fst (ts cs)); auto; intros x Hx; apply upd_neq; intros ->; tauto). }
  assert (Hc2 : crep (w_val ip v (fst (ts cs))) (snd (ts cs)) c0 (rootp t2) (ht t2)).
  { apply crep_ext with (fst (ts cs)); auto. intros x Hx. unfold w_val. apply upd_neq. intros ->.
    apply (D ip); auto. cbn [tslots]. apply in_elt. }
  destruct (plug_rep _ _ _ _ E2 Ht2 Hc2) as (Hp1 & Hp2).
  unfold Rep. cbn [ts ls fst snd tr sz]. split; [exact Hp1|]. split; [exact Hp2|]. split; [|exact Hsz].
  replace (tslots (plug t2 c0)) with (tslots (plug (Node l k' v' ip h r) c0)); [exact Hl|].
  rewrite !tslots_plug_eq. reflexivity.
Qed.

Lemma tslots_set_val_at v t : forall i, tslots (set_val_at i v t) = tslots t.
Proof.
  induction t as [|l IHl k' v' s' h r IHr]; intros i; cbn [set_val_at]; auto.
  destruct (i <? size l)%nat; [cbn [tslots]; rewrite IHl; reflexivity|].
  destruct (i =? size l)%nat; [reflexivity|cbn [tslots]; rewrite IHr; reflexivity].
Qed.

Lemma nth_error_last {A} (l : list A) d : l <> [] -> nth_error l (length l - 1) = Some (last l d).
Proof.
  induction l as [|a l IH]; [congruence|]. intros _. destruct l as [|b l]; [reflexivity|].
  replace (length (a :: b :: l) - 1)%nat with (S (length (b :: l) - 1)) by (cbn [length]; lia).
  cbn [nth_error]. rewrite IH by discriminate. reflexivity.
Qed.

Lemma nth_tslots t j : nth_error (tslots t) j = option_map eslot (nth_error (inorder t) j).
Proof. rewrite tslots_inorder. apply nth_error_map. Qed.

(* the outcome of an insert, cell side and node side *)
Definition ins_out (cs : cstate) (n : nat) (r : option (cstate * nat * bool)) (out : cont * nat * nat) : Prop :=
  exists cs' it nw, r = Some (cs', it, nw) /\ Rep cs' (fst (fst out)) /\ snd (fst out) = bump nw n /\
    nth_error (tslots (tr (fst (fst out)))) (snd out) = Some it.

Lemma plain_out f k v n cs c :
  Rep cs c -> cinv f c -> slot_ok c n ->
  ins_out cs n (m_insert (S (l_size (ls cs))) f k v n CRoot None cs) (c_insert f k v c n).
Proof.
  intros HR HI HS. destruct (insert_plain_rep f k v n cs c HR HI HS) as (cs' & it & Hrun & HR' & Hit).
  exists cs', it, (ins_new f k (tr c)). unfold m_insert_plain in Hrun.
  split; [exact Hrun|split; [exact HR'|split; [reflexivity|exact Hit]]].
Qed.

Lemma under_out f rank (side : bool) k v n cs c ip :
  Rep cs c -> cinv f c -> slot_ok c n -> nth_error (tslots (tr c)) rank = Some ip ->
  ins_out cs n (m_insert (S (l_size (ls cs))) f k v n (if side then CRight ip else CLeft ip) (Some ip) cs)
    ({| tr := ins_at f rank side k v n (tr c); sz := bump (new_at f rank side k (tr c)) (sz c) |},
     bump (new_at f rank side k (tr c)) n, rank_at f rank side k (tr c)).
Proof.
  intros HR HI HS Hn. destruct (under_rep f rank side k v n cs c ip HR HI HS Hn) as (cs' & it & Hrun & HR' & Hit).
  exists cs', it, (new_at f rank side k (tr c)).
  split; [exact Hrun|split; [exact HR'|split; [reflexivity|exact Hit]]].
Qed.

Lemma insert_hint_rep f pos k v n cs c :
  Rep cs c -> cinv f c -> slot_ok c n ->
  ins_out cs n (m_insert_hint f (slot_ptr (tr c) pos) k v n cs) (c_insert_hint f pos k v c n).
Proof.
  intros HR HI HS. pose proof HR as (Ht & Hroot & (Hnx & Hpv & Hbeg & Hend) & Hsz).
  unfold c_insert_hint, m_insert_hint. cbv zeta.
  unfold slot_ptr. rewrite nth_tslots.
  destruct (nth_error (inorder (tr c)) pos) as [x|] eqn:Ex; cbn [option_map].
  - (* the hint is an Item *)
    destruct (key_at _ _ _ _ _ Ht Ex) as (Kx & _). rewrite Kx.
    assert (Hip : nth_error (tslots (tr c)) pos = Some (eslot x)) by (rewrite nth_tslots, Ex; reflexivity).
    destruct (k <? ekey x).
    + rewrite (prev_at _ _ _ _ _ Hpv Hip).
      destruct pos as [|p]; [apply (under_out f O false); auto|].
      rewrite nth_tslots. destruct (nth_error (inorder (tr c)) p) as [y|] eqn:Ey; cbn [option_map].
      * destruct (key_at _ _ _ _ _ Ht Ey) as (Ky & _). rewrite Ky.
        destruct (gt_prev f k (ekey y)); [apply (under_out f (S p) false); auto|apply plain_out; auto].
      * apply (under_out f (S p) false); auto.
    + destruct (match f with FMap => k >? ekey x | FMulti => true end).
      * rewrite (next_at _ _ _ _ _ Hnx Hip). rewrite nth_tslots.
        destruct (nth_error (inorder (tr c)) (S pos)) as [y|] eqn:Ey; cbn [option_map].
        -- destruct (key_at _ _ _ _ _ Ht Ey) as (Ky & _). rewrite Ky.
           destruct (lt_next f k (ekey y)); [apply (under_out f pos true); auto|apply plain_out; auto].
        -- apply (under_out f pos true); auto.
      * exists {| ts := (w_val (eslot x) v (fst (ts cs)), snd (ts cs)); ls := ls cs |}, (eslot x), false.
        cbn [fst snd tr bump]. split; [reflexivity|]. split; [apply (set_val_rep f cs c n pos); auto|]. split; [reflexivity|].
        rewrite tslots_set_val_at. exact Hip.
  - (* the hint is end() *)
    rewrite Hend. unfold last_error.
    destruct (inorder (tr c)) as [|e0 es] eqn:Ees.
    + rewrite tslots_inorder, Ees. cbn [map last_ptr]. apply plain_out; auto.
    + assert (Hne : tslots (tr c) <> []) by (rewrite tslots_inorder, Ees; discriminate).
      destruct (tslots (tr c)) as [|a0 sl] eqn:Esl; [congruence|]. cbn [last_ptr].
      remember (last (a0 :: sl) O) as pv eqn:Epv.
      assert (Hlen : length (e0 :: es) = length (a0 :: sl)).
      { rewrite <- Ees, <- Esl, tslots_inorder, map_length. reflexivity. }
      assert (Hlast : nth_error (tslots (tr c)) (length (e0 :: es) - 1) = Some pv).
      { rewrite Esl, Hlen, Epv. apply nth_error_last. discriminate. }
      pose proof Hlast as Hlast0. rewrite nth_tslots, Ees in Hlast.
      destruct (nth_error (e0 :: es) (length (e0 :: es) - 1)) as [p|] eqn:Ep; [|discriminate].
      cbn [option_map] in Hlast. injection Hlast as Hp.
      rewrite <- Ees in Ep. destruct (key_at _ _ _ _ _ Ht Ep) as (Kp & _). rewrite <- Hp, Kp.
      destruct (k >? ekey p); [|apply plain_out; auto].
      rewrite Hp. apply (under_out f (length (e0 :: es) - 1) true); auto.
Qed.

(* ---- the node-level invariants along sequences of inserts ------------------------------------------------------------------ *)
Lemma insert_keeps f k v c n :
  cinv f c -> slot_ok c n ->
  cinv f (fst (fst (c_insert f k v c n))) /\ slot_ok (fst (fst (c_insert f k v c n))) (snd (fst (c_insert f k v c n))) /\
  (n <= snd (fst (c_insert f k v c n)))%nat.
Proof.
  intros HI HS. destruct (c_insert_ok f k v c n HI) as (HI' & E). pose proof HI as ((_ & Hs) & _).
  destruct (s_insert_slots f k v _ _ Hs HS) as (S1 & S2). rewrite E in S1, S2. cbn [fst snd] in S1, S2.
  split; [exact HI'|]. split; [exact S1|exact S2].
Qed.

Lemma insert_hint_keeps f pos k v c n :
  cinv f c -> slot_ok c n ->
  cinv f (fst (fst (c_insert_hint f pos k v c n))) /\
  slot_ok (fst (fst (c_insert_hint f pos k v c n))) (snd (fst (c_insert_hint f pos k v c n))) /\
  (n <= snd (fst (c_insert_hint f pos k v c n)))%nat.
Proof.
  intros HI HS. pose proof HI as ((_ & Hs) & _). destruct f.
  - destruct (c_insert_hint_map pos k v c n HI) as (HI' & E).
    destruct (s_insert_slots FMap k v _ _ Hs HS) as (S1 & S2). rewrite E in S1, S2. cbn [fst snd] in S1, S2. auto.
  - destruct (c_insert_hint_multi pos k v c n HI) as (HI' & _ & E1 & E2).
    split; [exact HI'|]. rewrite E2. split; [|lia]. unfold slot_ok. rewrite E1. apply insert_at_slots. exact HS.
Qed.

Lemma skipn_S_tl {A} (l : list A) : forall j e rest, skipn j l = e :: rest -> skipn (S j) l = rest.
Proof.
  induction l as [|a l IH]; intros j e rest H; [destruct j; discriminate|].
  destruct j as [|j]; cbn [skipn] in *; [injection H as _ <-; reflexivity|]. apply (IH j e rest H).
Qed.

(* ---- copy construction / operator= ----------------------------------------------------------------------------------------------- *)
Lemma copy_loop_rep f srcs src :
  Rep srcs src ->
  forall suffix j fuel cs c n,
    skipn j (inorder (tr src)) = suffix -> (length suffix <= fuel)%nat ->
    Rep cs c -> cinv f c -> slot_ok c n ->
    exists cs', m_copy_loop fuel f srcs (slot_ptr (tr src) j) cs n
                = Some (cs', snd (fold_left (copy_step f) suffix (c, n))) /\
      Rep cs' (fst (fold_left (copy_step f) suffix (c, n))).
Proof.
  intros (Hts & _ & (Hnx & _) & _).
  induction suffix as [|e rest IH]; intros j fuel cs c n Hsk Hf HR HI HS.
  - assert (Hj : nth_error (inorder (tr src)) j = None).
    { apply nth_error_None. destruct (le_lt_dec (length (inorder (tr src))) j); auto.
      apply (f_equal (@length entry)) in Hsk. rewrite skipn_length in Hsk. cbn [length] in Hsk. lia. }
    unfold slot_ptr. rewrite nth_tslots, Hj. cbn [option_map fold_left fst snd]. exists cs. destruct fuel; auto.
  - assert (Hj : nth_error (inorder (tr src)) j = Some e).
    { rewrite <- (firstn_skipn j (inorder (tr src))), Hsk.
      assert (Hlen : length (firstn j (inorder (tr src))) = j).
      { apply firstn_length_le. apply (f_equal (@length entry)) in Hsk. rewrite skipn_length in Hsk. cbn [length] in Hsk. lia. }
      rewrite nth_error_app2 by lia. rewrite Hlen, Nat.sub_diag. reflexivity. }
    assert (Hsk' : skipn (S j) (inorder (tr src)) = rest).
    { apply (skipn_S_tl _ _ _ _ Hsk). }
    destruct fuel as [|fuel]; [cbn [length] in Hf; lia|].
    unfold slot_ptr at 1. rewrite nth_tslots, Hj. cbn [option_map m_copy_loop].
    destruct (key_at _ _ _ _ _ Hts Hj) as (Ke & Ve). rewrite Ke, Ve.
    assert (Hslot : nth_error (tslots (tr src)) j = Some (eslot e)) by (rewrite nth_tslots, Hj; reflexivity).
    rewrite (next_at _ _ _ _ _ Hnx Hslot). fold (slot_ptr (tr src) (S j)).
    destruct (insert_plain_rep f (ekey e) (eval e) n cs c HR HI HS) as (cs1 & it & Hrun & HR1 & _).
    rewrite Hrun. destruct (insert_keeps f (ekey e) (eval e) c n HI HS) as (HI1 & HS1 & _).
    cbn [fold_left]. rewrite copy_step_eq.
    assert (En : snd (fst (c_insert f (ekey e) (eval e) c n)) = bump (ins_new f (ekey e) (tr c)) n) by reflexivity.
    rewrite En in *. apply (IH (S j) fuel cs1 _ _ Hsk'); auto. cbn [length] in Hf. lia.
Qed.

Lemma rep_clear cs : Rep (m_clear cs) c_empty.
Proof. repeat split. Qed.

(* ---- Map::insert(other) -------------------------------------------------------------------------------------------------------------- *)
Lemma bulk_loop_rep srcs src :
  Rep srcs src ->
  forall suffix j fuel cs c n rk it,
    skipn j (inorder (tr src)) = suffix -> (length suffix <= fuel)%nat ->
    Rep cs c -> cinv FMap c -> slot_ok c n -> nth_error (tslots (tr c)) rk = Some it ->
    exists cs', m_bulk_loop fuel FMap srcs (slot_ptr (tr src) j) it cs n
                = Some (cs', snd (fst (fold_left (bulk_step FMap) suffix (c, n, rk)))) /\
      Rep cs' (fst (fst (fold_left (bulk_step FMap) suffix (c, n, rk)))).
Proof.
  intros (Hts & _ & (Hnx & _) & _).
  induction suffix as [|e rest IH]; intros j fuel cs c n rk it Hsk Hf HR HI HS Hit.
  - assert (Hj : nth_error (inorder (tr src)) j = None).
    { apply nth_error_None. destruct (le_lt_dec (length (inorder (tr src))) j); auto.
      apply (f_equal (@length entry)) in Hsk. rewrite skipn_length in Hsk. cbn [length] in Hsk. lia. }
    unfold slot_ptr. rewrite nth_tslots, Hj. cbn [option_map fold_left fst snd]. exists cs. destruct fuel; auto.
  - assert (Hj : nth_error (inorder (tr src)) j = Some e).
    { rewrite <- (firstn_skipn j (inorder (tr src))), Hsk.
      assert (Hlen : length (firstn j (inorder (tr src))) = j).
      { apply firstn_length_le. apply (f_equal (@length entry)) in Hsk. rewrite skipn_length in Hsk. cbn [length] in Hsk. lia. }
      rewrite nth_error_app2 by lia. rewrite Hlen, Nat.sub_diag. reflexivity. }
    assert (Hsk' : skipn (S j) (inorder (tr src)) = rest).
    { apply (skipn_S_tl _ _ _ _ Hsk). }
    destruct fuel as [|fuel]; [cbn [length] in Hf; lia|].
    unfold slot_ptr at 1. rewrite nth_tslots, Hj. cbn [option_map m_bulk_loop].
    destruct (key_at _ _ _ _ _ Hts Hj) as (Ke & Ve). rewrite Ke, Ve.
    assert (Hslot : nth_error (tslots (tr src)) j = Some (eslot e)) by (rewrite nth_tslots, Hj; reflexivity).
    rewrite (next_at _ _ _ _ _ Hnx Hslot). fold (slot_ptr (tr src) (S j)).
    assert (Ept : LCell it = slot_ptr (tr c) rk) by (unfold slot_ptr; rewrite Hit; reflexivity).
    rewrite Ept.
    destruct (insert_hint_rep FMap rk (ekey e) (eval e) n cs c HR HI HS) as (cs1 & it1 & nw & Hrun & HR1 & En & Hit1).
    rewrite Hrun. destruct (insert_hint_keeps FMap rk (ekey e) (eval e) c n HI HS) as (HI1 & HS1 & _).
    cbn [fold_left]. rewrite bulk_step_eq.
    destruct (c_insert_hint FMap rk (ekey e) (eval e) c n) as [[c1 n1] rk1]. cbn [fst snd] in *. subst n1.
    apply (IH (S j) fuel cs1 c1 _ rk1 it1 Hsk'); auto. cbn [length] in Hf. lia.
Qed.

(* ---- one operation of the two-container machine --------------------------------------------------------------------------------------- *)
Definition HRep (hst : hstate) (st : mstate) : Prop :=
  Rep (h_a hst) (m_a st) /\ Rep (h_b hst) (m_b st) /\ h_cur hst = m_cur st /\ h_next hst = m_next st.

Lemma hrep_init : HRep h_init m_init.
Proof. repeat split. Qed.

Lemma hrep_sel hst st : HRep hst st -> Rep (h_sel hst) (m_sel st) /\ Rep (h_other hst) (m_other st).
Proof. intros (Ha & Hb & Hc & _). unfold h_sel, m_sel, h_other, m_other. rewrite Hc. destruct (m_cur st); auto. Qed.

Lemma hrep_set hst st cs c n : HRep hst st -> Rep cs c -> HRep (h_set hst cs n) (m_set st c n).
Proof.
  intros (Ha & Hb & Hc & Hn) HR. unfold h_set, m_set, HRep. rewrite Hc.
  destruct (m_cur st); cbn [h_a h_b h_cur h_next m_a m_b m_cur m_next]; auto.
Qed.

Lemma walk_slot_ptr cs c pos : Rep cs c -> l_walk pos (lh (ls cs)) (l_begin (ls cs)) = slot_ptr (tr c) pos.
Proof. intros (_ & _ & (Hnx & _ & Hb & _) & _). rewrite Hb. apply l_walk_nseg. exact Hnx. Qed.

Lemma begin_slot_ptr cs c : Rep cs c -> l_begin (ls cs) = slot_ptr (tr c) O.
Proof. intros (_ & _ & (_ & _ & Hb & _) & _). rewrite Hb. unfold slot_ptr. destruct (tslots (tr c)); reflexivity. Qed.

Lemma rm_ptr f hst st pos :
  Inv f st -> SInv st -> HRep hst st ->
  exists hst',
    match slot_ptr (tr (m_sel st)) pos with
    | LEnd => Some hst
    | LCell a => match m_remove a (h_sel hst) with Some (c', _) => Some (h_set hst c' (h_next hst)) | None => None end
    end = Some hst' /\
    HRep hst' (match nth_error (inorder (tr (m_sel st))) pos with
               | Some _ => m_set st (c_remove pos (m_sel st)) (m_next st)
               | None => st
               end).
Proof.
  intros HI HS HR. pose proof (hrep_sel _ _ HR) as (Hsel & _). pose proof (sinv_sel _ HS) as (Ssel & _).
  unfold slot_ptr. rewrite nth_tslots. destruct (nth_error (inorder (tr (m_sel st))) pos) as [e|] eqn:E; cbn [option_map].
  - destruct (remove_at_rep f _ _ _ pos (eslot e) Hsel (inv_sel f st HI) Ssel) as (cs' & nx & Hrun & HR').
    { rewrite nth_tslots, E. reflexivity. }
    rewrite Hrun. eexists. split; [reflexivity|]. pose proof HR as (_ & _ & _ & Hn). rewrite Hn. apply hrep_set; auto.
  - eauto.
Qed.

Lemma hstep_refines f hst st o :
  Inv f st -> SInv st -> HRep hst st ->
  exists hst', hstep f hst o = Some hst' /\ HRep hst' (fst (step f st o)).
Proof.
  intros HI HS HR.
  pose proof (hrep_sel _ _ HR) as (Hsel & Hoth). pose proof (sinv_sel _ HS) as (Ssel & Soth).
  pose proof (inv_sel f st HI) as Isel. pose proof (inv_other f st HI) as Ioth.
  pose proof HR as (_ & _ & Hcur & Hnext).
  destruct o as [k v|pos k v|k|pos| | | |k|k|k| | |b| | | ]; unfold hstep, step; cbv zeta; rewrite ?Hnext.
  - (* insert(key, value) *)
    destruct (insert_plain_rep f k v (m_next st) _ _ Hsel Isel Ssel) as (cs' & it & Hrun & HR' & _).
    rewrite Hrun. unfold c_insert in *. cbn [fst snd] in *. eexists. split; [reflexivity|]. apply hrep_set; auto.
  - (* insert(position, key, value) *)
    rewrite (walk_slot_ptr _ _ pos Hsel).
    destruct (insert_hint_rep f pos k v (m_next st) _ _ Hsel Isel Ssel) as (cs' & it & nw & Hrun & HR' & En & _).
    rewrite Hrun. destruct (c_insert_hint f pos k v (m_sel st) (m_next st)) as [[c' n'] rk]. cbn [fst snd] in *. subst n'.
    eexists. split; [reflexivity|]. apply hrep_set; auto.
  - (* remove(key) *)
    destruct Hsel as (Ht & Hroot & Hl & Hsz). destruct Isel as (_ & Hsize).
    rewrite Hroot, (m_find_spec f k _ _ _ None LEnd Ht) by (rewrite Hsz, Hsize; lia).
    destruct (find_rank f k (tr (m_sel st))) as [i|] eqn:E; cbn [fst].
    + destruct (rm_ptr f hst st i HI HS HR) as (hst' & H1 & H2). rewrite Hnext in H1. rewrite H1.
      exists hst'. split; [reflexivity|].
      apply find_rank_lt in E. rewrite size_inorder in E. apply nth_error_Some in E.
      destruct (nth_error (inorder (tr (m_sel st))) i); [exact H2|congruence].
    + eauto.
  - (* remove(iterator) *)
    rewrite (walk_slot_ptr _ _ pos Hsel).
    destruct (rm_ptr f hst st pos HI HS HR) as (hst' & H1 & H2). rewrite Hnext in H1. rewrite H1.
    exists hst'. split; [reflexivity|]. destruct (nth_error (inorder (tr (m_sel st))) pos); exact H2.
  - (* removeFront *)
    rewrite (begin_slot_ptr _ _ Hsel).
    destruct (rm_ptr f hst st O HI HS HR) as (hst' & H1 & H2). rewrite Hnext in H1. rewrite H1.
    exists hst'. split; [reflexivity|]. rewrite tree_case.
    destruct (inorder (tr (m_sel st))) as [|x tl]; cbn [nth_error fst] in *; exact H2.
  - (* removeBack *)
    destruct Hsel as (Ht & Hroot & (Hnx & Hpv & Hb & He) & Hsz). rewrite He.
    rewrite tree_case. destruct (inorder (tr (m_sel st))) as [|x tl] eqn:El; cbn [fst].
    + rewrite tslots_inorder, El. cbn [map last_ptr]. eauto.
    + destruct (tslots (tr (m_sel st))) as [|a0 sl] eqn:Esl; [rewrite tslots_inorder, El in Esl; discriminate|].
      cbn [last_ptr].
      assert (Hlen : size (tr (m_sel st)) = length (a0 :: sl)) by (rewrite <- Esl, tslots_length; reflexivity).
      destruct (rm_ptr f hst st (size (tr (m_sel st)) - 1) HI HS HR) as (hst' & H1 & H2).
      unfold slot_ptr in H1. rewrite Esl, Hlen, (nth_error_last (a0 :: sl) O) in H1 by discriminate.
      rewrite Hnext in H1. rewrite H1. exists hst'. split; [reflexivity|].
      rewrite El in H2. rewrite size_inorder, El in H2 |- *.
      assert (Hn : nth_error (x :: tl) (length (x :: tl) - 1) <> None) by (apply nth_error_Some; cbn [length]; lia).
      destruct (nth_error (x :: tl) (length (x :: tl) - 1)); [exact H2|congruence].
  - (* clear *)
    eexists. split; [reflexivity|]. cbn [fst]. apply hrep_set; auto. apply rep_clear.
  - eauto. - eauto. - eauto. - eauto. - eauto.
  - (* select *)
    eexists. split; [reflexivity|]. cbn [fst]. destruct HR as (Ha & Hb & _ & _).
    unfold HRep. cbn [h_a h_b h_cur h_next m_a m_b m_cur m_next]. auto.
  - (* copy *)
    rewrite (begin_slot_ptr _ _ Hoth).
    destruct (copy_loop_rep f _ _ Hoth (inorder (tr (m_other st))) O (l_size (ls (h_other hst))) (m_clear (h_sel hst)) c_empty (m_next st))
      as (cs' & Hrun & HR'); auto.
    + destruct Hoth as (_ & _ & _ & Hsz). destruct Ioth as (_ & Hsize). rewrite Hsz, Hsize, size_inorder. lia.
    + apply rep_clear.
    + apply cinv_empty.
    + split; [constructor|intros e []].
    + rewrite Hrun. unfold c_copy.
      change (fun acc e => let '(c1, n1, _) := c_insert f (ekey e) (eval e) (fst acc) (snd acc) in (c1, n1)) with (copy_step f).
      destruct (fold_left (copy_step f) (inorder (tr (m_other st))) (c_empty, m_next st)) as [c' n']. cbn [fst snd] in *.
      eexists. split; [reflexivity|]. apply hrep_set; auto.
  - (* insert(other) *)
    destruct f; [|eauto]. unfold m_bulk, c_bulk.
    pose proof Hoth as (Hto & Hro & (Hnxo & _ & Hbo & _) & Hszo). rewrite Hro.
    destruct (inorder (tr (m_other st))) as [|e rest] eqn:Eo.
    + apply leaf_iff_nil in Eo. rewrite Eo. cbn [rootp fst]. eexists. split; [reflexivity|].
      apply hrep_set; auto.
    + destruct (tr (m_other st)) as [|ol ok ov os oh or] eqn:Et; [discriminate|]. cbn [rootp]. rewrite <- Et in *.
      rewrite (begin_slot_ptr _ _ Hoth). unfold slot_ptr at 1. rewrite nth_tslots, Eo. cbn [nth_error option_map].
      assert (H0 : nth_error (inorder (tr (m_other st))) O = Some e) by (rewrite Eo; reflexivity).
      destruct (key_at _ _ _ _ _ Hto H0) as (Ke & Ve). rewrite Ke, Ve.
      destruct (insert_plain_rep FMap (ekey e) (eval e) (m_next st) _ _ Hsel Isel Ssel) as (cs1 & it & Hrun & HR1 & Hit).
      rewrite Hrun. destruct (insert_keeps FMap (ekey e) (eval e) _ _ Isel Ssel) as (HI1 & HS1 & _).
      assert (Hslot : nth_error (tslots (tr (m_other st))) O = Some (eslot e)) by (rewrite nth_tslots, H0; reflexivity).
      rewrite (next_at _ _ _ _ _ Hnxo Hslot). fold (slot_ptr (tr (m_other st)) 1).
      change (fun acc e0 => let '(c1, n1, r1) := acc in c_insert_hint FMap r1 (ekey e0) (eval e0) c1 n1) with (bulk_step FMap).
      assert (Esk : skipn 1 (inorder (tr (m_other st))) = rest) by (rewrite Eo; reflexivity).
      assert (En : snd (fst (c_insert FMap (ekey e) (eval e) (m_sel st) (m_next st))) = bump (ins_new FMap (ekey e) (tr (m_sel st))) (m_next st)) by reflexivity.
      destruct (c_insert FMap (ekey e) (eval e) (m_sel st) (m_next st)) as [[c1 n1] rk1] eqn:Ec1. cbn [fst snd] in *. subst n1.
      assert (Erk : rk1 = ins_rank FMap (ekey e) (tr (m_sel st))) by (unfold c_insert in Ec1; injection Ec1 as _ E3; symmetry; exact E3).
      rewrite <- Erk in Hit.
      destruct (bulk_loop_rep _ _ Hoth rest 1%nat (l_size (ls (h_other hst))) cs1 c1
                  (bump (ins_new FMap (ekey e) (tr (m_sel st))) (m_next st)) rk1 it Esk) as (cs' & Hrun2 & HR2); auto.
      * destruct Ioth as (_ & Hsize). rewrite Hszo, Hsize, size_inorder, Eo. cbn [length]. lia.
      * rewrite Hrun2.
        destruct (fold_left (bulk_step FMap) rest (c1, bump (ins_new FMap (ekey e) (tr (m_sel st))) (m_next st), rk1)) as [[c2 n2] r2].
        cbn [fst snd] in *. eexists. split; [reflexivity|]. apply hrep_set; auto.
  - eauto.
Qed.

(* ---- every history ------------------------------------------------------------------------------------------------------------------------- *)
Lemma hrun_refines_from f ops : forall hst st,
  Inv f st -> SInv st -> HRep hst st ->
  exists hst', hrun f hst ops = Some hst' /\ HRep hst' (run f st ops).
Proof.
  induction ops as [|o ops IH]; intros hst st HI HS HR; cbn [hrun run]; [eauto|].
  destruct (hstep_refines f hst st o HI HS HR) as (hst1 & E & HR1). rewrite E.
  apply IH; auto; [apply step_inv; exact HI|apply sinv_step; auto].
Qed.

Lemma hrun_refines f ops : exists hst, hrun f h_init ops = Some hst /\ HRep hst (run f m_init ops).
Proof. apply hrun_refines_from; [apply inv_init|apply sinv_init|apply hrep_init]. Qed.

Lemma sinv_run f ops : SInv (run f m_init ops).
Proof.
  assert (G : forall st, Inv f st -> SInv st -> SInv (run f st ops)).
  { induction ops as [|o ops IH]; intros st HI HS; cbn [run]; auto. apply IH; [apply step_inv; auto|apply sinv_step; auto]. }
  apply G; [apply inv_init|apply sinv_init].
Qed.

(* ---- what the representation relation says about the cells --------------------------------------------------------------------------- *)
(* the `prev` chain from endItem.prev *)
Fixpoint p_list (fuel : nat) (L : lheap) (p : ptr) : list nat :=
  match fuel, p with
  | S fuel', Some a => a :: p_list fuel' L (cprev (L a))
  | _, _ => []
  end.

Lemma p_list_pseg L : forall l fuel p, (length l <= fuel)%nat -> pseg L p l -> p_list fuel L (last_ptr l p) = rev l ++ p_list (fuel - length l) L p.
Proof.
  intros l. induction l as [|a l IH] using rev_ind; intros fuel p Hf Hs.
  - cbn [last_ptr rev app length]. rewrite Nat.sub_0_r. reflexivity.
  - apply pseg_app in Hs as (H1 & H2). cbn [pseg] in H2. destruct H2 as (H2 & _).
    rewrite last_ptr_app. cbn [last_ptr last]. rewrite rev_app_distr. cbn [rev app].
    rewrite app_length in *. cbn [length] in *.
    destruct fuel as [|fuel]; [lia|]. cbn [p_list]. rewrite H2. f_equal.
    rewrite IH by (auto; lia). f_equal. f_equal. lia.
Qed.

Lemma rep_list cs c :
  Rep cs c -> sz c = size (tr c) ->
  l_list (S (l_size (ls cs))) (lh (ls cs)) (l_begin (ls cs)) = map eslot (inorder (tr c)) /\
  p_list (S (l_size (ls cs))) (lh (ls cs)) (l_eprev (ls cs)) = rev (map eslot (inorder (tr c))) /\
  l_eprev (ls cs) = last_ptr (map eslot (inorder (tr c))) None /\
  l_begin (ls cs) = hd_ptr (map eslot (inorder (tr c))) LEnd /\
  l_size (ls cs) = length (inorder (tr c)).
Proof.
  intros (_ & _ & (Hnx & Hpv & Hb & He) & Hsz) Hsize. rewrite <- tslots_inorder.
  assert (Hlen : length (tslots (tr c)) = l_size (ls cs)) by (rewrite tslots_length, Hsz, Hsize; reflexivity).
  split; [|split; [|split; [exact He|split; [exact Hb|]]]].
  - rewrite Hb. apply l_list_nseg; auto. lia.
  - rewrite He, (p_list_pseg _ _ _ None) by (auto; lia).
    replace (S (l_size (ls cs)) - length (tslots (tr c)))%nat with 1%nat by lia. cbn [p_list]. apply app_nil_r.
  - rewrite <- Hlen, tslots_length, size_inorder. reflexivity.
Qed.

(* every Item of the tree: its cell holds key and value, the parent pointer is the Item above (null
   at the root), left / right are the roots of the subtrees (null for none), height is the stored
   height of the node, slope = stored height of the left child - stored height of the right child,
   and the children point back *)
Lemma rep_cell cs c c0 l k v s h r :
  Rep cs c -> tr c = plug (Node l k v s h r) c0 ->
  let x := fst (ts cs) s in
  ckey x = k /\ cval x = v /\ cpar x = ctx_par c0 /\ cleft x = rootp l /\ cright x = rootp r /\
  cht x = h /\ cslope x = Z.of_nat (ht l) - Z.of_nat (ht r) /\
  (forall a, rootp l = Some a -> cpar (fst (ts cs) a) = Some s) /\
  (forall a, rootp r = Some a -> cpar (fst (ts cs) a) = Some s) /\
  (c0 = [] -> snd (ts cs) = Some s).
Proof.
  intros (Ht & Hroot & _) E. cbv zeta. rewrite E in Ht, Hroot.
  destruct (unplug_rep _ _ _ _ Ht Hroot) as (Hn & Hc). cbn [trep] in Hn.
  destruct Hn as (K & V & P & Lf & Rt & Hh & Sl & Hl & Hr). repeat split; auto.
  - intros a Ha. apply (trep_root_par _ _ _ _ Hl Ha).
  - intros a Ha. apply (trep_root_par _ _ _ _ Hr Ha).
  - intros ->. cbn [crep rootp] in Hc. exact Hc.
Qed.

(* ---- reachable states -------------------------------------------------------------------------------------------------------------------------- *)
Lemma reachable_rep f ops hst :
  hrun f h_init ops = Some hst ->
  Rep (h_sel hst) (m_sel (run f m_init ops)) /\ Rep (h_other hst) (m_other (run f m_init ops)).
Proof.
  intros E. destruct (hrun_refines f ops) as (hst' & E' & HR). rewrite E in E'. injection E' as <-. apply hrep_sel. exact HR.
Qed.

Lemma reachable_list f ops hst :
  hrun f h_init ops = Some hst ->
  let cs := h_sel hst in
  let c := m_sel (run f m_init ops) in
  l_list (S (l_size (ls cs))) (lh (ls cs)) (l_begin (ls cs)) = map eslot (inorder (tr c)) /\
  p_list (S (l_size (ls cs))) (lh (ls cs)) (l_eprev (ls cs)) = rev (map eslot (inorder (tr c))) /\
  l_eprev (ls cs) = last_ptr (map eslot (inorder (tr c))) None /\
  l_begin (ls cs) = hd_ptr (map eslot (inorder (tr c))) LEnd /\
  l_size (ls cs) = length (inorder (tr c)).
Proof.
  intros E. cbv zeta. destruct (reachable_rep f ops hst E) as (HR & _).
  apply rep_list; auto. destruct (inv_sel f _ (run_inv f ops)) as (_ & Hsz). exact Hsz.
Qed.

Lemma reachable_cell f ops hst c0 l k v s h r :
  hrun f h_init ops = Some hst ->
  tr (m_sel (run f m_init ops)) = plug (Node l k v s h r) c0 ->
  let T := fst (ts (h_sel hst)) in
  ckey (T s) = k /\ cval (T s) = v /\ cpar (T s) = ctx_par c0 /\ cleft (T s) = rootp l /\ cright (T s) = rootp r /\
  cht (T s) = h /\ cslope (T s) = Z.of_nat (ht l) - Z.of_nat (ht r) /\
  (forall a, rootp l = Some a -> cpar (T a) = Some s) /\
  (forall a, rootp r = Some a -> cpar (T a) = Some s) /\
  (c0 = [] -> snd (ts (h_sel hst)) = Some s).
Proof. intros E Et. destruct (reachable_rep f ops hst E) as (HR & _). apply (rep_cell _ _ _ _ _ _ _ _ _ HR Et). Qed.

Lemma hrun_never_faults f ops : hrun f h_init ops <> None.
Proof. destruct (hrun_refines f ops) as (hst & E & _). congruence. Qed.

Lemma early_exit_bal c t0 t : bal (plug t0 c) -> ht t = ht t0 -> rebuild t c = plug t c.
Proof. intros Hb E. apply early_exit. rewrite E. apply (bal_plug c t0 Hb). Qed.

(* a history with rotations in both directions, double rotations, two-child removals through a deeper
   successor and predecessor, a hinted insert, a copy and a bulk insert *)
Definition ex_ops_cells : list op :=
  [OIns 50 1; OIns 30 2; OIns 70 3; OIns 20 4; OIns 40 5; OIns 60 6; OIns 80 7; OIns 35 8; OIns 45 9; OIns 65 10;
   OIns 33 11; ORemAt 5; OHint 0 10 12; ORemKey 30; OIns 31 13; OIns 32 14; ORemFront; ORemBack;
   OSel true; OCopy; OIns 1 15; OSel false; OBulk; ORemAt 4].
