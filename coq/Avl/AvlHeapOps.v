(* Container-level representation relation and the operations of the cell machine against the
   node-level operations of AvlModel: insert. *)
From Coq Require Import ZArith List Bool Arith Lia ZifyBool Permutation.
From Avl Require Import AvlSpec AvlModel AvlBalance AvlHeapModel AvlHeapRep AvlHeapTree AvlHeapList.
Import ListNotations.
Local Open Scope Z_scope.

Arguments Nat.max : simpl never.
Arguments Z.of_nat : simpl never.
Arguments Z.sub : simpl never.

(* ---- the representation relation of one container ------------------------------------------------------------ *)
Definition Rep (cs : cstate) (c : cont) : Prop :=
  trep (fst (ts cs)) None (tr c) /\ snd (ts cs) = rootp (tr c) /\
  lrep (ls cs) (tslots (tr c)) /\ l_size (ls cs) = sz c.

Lemma rep_empty : Rep cs_empty c_empty.
Proof. repeat split. Qed.

Definition bslots (c : ctx) : list nat := map eslot (before c).
Definition aslots (c : ctx) : list nat := map eslot (after c).

Lemma tslots_plug_eq t c : tslots (plug t c) = bslots c ++ tslots t ++ aslots c.
Proof. unfold bslots, aslots. rewrite !tslots_inorder, inorder_plug, !map_app. reflexivity. Qed.
Lemma tslots_rebuild_eq t c : tslots (rebuild t c) = bslots c ++ tslots t ++ aslots c.
Proof. unfold bslots, aslots. rewrite !tslots_inorder, inorder_rebuild, !map_app. reflexivity. Qed.

Lemma size_plug_ge c : forall t, (size t + length c <= size (plug t c))%nat.
Proof.
  induction c as [|[ok k v s h r|ok l k v s h] c IH]; intros t; cbn [plug length]; [lia| |].
  - specialize (IH (Node t k v s h r)). cbn [size] in IH. lia.
  - specialize (IH (Node l k v s h t)). cbn [size] in IH. lia.
Qed.

Lemma lrep_wr_size n ls l : lrep (wr_size n ls) l <-> lrep ls l.
Proof. unfold lrep. cbn [wr_size lh l_begin l_eprev]. tauto. Qed.

(* where the new Item goes in the list *)
Lemma thread_spec n c ls :
  lrep ls (bslots c ++ aslots c) -> NoDup (bslots c ++ aslots c) -> ~ In n (bslots c ++ aslots c) ->
  let ls' := l_thread n (ctx_par c) (match ctx_cell c with CRight _ => true | _ => false end) ls in
  lrep ls' (bslots c ++ n :: aslots c) /\ l_size ls' = l_size ls.
Proof.
  intros Hrep Hnd Hn. cbv zeta.
  destruct c as [|[ok k v s h r|ok l k v s h] c]; cbn [ctx_par ctx_cell fslot].
  - unfold bslots, aslots in *. cbn [before after map app] in *. apply l_thread_first. exact Hrep.
  - rewrite l_thread_some.
    assert (E : LCell s = hd_ptr (aslots (FL ok k v s h r :: c)) LEnd) by reflexivity.
    rewrite E. apply l_insert_before_spec; auto.
  - rewrite l_thread_some.
    assert (E : cnext (lh ls s) = hd_ptr (aslots (FR ok l k v s h :: c)) LEnd).
    { unfold bslots, aslots in *. cbn [before after] in *. rewrite !app_assoc, map_app in Hrep. cbn [map eslot snd] in Hrep.
      apply next_of_last in Hrep. exact Hrep. }
    rewrite E. apply l_insert_before_spec; auto.
Qed.

Lemma ins_node f k v n l k' v' s' h r :
  ins f k v n (Node l k' v' s' h r) =
  match f with
  | FMap => if k >? k' then rebal (mk l k' v' s' (ins f k v n r))
            else if k <? k' then rebal (mk (ins f k v n l) k' v' s' r) else Node l k' v s' h r
  | FMulti => if k <? k' then rebal (mk (ins f k v n l) k' v' s' r) else rebal (mk l k' v' s' (ins f k v n r))
  end.
Proof. destruct f; reflexivity. Qed.
Lemma ins_new_node f k l k' v' s' h r :
  ins_new f k (Node l k' v' s' h r) =
  match f with
  | FMap => if k >? k' then ins_new f k r else if k <? k' then ins_new f k l else false
  | FMulti => if k <? k' then ins_new f k l else ins_new f k r
  end.
Proof. destruct f; reflexivity. Qed.

Definition ins_post (f : flavour) (k v : Z) (n : nat) (t : tree) (c : ctx) (cs cs' : cstate) : Prop :=
  trep (fst (ts cs')) None (rebuild (ins f k v n t) c) /\ snd (ts cs') = rootp (rebuild (ins f k v n t) c) /\
  lrep (ls cs') (tslots (rebuild (ins f k v n t) c)) /\ l_size (ls cs') = bump (ins_new f k t) (l_size (ls cs)).

Lemma go_right n l k' v' s' h r c cs :
  let fr := FR true l k' v' s' h in
  trep (fst (ts cs)) (ctx_par c) (Node l k' v' s' h r) -> crep (fst (ts cs)) (snd (ts cs)) c (Some s') h ->
  NoDup (tslots (Node l k' v' s' h r) ++ cslots c) -> ~ In n (tslots (Node l k' v' s' h r) ++ cslots c) ->
  trep (fst (ts cs)) (ctx_par (fr :: c)) r /\ crep (fst (ts cs)) (snd (ts cs)) (fr :: c) (rootp r) (ht r) /\
  NoDup (tslots r ++ cslots (fr :: c)) /\ ~ In n (tslots r ++ cslots (fr :: c)).
Proof.
  intros fr Ht Hc Hnd Hn. subst fr. cbn [trep] in Ht. destruct Ht as (H1 & H2 & H3 & H4 & H5 & H6 & H7 & H8 & H9).
  pose proof (perm_fill (FR true l k' v' s' h) r c) as P. cbn [fill_mk mk tslots] in P.
  cbn [ctx_par fslot crep]. repeat split; auto.
  - apply (Permutation_NoDup P). exact Hnd.
  - intros X. apply Hn. apply (Permutation_in _ (Permutation_sym P)). exact X.
Qed.

Lemma go_left n l k' v' s' h r c cs :
  let fr := FL true k' v' s' h r in
  trep (fst (ts cs)) (ctx_par c) (Node l k' v' s' h r) -> crep (fst (ts cs)) (snd (ts cs)) c (Some s') h ->
  NoDup (tslots (Node l k' v' s' h r) ++ cslots c) -> ~ In n (tslots (Node l k' v' s' h r) ++ cslots c) ->
  trep (fst (ts cs)) (ctx_par (fr :: c)) l /\ crep (fst (ts cs)) (snd (ts cs)) (fr :: c) (rootp l) (ht l) /\
  NoDup (tslots l ++ cslots (fr :: c)) /\ ~ In n (tslots l ++ cslots (fr :: c)).
Proof.
  intros fr Ht Hc Hnd Hn. subst fr. cbn [trep] in Ht. destruct Ht as (H1 & H2 & H3 & H4 & H5 & H6 & H7 & H8 & H9).
  pose proof (perm_fill (FL true k' v' s' h r) l c) as P. cbn [fill_mk mk tslots] in P.
  cbn [ctx_par fslot crep]. repeat split; auto.
  - apply (Permutation_NoDup P). exact Hnd.
  - intros X. apply Hn. apply (Permutation_in _ (Permutation_sym P)). exact X.
Qed.

Lemma bslots_length_FR ok l k v s h c : length (bslots (FR ok l k v s h :: c)) = (length (bslots c) + size l + 1)%nat.
Proof. unfold bslots. cbn [before]. rewrite !map_length, !app_length, size_inorder. cbn [length]. lia. Qed.

Lemma nth_mid {A} (a : list A) x b : nth_error (a ++ x :: b) (length a) = Some x.
Proof. rewrite nth_error_app2 by lia. rewrite Nat.sub_diag. reflexivity. Qed.

(* insert(cell, parent, key, value) started anywhere on the search path *)
Lemma m_insert_spec f k v n : forall t fuel c cs,
  (size t < fuel)%nat ->
  trep (fst (ts cs)) (ctx_par c) t -> crep (fst (ts cs)) (snd (ts cs)) c (rootp t) (ht t) ->
  NoDup (tslots t ++ cslots c) -> ~ In n (tslots t ++ cslots c) ->
  bal (plug t c) -> lrep (ls cs) (tslots (plug t c)) -> (size (plug t c) <= l_size (ls cs))%nat -> ctx_strict c ->
  exists cs' it, m_insert fuel f k v n (ctx_cell c) (ctx_par c) cs = Some (cs', it, ins_new f k t) /\
    ins_post f k v n t c cs cs' /\
    nth_error (tslots (rebuild (ins f k v n t) c)) (length (bslots c) + ins_rank f k t) = Some it.
Proof.
  induction t as [|l IHl k' v' s' h r IHr]; intros fuel c cs Hf Ht Hc Hnd Hn Hbal Hl Hsz Hst;
    (destruct fuel as [|fuel]; [cbn [size] in Hf; lia|]); destruct cs as [[T root] ls0]; cbn [ts ls fst snd] in *.
  - (* the empty cell: a new Item *)
    cbn [m_insert ts ls fst snd]. cbn [rootp ht] in Hc. rewrite (rd_cell_ctx _ _ _ _ _ Hc).
    cbn [tslots app] in Hnd, Hn.
    set (T1 := upd T n {| ckey := k; cval := v; cpar := ctx_par c; cleft := None; cright := None; cht := 1; cslope := 0 |}).
    set (st := wr_cell (ctx_cell c) (Some n) (T1, root)).
    set (l1 := l_thread n (ctx_par c) (match ctx_cell c with CRight _ => true | _ => false end) (wr_size (S (l_size ls0)) ls0)).
    rewrite tslots_plug_eq in Hl. cbn [tslots app] in Hl.
    assert (Hperm : Permutation (bslots c ++ aslots c) (cslots c)).
    { pose proof (tslots_plug Leaf c) as P. rewrite tslots_plug_eq in P. exact P. }
    destruct (thread_spec n c (wr_size (S (l_size ls0)) ls0)) as (Hl1 & Hsz1).
    { apply lrep_wr_size. exact Hl. }
    { apply (Permutation_NoDup (Permutation_sym Hperm)). exact Hnd. }
    { intros X. apply Hn. apply (Permutation_in _ Hperm). exact X. }
    fold l1 in Hl1, Hsz1. cbn [wr_size l_size] in Hsz1.
    destruct (bal_plug c Leaf Hbal) as (_ & Hok). cbn [ht] in Hok.
    destruct (m_up_spec c (S (l_size l1)) (fst st) (snd st) (Node Leaf k v n 1 Leaf) O) as (T' & root' & Hrun & Hrep & Hroot).
    + pose proof (size_plug_ge c Leaf). cbn [size] in *. lia.
    + cbn [trep rootp ht]. unfold st. rewrite wr_cell_other.
      2:{ pose proof (cref_notin_ctx [n] c) as X. cbn [app] in X. rewrite NoDup_cons_iff in X.
          specialize (X (conj Hn Hnd)). destruct (ctx_cell c); auto; cbn [cref_notin In] in X; intros ->; tauto. }
      unfold T1. rewrite upd_same. cbn [ckey cval cpar cleft cright cht cslope]. repeat split; auto.
    + cbn [rootp]. unfold st. apply crep_set_hole with None; auto.
      apply crep_ext with T; auto. intros x Hx. unfold T1. apply upd_neq. intros ->. tauto.
    + cbn [tslots app]. constructor; auto.
    + cbn [bal ht]. repeat split; auto.
    + apply (bal_plug_ctx c Leaf Hbal).
    + exact Hok.
    + cbn [ht]. unfold near. auto.
    + exact Hst.
    + replace st with (fst st, snd st) by (symmetry; apply surjective_pairing). rewrite Hrun.
      exists {| ts := (T', root'); ls := l1 |}, n. split; [reflexivity|].
      unfold ins_post. cbn [ins ts ls fst snd ins_new bump ins_rank].
      rewrite tslots_rebuild_eq. cbn [tslots app].
      split; [split; [exact Hrep|split; [exact Hroot|split; [exact Hl1|exact Hsz1]]]|].
      rewrite Nat.add_0_r. apply nth_mid.
  - (* an Item: compare and descend *)
    cbn [m_insert ts ls fst snd]. cbn [rootp ht] in Hc. rewrite (rd_cell_ctx _ _ _ _ _ Hc).
    pose proof Ht as Ht0. cbn [trep] in Ht0. destruct Ht0 as (K & V & P & Lf & Rt & Hh & Sl & Hl' & Hr').
    unfold ins_post. rewrite K, !ins_node, !ins_new_node. cbn [size] in Hf. cbn [ins_rank].
    assert (GoR : exists cs' it,
      m_insert fuel f k v n (CRight s') (Some s') {| ts := (T, root); ls := ls0 |} = Some (cs', it, ins_new f k r) /\
      ins_post f k v n r (FR true l k' v' s' h :: c) {| ts := (T, root); ls := ls0 |} cs' /\
      nth_error (tslots (rebuild (ins f k v n r) (FR true l k' v' s' h :: c)))
        (length (bslots (FR true l k' v' s' h :: c)) + ins_rank f k r) = Some it).
    { destruct (go_right n l k' v' s' h r c {| ts := (T, root); ls := ls0 |} Ht Hc Hnd Hn) as (G1 & G2 & G3 & G4).
      apply (IHr fuel (FR true l k' v' s' h :: c) {| ts := (T, root); ls := ls0 |}); auto; [lia|cbn [ctx_strict fok]; auto]. }
    assert (GoL : exists cs' it,
      m_insert fuel f k v n (CLeft s') (Some s') {| ts := (T, root); ls := ls0 |} = Some (cs', it, ins_new f k l) /\
      ins_post f k v n l (FL true k' v' s' h r :: c) {| ts := (T, root); ls := ls0 |} cs' /\
      nth_error (tslots (rebuild (ins f k v n l) (FL true k' v' s' h r :: c)))
        (length (bslots (FL true k' v' s' h r :: c)) + ins_rank f k l) = Some it).
    { destruct (go_left n l k' v' s' h r c {| ts := (T, root); ls := ls0 |} Ht Hc Hnd Hn) as (G1 & G2 & G3 & G4).
      apply (IHl fuel (FL true k' v' s' h r :: c) {| ts := (T, root); ls := ls0 |}); auto; [lia|cbn [ctx_strict fok]; auto]. }
    rewrite bslots_length_FR in GoR. change (bslots (FL true k' v' s' h r :: c)) with (bslots c) in GoL.
    unfold ins_post in *. cbn [rebuild] in GoR, GoL.
    replace (length (bslots c) + size l + 1 + ins_rank f k r)%nat with (length (bslots c) + (size l + 1 + ins_rank f k r))%nat in GoR by lia.
    destruct f.
    + destruct (k >? k') eqn:E1; [exact GoR|]. destruct (k <? k') eqn:E2; [exact GoL|].
      (* same key: position->value = value *)
      set (t2 := Node l k' v s' h r).
      destruct (bal_plug c _ Hbal) as (_ & Hok).
      assert (Hnd0 := Hnd). apply NoDup_app_iff in Hnd0 as (Hndt & Hndc & D).
      cbn [tslots] in Hndt. apply NoDup_node in Hndt as (_ & _ & Hsl & Hsr & _).
      assert (Ht2 : trep (w_val s' v T) (ctx_par c) t2).
      { unfold t2. cbn [trep]. unfold w_val. rewrite upd_same. cbn [set_val ckey cval cpar cleft cright cht cslope].
        repeat split; auto; (apply trep_ext with T; auto; intros x Hx; apply upd_neq; intros ->; tauto). }
      assert (Hc2 : crep (w_val s' v T) root c (rootp t2) (ht t2)).
      { apply crep_ext with T; auto. intros x Hx. unfold w_val. apply upd_neq. intros ->.
        apply (D s'); auto. cbn [tslots]. apply in_elt. }
      destruct (plug_rep _ _ _ _ Hst Ht2 Hc2) as (Hp1 & Hp2).
      exists {| ts := (w_val s' v T, root); ls := ls0 |}, s'. split; [reflexivity|].
      cbn [ts ls fst snd bump]. fold t2. rewrite early_exit by exact Hok.
      assert (Es : tslots (plug t2 c) = tslots (plug (Node l k' v' s' h r) c)).
      { rewrite !tslots_plug_eq. reflexivity. }
      rewrite Es. split; [split; [exact Hp1|split; [exact Hp2|split; [exact Hl|reflexivity]]]|].
      rewrite tslots_plug_eq. cbn [tslots].
      replace (bslots c ++ (tslots l ++ s' :: tslots r) ++ aslots c)
        with ((bslots c ++ tslots l) ++ s' :: (tslots r ++ aslots c))
        by (repeat rewrite <- app_assoc; cbn [app]; reflexivity).
      replace (length (bslots c) + size l)%nat with (length (bslots c ++ tslots l)).
      * apply nth_mid.
      * rewrite app_length, tslots_inorder, map_length, <- size_inorder. reflexivity.
    + destruct (k <? k') eqn:E2; [exact GoL|exact GoR].
Qed.
