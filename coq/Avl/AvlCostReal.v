(* The lookup bound in the real-number form of the property text:
     comparisons <= 2 * floor (1.4405 * log2 (n + 2)),   log2 x = ln x / ln 2,  floor = Int_part.
   Derived from the integer inequality 2^(10000 h) <= (n+2)^14405 of AvlCost (so the only axioms
   are those of Coq's classical real numbers). *)
From Coq Require Import ZArith List Lia Reals Lra.
From Avl Require Import AvlSpec AvlModel AvlBalance AvlInv AvlRefine AvlCost.
Local Open Scope R_scope.

Definition log2R (x : R) : R := ln x / ln 2.
Definition cost_bound_real (n : nat) : Z := (2 * Int_part (14405 / 10000 * log2R (INR n + 2)))%Z.

Lemma ln_IZR_pow (z e : Z) : (0 < z)%Z -> (0 <= e)%Z -> ln (IZR (z ^ e)) = IZR e * ln (IZR z).
Proof.
  intros Hz He. rewrite <- (Z2Nat.id e He) at 1. rewrite <- pow_IZR, ln_pow by (apply IZR_lt; exact Hz).
  rewrite INR_IZR_INZ, Z2Nat.id by exact He. reflexivity.
Qed.

Lemma ln_le_mono x y : 0 < x -> x <= y -> ln x <= ln y.
Proof. intros Hx [Hlt|Heq]; [left; apply ln_increasing; assumption|right; rewrite Heq; reflexivity]. Qed.

Lemma ln2_pos : 0 < ln 2.
Proof. rewrite <- ln_1. apply ln_increasing; lra. Qed.

Lemma le_Int_part (z : Z) (x : R) : IZR z <= x -> (z <= Int_part x)%Z.
Proof.
  intros H. unfold Int_part. destruct (archimed x) as (Hup & _).
  assert (Hlt : (z < up x)%Z) by (apply lt_IZR; lra). lia.
Qed.

Lemma height_le_log_real (h n : nat) :
  (fib (h + 2) <= n + 1)%nat -> (Z.of_nat h <= Int_part (14405 / 10000 * log2R (INR n + 2)))%Z.
Proof.
  intros Hf. apply le_Int_part.
  assert (Hm : (0 < Z.of_nat n + 2)%Z) by lia.
  assert (Hh : (0 <= 10000 * Z.of_nat h)%Z) by lia.
  assert (H0 : (0 < 2 ^ (10000 * Z.of_nat h))%Z) by (apply Z.pow_pos_nonneg; [reflexivity|exact Hh]).
  pose proof (height_pow h n Hf) as Hp.
  apply IZR_le in Hp.
  apply ln_le_mono in Hp; [|apply IZR_lt; exact H0].
  rewrite (ln_IZR_pow 2 _ eq_refl Hh) in Hp.
  rewrite (ln_IZR_pow _ 14405 Hm ltac:(discriminate)) in Hp.
  rewrite mult_IZR, plus_IZR in Hp.
  pose proof ln2_pos as H2. unfold log2R. rewrite (INR_IZR_INZ n).
  remember (ln (IZR (Z.of_nat n) + 2)) as lm eqn:Elm. remember (ln 2) as l2 eqn:El2. remember (IZR (Z.of_nat h)) as hr eqn:Ehr.
  clear Elm El2 Ehr Hf Hm Hh H0.
  apply Rmult_le_reg_r with (10000 * l2); [lra|].
  replace (14405 / 10000 * (lm / l2) * (10000 * l2)) with (14405 * lm) by (field; lra).
  lra.
Qed.

Lemma find_cost_real f ops k :
  let st := run f m_init ops in
  (Z.of_nat (snd (snd (step f st (OFind k)))) <= cost_bound_real (sz (m_sel st)))%Z.
Proof.
  cbv zeta. destruct (inv_sel _ _ (run_inv f ops)) as ((Hb & Hs) & Hsz).
  unfold step. cbv beta iota zeta. cbn [snd]. rewrite Hsz.
  pose proof (find_cmps_height f k (tr (m_sel (run f m_init ops)))) as H1.
  rewrite <- (bal_ht_height _ Hb) in H1.
  pose proof (height_le_log_real _ _ (size_lower_bound _ Hb)) as H2.
  unfold cost_bound_real.
  remember (Int_part (14405 / 10000 * log2R (INR (size (tr (m_sel (run f m_init ops)))) + 2))) as L eqn:HL. clear HL.
  lia.
Qed.
