import os, sys, hashlib, hmac as pyhmac
from vf import Check, Stream, hexs, run_exe_on_cases, BUILD
sys.path.insert(0, os.path.join(os.path.dirname(os.path.abspath(__file__)), '..', 'gen'))
import tables


def content(rng, n, kind):
    if kind == 0:
        return bytes(rng.randrange(256) for _ in range(n))
    if kind == 1:
        return bytes([0] * n)
    if kind == 2:
        return bytes([0xff] * n)
    if kind == 3:
        return bytes((i * 7 + 1) & 0xff for i in range(n))
    return bytes([0x80] * n)


class C17(Check):
    id = 'C17'
    comp = 'Sha'
    extracted = ['coq/Sha/model.mli', 'coq/Sha/model.ml', 'ocaml/zconv.ml', 'ocaml/sha_driver.ml']
    harness_sources = ['harness/sha.cpp']
    technique = ('machine-checked proof (Coq 8.16.1) about an executable Gallina model of Sha256.cpp/Sha256.hpp (refinement to a '
                 'transcription of FIPS 180-4 / RFC 2104, by invariant + induction over histories) + differential correspondence of the '
                 'extracted model and spec with the ASan/UBSan build of the code')
    level_text = ('Theorems in Coq (13, all closed under the global context), about the model of Sha256 (streaming update with the '
                  '64-byte buffer, Transform with the rolling 16-word window and the rotating register file, finalize with its padding '
                  'loop, hmac on one reused hasher): Transform = the FIPS 180-4 compression function for every state and block; an '
                  'invariant "hasher p has absorbed message m" holds initially and is preserved by update for every chunk, by '
                  'finalize and by reset; for every message < 2^61 bytes and every list of chunks, finalize returns the FIPS 180-4 '
                  'digest of the concatenation and leaves a fresh hasher; the padding loop never exhausts its fuel (no length bound); '
                  'hmac = RFC 2104 for every key length and message; and for every history of update/finalize/reset/hash/hmac '
                  'the observations of the model equal those of the spec (refinement by induction over the history). K/H0/ipad/opad '
                  'are regenerated from the source on every run and proved equal to the standard. The model is tied to the code by '
                  'running the extracted model, the extracted spec and the ASan/UBSan build of the working tree on the same '
                  'histories (results, byte counter, the eight state words and the 64-byte block buffer - stale bytes included - compared '
                  'after every operation); the histories include messages of 8191, 8192, 8193 and 65575 bytes and hmac over 8192 '
                  'hashed bytes (1 MiB in the thorough tier), so the bit-length field is exercised up to its third byte by model and spec.')
    level_note = ('Trusted: Coq kernel, the FIPS 180-4 / RFC 2104 transcription (ShaSpec.v; guarded by five known-answer Examples: '
                  'FIPS "abc", RFC 4231 cases 2 and 6, HMAC with a key of exactly 64 bytes (NIST CSRC example) and of 65 bytes, '
                  'and by python hashlib/hmac in extra_checks), extraction + OCaml driver, harness, '
                  'table translator (strict: gen/tables.py, self-test tools/test_tables.py). Code-level validation of long messages: '
                  'the extracted model and spec run at ~10 KB/s, so beyond 64 KiB (1 MiB in thorough) the tie is not model/spec '
                  'against code but python hashlib against code (stream `huge`, op updrepx: 1, 2 and 3 MiB in quick; 2^29 + 8 KiB '
                  'and 2^32 + 4 MiB bytes in thorough - there a 32-bit `count << 3` and a 32-bit byte counter wrap); bytes 0..2 of '
                  'the 8-byte length field (messages >= 2^37 bytes) are never non-zero in any run. Side conditions of the theorems: bytes are 0..255 and everything that is finalized is shorter '
                  'than 2^61 bytes (beyond that the 64-bit bit counter of the code wraps; not reachable by a test). The theorems are '
                  'about the model; that the C++ computes what the model computes is validated by correspondence only (no clause of '
                  'the property is left unproved on the model side). RFC 4231 is a set of test vectors for RFC 2104: two of them are '
                  'Examples, the property is the RFC 2104 definition.')
    rule = ('cases = histories of update/finalize/reset/hash/hmac on one hasher; message lengths sweep the padding '
            'boundaries (0..300), 2- and 3-way chunkings, key lengths 0..200 across the block size; a case is '
            'non-trivial when it absorbs at least 56 bytes (more than one padding layout) or uses hmac or reuses the '
            'hasher after finalize/reset; long messages: 8191..8193 bytes, 64 KiB + 39 bytes (op updrep = the same chunk '
            'absorbed n times) through model and spec, 1/2/3 MiB (thorough: 2^29+, 2^32+ bytes) through op updrepx judged by '
            'python hashlib; distinct = distinct op text')
    assumptions = ['message length < 2^61 bytes (bit counter of the code wraps beyond)',
                   'input bytes are in 0..255 (wf_bytes)',
                   'FIPS 180-4 / RFC 2104 transcription in coq/Sha/ShaSpec.v (guarded by known-answer Examples)']

    def gen_tables(self):
        return [tables.gen_sha()]

    def nontrivial(self, case, obs):
        tot = 0
        for l in case:
            t = l.split()
            if l.startswith(('upd', 'hash')) and t[1] != '-':
                tot += len(t[1]) // 2 * (int(t[2]) if t[0].startswith('updrep') else 1)
        return tot >= 56 or any(l.startswith('hmac') for l in case) or sum(1 for l in case if l in ('fin', 'reset')) >= 2

    def streams(self, tier, rng):
        thorough = tier == 'thorough'
        out = []
        # every length 0..300 in one update, then reuse
        cases = []
        for n in range(0, 301):
            m = content(rng, n, n % 5)
            cases.append(['upd ' + hexs(m), 'fin', 'upd ' + hexs(m[:7]), 'fin'])
        out.append(Stream('lengths', cases, note='every message length 0..300, hasher reused after finalize'))
        # long messages: the length field beyond its two low bytes (bit length >= 2^16 from 8192 bytes on), through
        # model and spec (they run at ~10 KB/s: 64 KiB here, 1 MiB only in the thorough tier)
        p61 = content(rng, 61, 3)
        cases = [['upd ' + hexs(content(rng, 8191, 0)), 'fin'],
                 ['upd ' + hexs(content(rng, 8192, 0)), 'fin', 'upd ' + hexs(b'abc'), 'fin'],
                 ['updrep %s 128' % hexs(content(rng, 64, 0)), 'upd 80', 'fin'],
                 ['updrep %s 1075' % hexs(p61), 'fin', 'upd ' + hexs(p61[:3]), 'fin'],            # 65575 bytes = 64 KiB + 39
                 ['hmac %s %s' % (hexs(content(rng, 20, 0)), hexs(content(rng, 8128, 0))),        # inner hash = 8192 bytes
                  'hmac %s %s' % (hexs(content(rng, 70, 0)), hexs(content(rng, 9000, 3)))]]
        if thorough:
            cases.append(['updrep %s 1024' % hexs(content(rng, 1024, 0)), 'upd ' + hexs(b'\x01\x02\x03\x04\x05'), 'fin'])   # 1 MiB + 5
        out.append(Stream('long', cases, note='8191 / 8192 / 8193 bytes, 64 KiB + 39 bytes in 61-byte chunks, hmac over >= 8128 bytes'
                          + ('; 1 MiB + 5 bytes' if thorough else '') + ' - through model and spec'))
        # longer than the extracted model and spec can follow: op `updrepx` (they answer with wildcards), judged by python
        # hashlib in judge().  Bit length >= 2^24 from 2 MiB on; >= 2^32 from 2^29 bytes on (thorough: there a 32-bit
        # `count << 3` wraps), > 2^32 bytes (thorough: there a 32-bit counter wraps).
        cases = [['updrepx %s 1024' % hexs(content(rng, 1024, 0)), 'upd ' + hexs(b'\x01\x02\x03\x04\x05'), 'fin', 'upd ' + hexs(b'abc'), 'fin'],
                 ['updrepx %s 32768' % hexs(content(rng, 64, 0)), 'fin'],                          # 2 MiB: bit length exactly 2^24
                 ['updrepx %s 770' % hexs(content(rng, 4093, 0)), 'upd ' + hexs(content(rng, 100, 0)), 'fin', 'hash ' + hexs(b'abc')]]
        if thorough:
            cases.append(['updrepx %s 8194' % hexs(content(rng, 65521, 0)), 'upd ' + hexs(content(rng, 77, 0)), 'fin', 'upd ' + hexs(b'abc'), 'fin'])  # 2^29 + 8218 bytes
            cases.append(['updrepx %s 4100' % hexs(content(rng, 1048573, 0)), 'fin'])                # 2^32 + 4182228 bytes
        out.append(Stream('huge', cases, note='1 MiB + 5, 2 MiB, 3 MiB' + (', 2^29 + 8 KiB, 2^32 + 4 MiB' if thorough else '') +
                          ' bytes streamed through update(); results and byte counter judged by python hashlib (model and spec do not predict these)'))
        # 2-way chunkings: all split points for a set of boundary lengths (all lengths in thorough)
        cases = []
        lens = range(0, 301) if thorough else [0, 1, 54, 55, 56, 57, 63, 64, 65, 111, 119, 120, 127, 128, 129, 183, 184, 191, 192, 193, 255, 256, 300]
        for n in lens:
            m = content(rng, n, 0)
            splits = range(0, n + 1) if (thorough or n <= 130) else sorted(set(rng.randrange(n + 1) for _ in range(40)))
            for k in splits:
                cases.append(['upd ' + hexs(m[:k]), 'upd ' + hexs(m[k:]), 'fin'])
        out.append(Stream('chunk2', cases, note='all 2-way chunkings of boundary lengths'))
        # 3-way chunkings sampled
        cases = []
        for _ in range(4000 if thorough else 600):
            n = rng.choice([rng.randrange(0, 300), rng.randrange(50, 70), rng.randrange(110, 135), rng.randrange(0, 2000)])
            m = content(rng, n, rng.randrange(5))
            a = rng.randrange(n + 1)
            b = rng.randrange(a, n + 1)
            ops = ['upd ' + hexs(m[:a]), 'upd ' + hexs(m[a:b]), 'upd ' + hexs(m[b:]), 'fin']
            if rng.random() < 0.3:
                ops = ['upd ' + hexs(m[:5]), 'reset'] + ops
            cases.append(ops)
        out.append(Stream('chunk3', cases))
        # hmac: key lengths 0..200 x a few message lengths
        cases = []
        for kl in range(0, 201):
            key = content(rng, kl, rng.randrange(5))
            for ml in ([0, 1, 55, 64, 200] if thorough else [rng.choice([0, 1, 55, 56, 64, 119, 200])]):
                cases.append(['hmac %s %s' % (hexs(key), hexs(content(rng, ml, 0)))])
        out.append(Stream('hmac', cases, note='key lengths 0..200'))
        # long histories on one hasher
        cases = []
        for _ in range(300 if thorough else 60):
            ops = []
            for _ in range(rng.randrange(3, 25)):
                r = rng.random()
                if r < 0.55:
                    ops.append('upd ' + hexs(content(rng, rng.choice([0, 1, 3, 31, 32, 63, 64, 65, 100, 128, 500]), rng.randrange(5))))
                elif r < 0.75:
                    ops.append('fin')
                elif r < 0.85:
                    ops.append('reset')
                elif r < 0.93:
                    ops.append('hash ' + hexs(content(rng, rng.randrange(0, 200), 0)))
                else:
                    ops.append('hmac %s %s' % (hexs(content(rng, rng.choice([0, 10, 64, 65, 150]), 0)), hexs(content(rng, rng.randrange(100), 0))))
            ops.append('fin')
            cases.append(ops)
        out.append(Stream('histories', cases))
        return out

    # the extracted model and spec absorb ~10 KB/s: the 1 MiB case of the thorough tier needs more than vf's default budget
    def _slow(self, cases):
        return any(l.startswith('updrep ') and len(l.split()[1]) // 2 * int(l.split()[2]) > 200000 for c in cases for l in c)

    def _run_slow(self, cases, tag, args):
        # the extracted list functions (app, map) are not tail recursive: a 1 MiB message needs more than the 8 MB default stack
        import resource
        soft, hard = resource.getrlimit(resource.RLIMIT_STACK)
        resource.setrlimit(resource.RLIMIT_STACK, (hard, hard))
        try:
            return run_exe_on_cases(self.exes['model'], cases, os.path.join(BUILD, self.id, 'run'), tag, args=args, timeout=3000)[0]
        finally:
            resource.setrlimit(resource.RLIMIT_STACK, (soft, hard))

    def run_model(self, cases, tag='model'):
        return self._run_slow(cases, tag, self.model_args) if self._slow(cases) else Check.run_model(self, cases, tag)

    def run_spec(self, cases, tag='spec'):
        return self._run_slow(cases, tag, self.spec_args) if self._slow(cases) else Check.run_spec(self, cases, tag)

    def run_impl(self, cases, tag='impl'):
        # a case that streams up to 2^32 bytes through the sanitizer build needs more than the usual 10 s watchdog
        self.per_case_timeout = 900 if any(l.startswith('updrepx') for c in cases for l in c) else 10
        return Check.run_impl(self, cases, tag)

    def judge(self, cases, impl_obs, spec_obs):
        """The spec's expected observations; for cases with `updrepx` (which the extracted spec does not follow)
        python hashlib/hmac replays the history instead: result of every op and the byte counter after it."""
        fails = []
        for (i, k, reason) in Check.judge(self, cases, impl_obs, spec_obs):
            # constant 80-character head per kind of call: vf groups reports by it (one defect = one report)
            op = cases[i][k].split(' ')[0] if k < len(cases[i]) else 'crash'
            fails.append((i, k, ('%-80s' % ('call %s: the result differs from the FIPS 180-4 / RFC 2104 reference;' % op))[:80] + ' ' + reason))
        for i, (c, o) in enumerate(zip(cases, impl_obs)):
            if not any(l.startswith('updrepx') for l in c):
                continue
            h, n = hashlib.sha256(), 0
            for k, l in enumerate(c):
                t = l.split()
                arg = lambda j: b'' if t[j] == '-' else bytes.fromhex(t[j])
                want = '-'
                if t[0] == 'upd':
                    h.update(arg(1))
                    n += len(arg(1))
                elif t[0] in ('updrep', 'updrepx'):
                    d = arg(1)
                    for _ in range(int(t[2])):
                        h.update(d)
                    n += len(d) * int(t[2])
                elif t[0] == 'fin':
                    want = h.hexdigest()
                    h, n = hashlib.sha256(), 0
                elif t[0] == 'reset':
                    h, n = hashlib.sha256(), 0
                elif t[0] == 'hash':
                    want = hashlib.sha256(arg(1)).hexdigest()
                elif t[0] == 'hmac':
                    want = pyhmac.new(arg(1), arg(2), hashlib.sha256).hexdigest()
                got = o[k].split(' ') if k < len(o) else ['<nothing>']
                gotn = got[2] if len(got) > 2 else '<nothing>'
                if got[0] != want or gotn != str(n):
                    fails.append((i, k, '%-80s op %d `%s`: expected result %s and byte counter %d, implementation gives %s and %s' % (
                        'long message (python hashlib oracle): result or byte counter differs;', k, l[:40], want, n, got[0], gotn)))
                    break
        return fails

    def extra_checks(self, tier, rng, ctx):
        """Independent search oracle (never a proof): python hashlib/hmac against the implementation."""
        cases, want = [], []
        for _ in range(200):
            n = rng.randrange(0, 400)
            m = content(rng, n, 0)
            k = content(rng, rng.randrange(0, 150), 0)
            cases.append(['hash ' + hexs(m), 'hmac %s %s' % (hexs(k), hexs(m))])
            want.append((hashlib.sha256(m).hexdigest(), pyhmac.new(k, m, hashlib.sha256).hexdigest()))
        impl, _ = self.run_impl(cases, tag='impl_py')
        for c, o, w in zip(cases, impl, want):
            got = tuple(l.split(' ')[0] for l in o[:2])
            if got != w:
                p = self.write_replay('failing-input', 'python hashlib/hmac oracle', c, {'expected': w, 'got': got})
                ctx['violations'].append((p, ''))
                break


CHECK = C17
