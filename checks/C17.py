import os, sys, hashlib, hmac as pyhmac
from vf import Check, Stream, hexs, run_exe_on_cases, BUILD
sys.path.insert(0, os.path.join(os.path.dirname(os.path.abspath(__file__)), '..', 'gen'))
import tables


def content(rng, n, kind):
    if kind == 0:
        return bytes(rng.randrange(256) for _ in range(n))
    if kind == 1:
        return bytes([0] * n)
    if kind == 2:
        return bytes([0xff] * n)
    if kind == 3:
        return bytes((i * 7 + 1) & 0xff for i in range(n))
    return bytes([0x80] * n)


def fill_into(h, pat, n):
    """absorb n bytes, byte i = pat[i mod len(pat)], into the python hasher h (what updfill/hashfill/hmacfill pass in ONE call)"""
    if not pat or n <= 0:
        return
    blk = pat * ((1 << 20) // len(pat) + 1)
    q, r = divmod(n, len(blk))
    for _ in range(q):
        h.update(blk)
    h.update(blk[:r])


def fill_bytes(pat, n):
    return (pat * (n // len(pat) + 1))[:n] if pat and n > 0 else b''


BEYOND = ('updrepx', 'updfillx', 'hashfillx', 'hmacfillx')    # ops the extracted model and spec do not follow


class C17(Check):
    id = 'C17'
    comp = 'Sha'
    extracted = ['coq/Sha/model.mli', 'coq/Sha/model.ml', 'ocaml/zconv.ml', 'ocaml/sha_driver.ml']
    harness_sources = ['harness/sha.cpp']
    technique = ('machine-checked proof (Coq 8.16.1) about an executable Gallina model of Sha256.cpp/Sha256.hpp (refinement to a '
                 'transcription of FIPS 180-4 / RFC 2104, by invariant + induction over histories) + differential correspondence of the '
                 'extracted model and spec with the ASan/UBSan build of the code')
    level_text = ('Theorems in Coq (17, all closed under the global context), about the model of Sha256 (streaming update with the '
                  '64-byte buffer, Transform with the rolling 16-word window and the rotating register file, finalize with its padding '
                  'loop, hmac on one reused hasher): Transform = the FIPS 180-4 compression function for every state and block; an '
                  'invariant "hasher p has absorbed message m" holds initially and is preserved by update for every chunk, by '
                  'finalize and by reset; for every message < 2^61 bytes and every list of chunks, finalize returns the FIPS 180-4 '
                  'digest of the concatenation and leaves a fresh hasher; the padding loop never exhausts its fuel (no length bound); '
                  'hmac = RFC 2104 for every key length and message; and for every history of update/finalize/reset/hash/hmac '
                  'the observations of the model equal those of the spec (refinement by induction over the history). Round 5: '
                  'finalize_from_any_state / finalize_after_set_count / update_finalize_from_any_state - from EVERY internal state (any '
                  'eight state words, any value c of the 64-bit counter, any buffer) finalize, also after one more update(d), computes '
                  'the compression chain over the buffered bytes (+ d) + 0x80 + zero fill + the eight big-endian bytes of '
                  '8 (c + |d|) mod 2^64 (known-answer Examples against an independent python compression function). K/H0/ipad/opad '
                  'are regenerated from the source on every run and proved equal to the standard. The model is tied to the code by '
                  'running the extracted model, the extracted spec and the ASan/UBSan build of the working tree on the same '
                  'histories (results, byte counter, the eight state words and the 64-byte block buffer - stale bytes included - compared '
                  'after every operation); the histories include messages of 8191, 8192, 8193 and 65575 bytes and hmac over 8192 '
                  'hashed bytes (1 MiB in the thorough tier), hmac keys of 0..200, 255..257, 1000, 1023..1026, 2000, 4095..4097 bytes '
                  'and random lengths in 1025..4096, single update()/hash()/hmac() calls of 9..12 KB through model and spec and of '
                  '2^20 + 3 / 2^24 + 5 bytes (thorough: 2^29 + 64 and 2^32 + 5 bytes in ONE call) against python hashlib, and - white '
                  'box, against the model only - finalize()/update() from counter values around 2^29, 2^32, 2^35 ... 2^61, 2^64 - 1, '
                  'so that all eight bytes of the bit-length field are exercised. Round 6: independent hashers - '
                  'independent_hashers_refine_spec: n hashers under ANY interleaving of their operations each show the spec\'s '
                  'observations for their own operations (the model shares nothing between two hashers); tied to the code by op '
                  '`threads` (stream `threads`: 2..4 pthreads, each with its OWN Sha256 object - or its own static hash()/hmac() '
                  'calls - and its own message of 2..10 blocks, started together on a barrier, 12000 rounds (thorough 60000), every '
                  'thread\'s digest judged against model and spec) and by the translator, which refuses any storage of static '
                  'duration in Sha256.cpp/.hpp other than the constant table K. Objects are NOT shared between threads: two '
                  'threads calling update()/finalize() on ONE hasher is outside the text (a hasher absorbs one message) and is not '
                  'exercised. Also round 6: hmac()/hash() whose result buffer lies inside the key or message buffer (ops hmacalias / '
                  'hashalias, stream `alias`: key ratchet k = HMAC(k, label), every offset class) - the arguments of a call are the '
                  'bytes the buffers hold when it is made; "for every key length and every message" has no exception for a caller that '
                  'stores the result over an input.')
    level_note = ('Trusted: Coq kernel, the FIPS 180-4 / RFC 2104 transcription (ShaSpec.v; guarded by five known-answer Examples: '
                  'FIPS "abc", RFC 4231 cases 2 and 6, HMAC with a key of exactly 64 bytes (NIST CSRC example) and of 65 bytes, '
                  'and by python hashlib/hmac in extra_checks), extraction + OCaml driver, harness, '
                  'table translator (strict: gen/tables.py, self-test tools/test_tables.py). Code-level validation of long messages: '
                  'the extracted model and spec run at ~10 KB/s, so beyond 64 KiB (1 MiB in thorough) the tie is not model/spec '
                  'against code but python hashlib against code: stream `huge` (op updrepx, many calls: 1, 2 and 3 MiB in quick; '
                  '2^29 + 8 KiB and 2^32 + 4 MiB bytes in thorough) and stream `onecall` (ops updfillx / hashfillx / hmacfillx, ONE '
                  'call whose n bytes repeat a short pattern; the harness maps one small shared-memory object repeatedly instead of '
                  'allocating n bytes: 2^20 + 3 and 2^24 + 5 bytes, hmac key 70000 / message 2^20 + 1 in quick; 2^29 + 64 and 2^32 + 5 '
                  'bytes in thorough). The python oracle states RESULTS only; counter, state words and buffer are private and '
                  'compared with the model only. A 32-bit `size`, a 32-bit `count << 3` or a 32-bit byte counter therefore give a '
                  'FAILING INPUT in the thorough tier only (a single call or a message of >= 2^29 / 2^32 bytes costs minutes under '
                  'ASan); a 32-bit `size` of one call is not seen by the quick tier at all, the two counter slips are seen there by the '
                  'WHITE-BOX stream `counter`: op setcount overwrites the private member '
                  'Sha256::count (through `#define private public` - the one place where this harness WRITES private state, an '
                  'explicit exception to FRAMEWORK 7) with values around 2^29 ... 2^64 directly before the last update()/finalize(), '
                  'and the digest, the counter, the state words and the buffer are compared with the model run from the same '
                  'internal state. That is a correspondence of finalize/update from a given state (theorems finalize_from_any_state and '
                  'update_finalize_from_any_state say what the model computes there: every byte of the length field), not an end-to-end run: the spec prints '
                  'wildcards for such a case, a difference is reported as no-failing-input-found, and an implementation that keeps '
                  'its counter in another representation would differ there without breaking the property. Messages of >= 2^37 '
                  'bytes (bytes 0..2 of the length field non-zero) are reached ONLY this way; end-to-end they are out of reach of '
                  'both tiers (30 MB/s under ASan). Not tied: a single call longer than 2^32 + 5 bytes; hmac keys or messages >= 2^32 bytes; '
                  'aliasing of key with message, or of update()\'s argument with the hasher object itself. '
                  'Threads (round 6): op `threads` depends on the scheduler only when the library shares state between unrelated '
                  'hashers; on the unchanged tree its output is deterministic (no shared state, checked under load), on a tree with '
                  'shared state every case of the stream showed a wrong digest on 16, 2 and 1 cores (12000 rounds of 2..10 blocks per '
                  'thread: thousands of preemptions inside Transform), but a replay of such a case is in principle probabilistic. The '
                  'model has no threads: the driver runs every thread\'s operations on a machine of its own (theorem '
                  'independent_hashers_refine_spec says that this is what any interleaving gives); interleavings below the '
                  'granularity of one operation exist only in the code and are covered by the dynamic run and the syntactic '
                  '"no static storage but K" guard, not by a theorem. '
                  'Side conditions of the theorems: bytes are 0..255 and everything that is finalized is shorter '
                  'than 2^61 bytes (beyond that the 64-bit bit counter of the code wraps; not reachable by a test). The theorems are '
                  'about the model; that the C++ computes what the model computes is validated by correspondence only (no clause of '
                  'the property is left unproved on the model side). RFC 4231 is a set of test vectors for RFC 2104: two of them are '
                  'Examples, the property is the RFC 2104 definition. On a tree where nearly every case crashes or hangs a stream is '
                  'abandoned after 150 crashed cases (or 200 s of wall time in crashing or hanging slices over the run).')
    rule = ('cases = histories of update/finalize/reset/hash/hmac on one hasher; message lengths sweep the padding '
            'boundaries (0..300), 2- and 3-way chunkings, key lengths 0..200 across the block size and long keys (255..257, 1000, '
            '1023..1026, 2000, 4095..4097, random 1025..4096); a case is '
            'non-trivial when it absorbs at least 56 bytes (more than one padding layout) or uses hmac or reuses the '
            'hasher after finalize/reset or sets the counter (white box); long messages: 8191..8193 bytes, 64 KiB + 39 bytes (op updrep = the same chunk '
            'absorbed n times) through model and spec, 1/2/3 MiB (thorough: 2^29+, 2^32+ bytes) through op updrepx judged by '
            'python hashlib; long single calls: ops updfill/hashfill/hmacfill (n pattern bytes in ONE call) through model and spec, '
            '...x variants judged by python hashlib/hmac; op setcount (white box) judged by the model only; op threads (N threads with private hashers, judged per thread by model and spec); ops '
            'hmacalias / hashalias (result buffer inside an input buffer); distinct = distinct op text')
    assumptions = ['message length < 2^61 bytes (bit counter of the code wraps beyond)',
                   'input bytes are in 0..255 (wf_bytes)',
                   'FIPS 180-4 / RFC 2104 transcription in coq/Sha/ShaSpec.v (guarded by known-answer Examples)',
                   'messages >= 2^37 bytes: the code\'s finalize() is tied to the model only from a poked counter (white-box op setcount), not end-to-end',
                   'hasher objects are not shared between threads (each thread uses its own Sha256 object / its own static calls)',
                   'a 32-bit size/counter slip is reported with a failing input in the thorough tier only (quick: the counter slips as '
                   'white-box correspondence, a 32-bit size of a single call not at all)']

    def gen_tables(self):
        return [tables.gen_sha()]

    def nontrivial(self, case, obs):
        tot = 0
        for l in case:
            t = l.split()
            if l.startswith(('updfill', 'hashfill')):
                tot += int(t[2]) if t[1] != '-' else 0
            elif l.startswith(('upd', 'hash')) and t[1] != '-':
                tot += len(t[1]) // 2 * (int(t[2]) if t[0].startswith('updrep') else 1)
        return (tot >= 56 or any(l.startswith(('hmac', 'setcount', 'threads', 'hashalias')) for l in case)
                or sum(1 for l in case if l in ('fin', 'reset')) >= 2)

    def streams(self, tier, rng):
        thorough = tier == 'thorough'
        out = []
        # every length 0..300 in one update, then reuse
        cases = []
        for n in range(0, 301):
            m = content(rng, n, n % 5)
            cases.append(['upd ' + hexs(m), 'fin', 'upd ' + hexs(m[:7]), 'fin'])
        out.append(Stream('lengths', cases, note='every message length 0..300, hasher reused after finalize'))
        # long messages: the length field beyond its two low bytes (bit length >= 2^16 from 8192 bytes on), through
        # model and spec (they run at ~10 KB/s: 64 KiB here, 1 MiB only in the thorough tier)
        p61 = content(rng, 61, 3)
        cases = [['upd ' + hexs(content(rng, 8191, 0)), 'fin'],
                 ['upd ' + hexs(content(rng, 8192, 0)), 'fin', 'upd ' + hexs(b'abc'), 'fin'],
                 ['updrep %s 128' % hexs(content(rng, 64, 0)), 'upd 80', 'fin'],
                 ['updrep %s 1075' % hexs(p61), 'fin', 'upd ' + hexs(p61[:3]), 'fin'],            # 65575 bytes = 64 KiB + 39
                 ['hmac %s %s' % (hexs(content(rng, 20, 0)), hexs(content(rng, 8128, 0))),        # inner hash = 8192 bytes
                  'hmac %s %s' % (hexs(content(rng, 70, 0)), hexs(content(rng, 9000, 3)))]]
        if thorough:
            cases.append(['updrep %s 1024' % hexs(content(rng, 1024, 0)), 'upd ' + hexs(b'\x01\x02\x03\x04\x05'), 'fin'])   # 1 MiB + 5
        out.append(Stream('long', cases, note='8191 / 8192 / 8193 bytes, 64 KiB + 39 bytes in 61-byte chunks, hmac over >= 8128 bytes'
                          + ('; 1 MiB + 5 bytes' if thorough else '') + ' - through model and spec'))
        # longer than the extracted model and spec can follow: op `updrepx` (they answer with wildcards), judged by python
        # hashlib in judge().  Bit length >= 2^24 from 2 MiB on; >= 2^32 from 2^29 bytes on (thorough: there a 32-bit
        # `count << 3` wraps), > 2^32 bytes (thorough: there a 32-bit counter wraps).
        cases = [['updrepx %s 1024' % hexs(content(rng, 1024, 0)), 'upd ' + hexs(b'\x01\x02\x03\x04\x05'), 'fin', 'upd ' + hexs(b'abc'), 'fin'],
                 ['updrepx %s 32768' % hexs(content(rng, 64, 0)), 'fin'],                          # 2 MiB: bit length exactly 2^24
                 ['updrepx %s 770' % hexs(content(rng, 4093, 0)), 'upd ' + hexs(content(rng, 100, 0)), 'fin', 'hash ' + hexs(b'abc')]]
        if thorough:
            cases.append(['updrepx %s 8194' % hexs(content(rng, 65521, 0)), 'upd ' + hexs(content(rng, 77, 0)), 'fin', 'upd ' + hexs(b'abc'), 'fin'])  # 2^29 + 8218 bytes
            cases.append(['updrepx %s 4100' % hexs(content(rng, 1048573, 0)), 'fin'])                # 2^32 + 4182228 bytes
        out.append(Stream('huge', cases, note='1 MiB + 5, 2 MiB, 3 MiB' + (', 2^29 + 8 KiB, 2^32 + 4 MiB' if thorough else '') +
                          ' bytes streamed through update(); results and byte counter judged by python hashlib (model and spec do not predict these)'))
        # ONE update()/hash()/hmac() call with a long argument (the width of `size`, `keySize`, `messageSize`): ops
        # updfill / hashfill / hmacfill pass n bytes (byte i = pattern[i mod len]) in a single call.  Through model and
        # spec up to ~20 KB; beyond that (`...x`) python hashlib/hmac judges.  A single call of 2^32 + 5 bytes costs
        # minutes under ASan: thorough tier only.
        p61, p7, p64 = content(rng, 61, 0), content(rng, 7, 0), content(rng, 64, 0)
        cases = [['updfill %s 12011' % hexs(p61), 'fin', 'upd ' + hexs(b'abc'), 'fin'],
                 ['upd ' + hexs(content(rng, 5, 0)), 'updfill %s 9001' % hexs(p7), 'upd ' + hexs(content(rng, 70, 0)), 'fin'],
                 ['hashfill %s 9999' % hexs(p64)],
                 ['hmacfill %s 3000 %s 9001' % (hexs(p61), hexs(p7))],
                 ['updfillx %s 1048579' % hexs(p61), 'fin', 'upd ' + hexs(b'abc'), 'fin'],       # 2^20 + 3 in one call
                 ['upd ' + hexs(content(rng, 7, 0)), 'updfillx %s 16777221' % hexs(p64), 'fin'],    # 2^24 + 5 in one call
                 ['hashfillx %s 2097153' % hexs(p7)],
                 ['hmacfillx %s 70000 %s 1048577' % (hexs(p61), hexs(p64)),                         # long key AND long message
                  'hmacfillx %s 65537 %s 65537' % (hexs(p7), hexs(p61))]]
        if thorough:
            cases.append(['upd ' + hexs(b'\x01\x02\x03'), 'updfillx %s 536870976' % hexs(p61), 'fin'])  # 2^29 + 64: bit length crosses 2^32
            cases.append(['updfillx %s 4294967301' % hexs(p61), 'fin', 'upd ' + hexs(b'abc'), 'fin']) # 2^32 + 5 in ONE call
            cases.append(['hmacfill %s 65537 %s 65537' % (hexs(p7), hexs(p61))])                     # through model and spec
        out.append(Stream('onecall', cases, note='one update()/hash()/hmac() call with a long argument: 9001..12011 bytes through model and '
                          'spec, 2^20 + 3, 2^24 + 5 bytes (hmac: key 70000, message 2^20 + 1) judged by python hashlib/hmac'
                          + ('; 2^29 + 64 and 2^32 + 5 bytes in one update() call' if thorough else '')))
        # WHITE BOX: the private byte counter is overwritten (op setcount, `#define private public` in the harness) in
        # front of the last update()/finalize(), so that every byte of the 64-bit length field and the counter's
        # crossings of 2^29 (bit length 2^32), 2^32, 2^35, ... 2^61 are exercised without hashing exabytes.  Only the
        # MODEL predicts these cases (finalize/update from a given internal state; theorem finalize_from_any_state);
        # the spec answers with wildcards: a difference is reported as `no-failing-input-found`.
        cases = []
        for k in (29, 32, 35, 37, 40, 45, 48, 53, 56, 61, 64):
            for base in (2 ** k - 64, 2 ** k, 2 ** k + 64 * rng.randrange(1, 2 ** 20)):
                for r in (0, rng.choice([1, 7, 31]), 55, 56, 63):
                    if base + r >= 2 ** 64:
                        continue
                    cases.append(['upd ' + hexs(content(rng, 64 * rng.randrange(0, 3) + r, 0)), 'setcount %d' % (base + r),
                                  'fin', 'upd ' + hexs(b'abc'), 'fin'])
            # an update() that carries the counter across 2^k, then finalize
            r = rng.randrange(64)
            cases.append(['upd ' + hexs(content(rng, r, 0)), 'setcount %d' % (2 ** k - 64 + r),
                          'upd ' + hexs(content(rng, rng.randrange(64 - r, 200), 0)), 'fin'] if k < 64 else
                         ['setcount %d' % (2 ** 64 - 1), 'upd ' + hexs(content(rng, 70, 0)), 'fin'])
        for _ in range(200 if thorough else 40):
            c = rng.getrandbits(rng.choice([33, 40, 48, 56, 61, 61, 64]))      # all eight length bytes non-zero; any buffer position
            ops = ['upd ' + hexs(content(rng, rng.randrange(0, 130), 0)), 'setcount %d' % c]
            if rng.random() < 0.5:
                ops.append('upd ' + hexs(content(rng, rng.randrange(0, 130), 0)))
            cases.append(ops + ['fin', 'upd ' + hexs(content(rng, 3, 0)), 'fin'])
        out.append(Stream('counter', cases, note='WHITE BOX: byte counter set (private member) to values around 2^29 ... 2^64 before the last '
                          'update/finalize; compared with the MODEL only (all eight bytes of the length field, counter crossings)'))
        # independent hashers in different threads: N (2..4) pthreads, each with its OWN Sha256 object (or its own static
        # hash()/hmac() calls), its own message of several blocks, all started together and repeated for many rounds so that
        # the Transform calls of different objects overlap in time.  Nothing is shared between the threads, so model and
        # spec (which have no threads) predict every thread's digest from its own message alone.
        rounds = 60000 if thorough else 12000
        cases = []
        for n in (2, 3, 4, 4):
            ms = [content(rng, rng.choice([130, 200, 257, 320, 448, 600]), 0) for _ in range(n)]
            cases.append(['threads upd %d %d %s' % (rounds, rng.choice([0, 1, 61, 64, 77]), ' '.join(hexs(m) for m in ms))])
        ms = [content(rng, rng.randrange(120, 400), 0) for _ in range(4)]
        cases.append(['threads hash %d 0 %s' % (rounds, ' '.join(hexs(m) for m in ms))])
        for n in (3, 4):
            km = [(content(rng, rng.choice([0, 20, 64, 65, 131]), 0), content(rng, rng.randrange(60, 300), 0)) for _ in range(n)]
            cases.append(['threads hmac %d 0 %s' % (rounds // 2, ' '.join(hexs(k) + ' ' + hexs(m) for k, m in km))])
        # the hasher of the enclosing history is untouched by what other threads hash in the meantime
        ms = [content(rng, 200, 0) for _ in range(3)]
        cases.append(['upd ' + hexs(content(rng, 70, 0)), 'threads upd %d 50 %s' % (rounds // 2, ' '.join(hexs(m) for m in ms)),
                      'upd ' + hexs(content(rng, 70, 3)), 'fin'])
        if thorough:
            for _ in range(8):
                n = rng.randrange(2, 5)
                ms = [content(rng, rng.randrange(65, 700), rng.randrange(5)) for _ in range(n)]
                cases.append(['threads upd %d %d %s' % (rounds, rng.choice([0, 7, 64, 100]), ' '.join(hexs(m) for m in ms))])
        out.append(Stream('threads', cases, note='2..4 threads, each with its own Sha256 object / its own hash() or hmac() calls and its own '
                          'message (2..10 blocks), started together, %d rounds; no object or buffer is shared between threads' % rounds))
        # hmac()/hash() whose result buffer lies inside the key or the message buffer (key ratchet k = HMAC(k, label); digest
        # written over the message): the arguments of the call are the bytes the buffers hold when the call is made
        cases = []
        for kl in (0, 1, 16, 31, 32, 33, 48, 63, 64, 65, 100, 200):
            for off in sorted({0, kl // 2, max(0, kl - 32), rng.randrange(0, kl + 1)}):
                cases.append(['hmacalias k %d %s %s' % (off, hexs(content(rng, kl, 0)), hexs(content(rng, rng.choice([0, 5, 32, 64, 150]), 0)))])
        for ml in (0, 1, 31, 32, 33, 55, 64, 65, 128, 300):
            for off in sorted({0, ml // 2, max(0, ml - 32), rng.randrange(0, ml + 1)}):
                cases.append(['hmacalias m %d %s %s' % (off, hexs(content(rng, rng.choice([0, 20, 32, 64, 65, 100]), 0)), hexs(content(rng, ml, 0)))])
                cases.append(['hashalias %d %s' % (off, hexs(content(rng, ml, 0)))])
        # a ratchet on one history: k1 = HMAC(k0, label) written over k0, three steps (each step judged on its own)
        k = content(rng, 32, 0)
        ops = []
        for lbl in (b'a', b'label-2', content(rng, 70, 0)):
            ops.append('hmacalias k 0 %s %s' % (hexs(k), hexs(lbl)))
            k = pyhmac.new(k, lbl, hashlib.sha256).digest()
        cases.append(ops)
        out.append(Stream('alias', cases, note='hmac() with the result buffer inside the key buffer (key ratchet) or inside the message '
                          'buffer, hash() with the result inside the message buffer; every offset class (start, middle, tail, beyond the end)'))
        # 2-way chunkings: all split points for a set of boundary lengths (all lengths in thorough)
        cases = []
        lens = range(0, 301) if thorough else [0, 1, 54, 55, 56, 57, 63, 64, 65, 111, 119, 120, 127, 128, 129, 183, 184, 191, 192, 193, 255, 256, 300]
        for n in lens:
            m = content(rng, n, 0)
            splits = range(0, n + 1) if (thorough or n <= 130) else sorted(set(rng.randrange(n + 1) for _ in range(40)))
            for k in splits:
                cases.append(['upd ' + hexs(m[:k]), 'upd ' + hexs(m[k:]), 'fin'])
        out.append(Stream('chunk2', cases, note='all 2-way chunkings of boundary lengths'))
        # 3-way chunkings sampled
        cases = []
        for _ in range(4000 if thorough else 600):
            n = rng.choice([rng.randrange(0, 300), rng.randrange(50, 70), rng.randrange(110, 135), rng.randrange(0, 2000)])
            m = content(rng, n, rng.randrange(5))
            a = rng.randrange(n + 1)
            b = rng.randrange(a, n + 1)
            ops = ['upd ' + hexs(m[:a]), 'upd ' + hexs(m[a:b]), 'upd ' + hexs(m[b:]), 'fin']
            if rng.random() < 0.3:
                ops = ['upd ' + hexs(m[:5]), 'reset'] + ops
            cases.append(ops)
        out.append(Stream('chunk3', cases))
        # hmac: key lengths 0..200 x a few message lengths
        cases = []
        for kl in range(0, 201):
            key = content(rng, kl, rng.randrange(5))
            for ml in ([0, 1, 55, 64, 200] if thorough else [rng.choice([0, 1, 55, 56, 64, 119, 200])]):
                cases.append(['hmac %s %s' % (hexs(key), hexs(content(rng, ml, 0)))])
        # long keys (hashed first): around 2^8, 2^10, 2^12 and random lengths in 1025..4096; a few KiB cost < 1 s in model and spec
        longk = [255, 256, 257, 1000, 1023, 1024, 1025, 1026, 2000, 4095, 4096, 4097] + [rng.randrange(1025, 4097) for _ in range(24 if thorough else 6)]
        for kl in longk:
            key = content(rng, kl, 0 if kl != 1024 else 3)
            for ml in ([0, 64, 200] if thorough else [rng.choice([0, 1, 55, 64, 200])]):
                cases.append(['hmac %s %s' % (hexs(key), hexs(content(rng, ml, 0)))])
        if thorough:
            cases.append(['hmac %s %s' % (hexs(content(rng, 16385, 0)), hexs(content(rng, 100, 0)))])
        out.append(Stream('hmac', cases, note='key lengths 0..200, 255..257, 1000, 1023..1026, 2000, 4095..4097 and random lengths in 1025..4096'
                          + (', 16385' if thorough else '')))
        # long histories on one hasher
        cases = []
        for _ in range(300 if thorough else 60):
            ops = []
            for _ in range(rng.randrange(3, 25)):
                r = rng.random()
                if r < 0.55:
                    ops.append('upd ' + hexs(content(rng, rng.choice([0, 1, 3, 31, 32, 63, 64, 65, 100, 128, 500]), rng.randrange(5))))
                elif r < 0.75:
                    ops.append('fin')
                elif r < 0.85:
                    ops.append('reset')
                elif r < 0.93:
                    ops.append('hash ' + hexs(content(rng, rng.randrange(0, 200), 0)))
                else:
                    ops.append('hmac %s %s' % (hexs(content(rng, rng.choice([0, 10, 64, 65, 150]), 0)), hexs(content(rng, rng.randrange(100), 0))))
            ops.append('fin')
            cases.append(ops)
        out.append(Stream('histories', cases))
        return out

    # the extracted model and spec absorb ~10 KB/s: the 1 MiB case of the thorough tier needs more than vf's default budget
    def _slow(self, cases):
        return any(l.startswith('updrep ') and len(l.split()[1]) // 2 * int(l.split()[2]) > 200000 for c in cases for l in c)

    def _run_slow(self, cases, tag, args):
        # the extracted list functions (app, map) are not tail recursive: a 1 MiB message needs more than the 8 MB default stack
        import resource
        soft, hard = resource.getrlimit(resource.RLIMIT_STACK)
        resource.setrlimit(resource.RLIMIT_STACK, (hard, hard))
        try:
            return run_exe_on_cases(self.exes['model'], cases, os.path.join(BUILD, self.id, 'run'), tag, args=args, timeout=3000)[0]
        finally:
            resource.setrlimit(resource.RLIMIT_STACK, (soft, hard))

    def _run_pure(self, cases, tag, args):
        """vf.run_sharded with a time limit that also holds on a heavily loaded machine (the default, 0.05 s per case, was
        exceeded by a 2800-case shard of the thorough tier at load 70): 60 s + 1 s per case and shard."""
        import vf
        n = len(cases)
        wd = os.path.join(BUILD, self.id, 'run')
        if n < 48:
            return run_exe_on_cases(self.exes['model'], cases, wd, tag, args=args, timeout=600)[0]
        from concurrent.futures import ThreadPoolExecutor
        k = min(vf.NCPU, max(1, n // 16))
        size = (n + k - 1) // k
        shards = [cases[i:i + size] for i in range(0, n, size)]
        with ThreadPoolExecutor(max_workers=k) as ex:
            futs = [ex.submit(run_exe_on_cases, self.exes['model'], sc, wd, '%s_s%d' % (tag, j), args, 60 + len(sc))
                    for j, sc in enumerate(shards)]
            res = []
            for f in futs:
                res += f.result()[0]
        return res

    def run_model(self, cases, tag='model'):
        return self._run_slow(cases, tag, self.model_args) if self._slow(cases) else self._run_pure(cases, tag, self.model_args)

    def run_spec(self, cases, tag='spec'):
        return self._run_slow(cases, tag, self.spec_args) if self._slow(cases) else self._run_pure(cases, tag, self.spec_args)

    # Give up early on a tree where (nearly) every case crashes or hangs: a stream is run in slices of 50 cases (5 for the
    # first slice and once a slice has crashed); after 150 crashed cases in one stream, or 200 s of wall time spent in
    # slices that contained a crash or a watchdog timeout (over the whole run), the remaining cases of the stream are not
    # run (vf drops them and reports what it has; the first case of every stream is always run).
    CRASH_CAP, BAD_BUDGET_S = 150, 200

    @staticmethod
    def _case_timeout(c):
        """watchdog for one case: 10 s + 1 s per 4 MB passed to the sanitizer build (it absorbs ~30 MB/s on an idle machine)"""
        n = 0
        for l in c:
            t = l.split()
            if t[0] in ('updrep', 'updrepx'):
                n += len(t[1]) // 2 * int(t[2])
            elif t[0] in ('updfill', 'updfillx', 'hashfill', 'hashfillx'):
                n += int(t[2])
            elif t[0] in ('hmacfill', 'hmacfillx'):
                n += int(t[2]) + int(t[4])
            elif t[0] == 'threads':                      # all threads' bytes over all rounds, as if run one after the other
                n += int(t[2]) * sum(len(x) // 2 for x in t[4:] if x != '-')
        return 10 + n // 4000000

    def run_impl(self, cases, tag='impl'):
        import time
        n = len(cases)
        res, crashes = [['! notrun'] for _ in range(n)], {}
        bad = getattr(self, '_bad_s', 0.0)
        i = 0
        while i < n:
            spent = len(crashes) >= self.CRASH_CAP or bad >= self.BAD_BUDGET_S
            if spent and i > 0:
                break
            to = self._case_timeout(cases[i])
            j = i + 1
            width = 50 if (bad == 0 and i > 0) else 5
            while not spent and to == 10 and j < n and j - i < width and self._case_timeout(cases[j]) == 10:
                j += 1
            self.per_case_timeout = to
            t0 = time.time()
            r, cr = Check.run_impl(self, cases[i:j], tag)
            res[i:j] = r
            for k, v in cr.items():
                crashes[i + k] = v
            if cr:
                bad += time.time() - t0
            i = j
        self._bad_s = bad
        return res, crashes

    def judge(self, cases, impl_obs, spec_obs):
        """The spec's expected observations; for cases with an op the extracted spec does not follow (BEYOND: a message or a
        single call too long for it) python hashlib/hmac replays the history instead and states the RESULT of every
        call - nothing else: the byte counter, the state words and the buffer are private and belong to the
        model/implementation correspondence only.  Cases with the white-box op `setcount` are not judged here at all
        (the spec prints wildcards from there on)."""
        fails = []
        for (i, k, reason) in Check.judge(self, cases, impl_obs, spec_obs):
            # constant 80-character head per kind of call: vf groups reports by it (one defect = one report)
            op = cases[i][k].split(' ')[0] if k < len(cases[i]) else 'crash'
            fails.append((i, k, ('%-80s' % ('call %s: the result differs from the FIPS 180-4 / RFC 2104 reference;' % op))[:80] + ' ' + reason))
        for i, (c, o) in enumerate(zip(cases, impl_obs)):
            if not any(l.startswith(BEYOND) for l in c) or any(l.startswith('setcount') for l in c):
                continue
            h = hashlib.sha256()
            for k, l in enumerate(c):
                t = l.split()
                arg = lambda j: b'' if t[j] == '-' else bytes.fromhex(t[j])
                want = '-'
                if t[0] == 'upd':
                    h.update(arg(1))
                elif t[0] in ('updrep', 'updrepx'):
                    d = arg(1)
                    for _ in range(int(t[2])):
                        h.update(d)
                elif t[0] in ('updfill', 'updfillx'):
                    fill_into(h, arg(1), int(t[2]))
                elif t[0] == 'fin':
                    want = h.hexdigest()
                    h = hashlib.sha256()
                elif t[0] == 'reset':
                    h = hashlib.sha256()
                elif t[0] == 'hash':
                    want = hashlib.sha256(arg(1)).hexdigest()
                elif t[0] in ('hashfill', 'hashfillx'):
                    g = hashlib.sha256()
                    fill_into(g, arg(1), int(t[2]))
                    want = g.hexdigest()
                elif t[0] == 'hmac':
                    want = pyhmac.new(arg(1), arg(2), hashlib.sha256).hexdigest()
                elif t[0] in ('hmacfill', 'hmacfillx'):
                    g = pyhmac.new(fill_bytes(arg(1), int(t[2])), None, hashlib.sha256)
                    fill_into(g, arg(3), int(t[4]))
                    want = g.hexdigest()
                got = o[k].split(' ') if k < len(o) else ['<nothing>']
                if got[0] != want:
                    fails.append((i, k, '%-80s op %d `%s`: expected result %s, implementation gives %s' % (
                        'long message or long single call (python hashlib/hmac oracle): result differs;', k, l[:60], want, got[0])))
                    break
        return fails

    def extra_checks(self, tier, rng, ctx):
        """Independent search oracle (never a proof): python hashlib/hmac against the implementation."""
        cases, want = [], []
        for j in range(200):
            n = rng.randrange(0, 400) if j % 10 else rng.randrange(400, 70000)
            m = content(rng, n, 0)
            k = content(rng, rng.randrange(0, 150) if j % 4 else rng.choice([rng.randrange(150, 1025), rng.randrange(1025, 6000), 70001]), 0)
            cases.append(['hash ' + hexs(m), 'hmac %s %s' % (hexs(k), hexs(m))])
            want.append((hashlib.sha256(m).hexdigest(), pyhmac.new(k, m, hashlib.sha256).hexdigest()))
        impl, _ = self.run_impl(cases, tag='impl_py')
        for c, o, w in zip(cases, impl, want):
            if o == ['! notrun']:          # run_impl gave up on a tree where everything crashes or hangs
                continue
            got = tuple(l.split(' ')[0] for l in o[:2])
            if got != w:
                j = 0 if got[:1] != w[:1] else 1          # the call that differs, alone (hash and hmac are static: no history)
                p = self.write_replay('failing-input', 'python hashlib/hmac oracle', [c[j]], {'expected': w[j], 'got': got[j] if j < len(got) else '<nothing>'})
                ctx['violations'].append((p, ''))
                break


CHECK = C17
