import os, sys, itertools
from vf import Check, Stream, hexs

ALPHA = [b'/', b'\\', b'.', b'a', b'b']


def all_strings(maxlen):
    out = [b'']
    for n in range(1, maxlen + 1):
        for t in itertools.product(ALPHA, repeat=n):
            out.append(b''.join(t))
    return out


VOCAB = [b'.', b'..', b'a', b'b', b'ab', b'a.b', b'x.tar.gz', b'.hid', b'c:', b'', b'name.', b'..a', b'...', b'long_name-1']


def rand_path(rng, maxc=7):
    n = rng.randrange(0, maxc)
    cs = [rng.choice(VOCAB) for _ in range(n)]
    seps = [b'/', b'/', b'/', b'\\', b'//']
    s = b''
    if rng.random() < 0.4:
        s += rng.choice([b'/', b'\\', b'//'])
    for i, c in enumerate(cs):
        if i:
            s += rng.choice(seps)
        s += c
    if rng.random() < 0.25:
        s += rng.choice([b'/', b'\\'])
    return s


def unhex(h):
    return b'' if h == '-' else bytes.fromhex(h)


class C19(Check):
    id = 'C19'
    comp = 'Path'
    extracted = ['coq/Path/model.mli', 'coq/Path/model.ml', 'ocaml/zconv.ml', 'ocaml/path_driver.ml']
    harness_sources = ['harness/path.cpp']
    level_text = 'TODO'
    level_note = 'TODO'
    technique = 'machine-checked proof (Coq) + model/implementation correspondence'
    rule = 'TODO'
    assumptions = []

    def nontrivial(self, case, obs):
        for l in case:
            for a in l.split()[1:]:
                if a == '-' or not all(ch in '0123456789abcdef' for ch in a):
                    continue
                b = unhex(a)
                if any(ch in b for ch in b'/\\') and any(ch not in b'/\\' for ch in b):
                    return True
        return False

    FIELDS = {'parts': ['directory', 'base', 'stem', 'extension'], 'basex': ['base', 'stem'],
              'simp': ['simplified', 'simplified-twice'], 'abs': ['absolute'], 'rel': ['relative', 'from+relative']}

    def judge(self, cases, impl_obs, spec_obs):
        """default comparison, but the reason starts with a class (operation, field, kind of the first
        argument) so that one report is made per kind of failure rather than per byte pattern"""
        from vf import first_diff
        fails = []
        for i, (s, o) in enumerate(zip(spec_obs, impl_obs)):
            k = first_diff(s, o)
            if k is None:
                continue
            exp = s[k] if k < len(s) else '<nothing>'
            got = o[k] if k < len(o) else '<nothing>'
            opl = cases[i][k].split() if k < len(cases[i]) else ['?']
            if opl[0].startswith('@'):
                opl = ['?']
            field = '?'
            et, gt = exp.split(' | ')[0].split(' '), got.split(' | ')[0].split(' ')
            for j, (a, b) in enumerate(zip(et, gt)):
                if a != b and a != '?':
                    names = self.FIELDS.get(opl[0], [])
                    field = names[j] if j < len(names) else 'field%d' % j
                    break
            kind = ''
            if opl[0] in self.FIELDS and len(opl) > 1:
                a = unhex(opl[1])
                kind = 'absolute' if a[:1] in (b'/', b'\\') else ('empty' if not a else 'relative')
            if got.startswith('!'):
                field = got
            cls = ('%s/%s/%s' % (opl[0], field, kind)).replace('0', 'o').ljust(80)
            fails.append((i, k, '%s spec expects `%s`, implementation gives `%s`' % (cls, exp, got)))
        return fails

    def streams(self, tier, rng):
        thorough = tier == 'thorough'
        out = []
        # A1: every string up to length 7 (5 quick) over { / \ . a b }
        L1 = 7 if thorough else 5
        cases = [['parts ' + hexs(s), 'simp ' + hexs(s), 'abs ' + hexs(s)] for s in all_strings(L1)]
        out.append(Stream('paths-exhaustive', cases, exhaustive=True,
                          note='all strings of length <= %d over {/ \\ . a b}' % L1))
        # A2: all pairs up to length 4 (3 quick) for getRelativePath, one case per `from`
        L2 = 4 if thorough else 3
        S2 = all_strings(L2)
        cases = [['rel %s %s' % (hexs(f), hexs(t)) for t in S2] for f in S2]
        out.append(Stream('relative-exhaustive', cases, exhaustive=True,
                          note='all pairs of strings of length <= %d over {/ \\ . a b}' % L2))
        # A3: base name / stem with an explicit extension
        S3 = all_strings(4 if thorough else 3)
        E3 = all_strings(3 if thorough else 2)
        cases = [['basex %s %s' % (hexs(p), hexs(e)) for e in E3] for p in S3]
        out.append(Stream('extension-exhaustive', cases, exhaustive=True))
        # A4: random longer paths from a vocabulary of components
        cases = []
        for _ in range(6000 if thorough else 1200):
            p, q = rand_path(rng), rand_path(rng)
            if rng.random() < 0.5:       # same kind, sharing a prefix: the interesting relative paths
                pre = rand_path(rng, 4)
                p, q = pre + b'/' + p, pre + b'/' + q
            e = rng.choice([b'gz', b'.gz', b'tar.gz', b'.b', b'b', b'.', b'', b'hid'])
            cases.append(['parts ' + hexs(p), 'simp ' + hexs(p), 'abs ' + hexs(p), 'basex %s %s' % (hexs(p), hexs(e)),
                          'rel %s %s' % (hexs(p), hexs(q)), 'rel %s %s' % (hexs(q), hexs(p))])
        out.append(Stream('paths-random', cases))
        return out


CHECK = C19
