import os, sys, itertools, resource
from vf import Check, Stream, hexs

# the extracted model works on Peano numbers and plain lists: files of some 100 KB need a deep stack
try:
    resource.setrlimit(resource.RLIMIT_STACK, (resource.RLIM_INFINITY, resource.RLIM_INFINITY))
except (ValueError, OSError):
    pass

ALPHA = [b'/', b'\\', b'.', b'a', b'b']


def all_strings(maxlen):
    out = [b'']
    for n in range(1, maxlen + 1):
        for t in itertools.product(ALPHA, repeat=n):
            out.append(b''.join(t))
    return out


VOCAB = [b'.', b'..', b'a', b'b', b'ab', b'a.b', b'x.tar.gz', b'.hid', b'c:', b'', b'name.', b'..a', b'...', b'long_name-1']


def rand_path(rng, maxc=7):
    n = rng.randrange(0, maxc)
    cs = [rng.choice(VOCAB) for _ in range(n)]
    seps = [b'/', b'/', b'/', b'\\', b'//']
    s = b''
    if rng.random() < 0.4:
        s += rng.choice([b'/', b'\\', b'//'])
    for i, c in enumerate(cs):
        if i:
            s += rng.choice(seps)
        s += c
    if rng.random() < 0.25:
        s += rng.choice([b'/', b'\\'])
    return s


def unhex(h):
    return b'' if h == '-' else bytes.fromhex(h)


# ---- part A: the property text as an executable judge ---------------------------------------------
# "simplifyPath is idempotent and lexically equivalent to its input": a path text is walked over an abstract
# tree - '.' stays, a name goes down, '..' takes back the last name and, when there is none, escapes one
# level above the starting point.  What a text denotes lexically is (absolute?, levels escaped, names left);
# two texts are equivalent when these agree.  "getRelativePath(from, to) appended to from denotes to": the
# text from + '/' + answer denotes what `to` denotes, whenever some text can do that (same kind, and `from`
# does not escape further than `to`: to come back down below a '..' one would need a name no lexical function has).
# Independent of the Coq Spec (PathSpec.canon, which in addition fixes the spelling of the result).

def lex_of(p):
    names, ups = [], 0
    for c in p.replace(b'\\', b'/').split(b'/'):
        if c == b'' or c == b'.':
            continue
        if c == b'..':
            if names:
                names.pop()
            else:
                ups += 1
        else:
            names.append(c)
    return (p[:1] in (b'/', b'\\'), ups, tuple(names))


def lex_show(d):
    return '%s, %d above, %s' % ('absolute' if d[0] else 'relative', d[1], b'/'.join(d[2]).decode('latin-1') or '-')


def path_text_judge(ops, obs):
    """-> None, or (line index, rule, message) for the first simp / rel line the text does not allow"""
    for k, line in enumerate(ops):
        if k >= len(obs) or obs[k].startswith('!') or obs[k].startswith('?'):
            return None
        t, res = line.split(' '), obs[k].split(' | ')[0].split(' ')
        if t[0] == 'simp' and len(res) == 2:
            p, s1, s2 = unhex(t[1]), unhex(res[0]), unhex(res[1])
            if lex_of(s1) != lex_of(p):
                return (k, 'not-equivalent', 'simplifyPath(`%s`) = `%s` denotes (%s), the input denotes (%s)' % (
                    p.decode('latin-1'), s1.decode('latin-1'), lex_show(lex_of(s1)), lex_show(lex_of(p))))
            if s1 != s2:
                return (k, 'not-idempotent', 'simplifyPath(`%s`) = `%s`, simplified again `%s`' % (p.decode('latin-1'), s1.decode('latin-1'), s2.decode('latin-1')))
        elif t[0] == 'rel' and len(res) == 2:
            f, to, r = unhex(t[1]), unhex(t[2]), unhex(res[0])
            lf, lt = lex_of(f), lex_of(to)
            if lf[0] == lt[0] and lf[1] <= lt[1]:
                j = lex_of((f + b'/' + r) if f else r)
                if j != lt:
                    return (k, 'does-not-denote-to', 'getRelativePath(`%s`, `%s`) = `%s`: appended to from it denotes (%s), to denotes (%s)' % (
                        f.decode('latin-1'), to.decode('latin-1'), r.decode('latin-1'), lex_show(j), lex_show(lt)))
    return None


def dot_paths(maxc, alpha=(b'a', b'b', b'..', b'.')):
    out = [b'']
    for n in range(1, maxc + 1):
        for tpl in itertools.product(alpha, repeat=n):
            out.append(b'/'.join(tpl))
    return out


# ---- part B: file-system cases ------------------------------------------------------------------
# A case starts with '@fs' (the harness builds fs-<pid>/g1/g2/g3/{in,out} and works in `in`).
# Paths are relative, use '/' only, have at most one leading '..' (always followed by `out`) and
# never end in a separator, so that nothing can climb out of the guard levels.

def H(s):
    return hexs(s if isinstance(s, bytes) else s.encode())


LINK_TARGETS = ['../out', '../out/s', '../out/k', 'a', 'a/b', 'f', '.', 'nowhere', 'l2', 'l', 'a/g', '../in/a']
NAMES = ['a', 'b', 'c', 'f', 'g', 'l', 'l2', 'm', '.d', '.h']
CONTENTS = [b'', b'x', b'hello', b'0123456789', b'\x00\xff\x00', b'abcdefghijklmnopqrstuvwxyz' * 3]


def sentinel():
    """the outside: out/s (directory) with out/s/keep, and out/k"""
    return ['mkd ' + H('../out/s'), 'mkf %s %s' % (H('../out/s/keep'), H(b'KEEP')), 'mkf %s %s' % (H('../out/k'), H(b'outside'))]


def rand_tree(rng, links=True):
    """set-up lines for a small tree below `in`; returns (lines, dirs, files, linknames)"""
    lines, dirs, files, lnks = [], [], [], []
    for _ in range(rng.randrange(0, 4)):
        parent = rng.choice([''] + dirs)
        nm = rng.choice(['a', 'b', 'c', 'g', '.d', 'a', 'b', '.d'])
        p = (parent + '/' if parent else '') + nm
        if p not in dirs and p not in files and p.count('/') < 3:
            dirs.append(p)
            lines.append('mkd ' + H(p))
    for _ in range(rng.randrange(0, 4)):
        parent = rng.choice([''] + dirs)
        nm = rng.choice(['f', 'g', 'm', 'b', '.h', '..x', 'f', '.h'])
        p = (parent + '/' if parent else '') + nm
        if p not in dirs and p not in files:
            files.append(p)
            lines.append('mkf %s %s' % (H(p), H(rng.choice(CONTENTS))))
    if links:
        for _ in range(rng.randrange(0, 4)):
            parent = rng.choice(['', ''] + dirs)
            nm = rng.choice(['l', 'l2', 'c', '.l'])
            p = (parent + '/' if parent else '') + nm
            if p not in dirs and p not in files and p not in lnks:
                lnks.append(p)
                lines.append('mkl %s %s' % (H(rng.choice(LINK_TARGETS)), H(p)))
    return lines, dirs, files, lnks


def rand_fs_path(rng, dirs, files, lnks, fresh=0.3):
    """a path: mostly something that exists (possibly with a new last component), sometimes decorated"""
    pool = dirs + files + lnks
    r = rng.random()
    if pool and r > fresh:
        p = rng.choice(pool)
    elif pool and r > fresh / 2:
        p = rng.choice(dirs + lnks + ['']) if (dirs or lnks) else ''
        p = (p + '/' if p else '') + rng.choice(NAMES + ['new', 'n2'])
    else:
        p = '/'.join(rng.choice(NAMES + ['new']) for _ in range(rng.randrange(1, 4)))
    d = rng.random()
    if d < 0.08:
        p = './' + p
    elif d < 0.16 and '/' in p:
        i = p.index('/')
        p = p[:i] + '/../' + p          # a/../a/b
    elif d < 0.22:
        p = '../out/' + rng.choice(['s', 'k', 's/keep', 'new', 's/new/x'])
    elif d < 0.26 and '/' in p:
        p = p.replace('/', '/./', 1)
    return p


def handle_history(rng, h, n):
    """write / seek / read operations on handle h"""
    out = []
    for _ in range(n):
        r = rng.random()
        if r < 0.35:
            out.append('write %d %s' % (h, H(rng.choice(CONTENTS[1:] + [b'Z', b'QQ', b'']))))
        elif r < 0.6:
            wh = rng.choice([0, 0, 1, 2])
            off = rng.choice([0, 0, 1, 2, 3, 5, 9, 12, -1, -2, -5, 40])
            out.append('seek %d %d %d' % (h, off, wh))
        elif r < 0.8:
            out.append('readall %d' % h)
        elif r < 0.9:
            out.append('read %d %d' % (h, rng.choice([0, 1, 3, 8, 100])))
        else:
            out.append('size %d' % h)
    return out


def fs_files_cases(rng, n):
    cases = []
    for _ in range(n):
        lines, dirs, files, lnks = rand_tree(rng)
        c = ['@fs'] + sentinel() + lines
        for _ in range(rng.randrange(1, 4)):
            p = rand_fs_path(rng, dirs, files, lnks, fresh=0.4)
            fl = rng.choice([1, 2, 3, 6, 7, 2 | 8, 3 | 8, 2 | 4 | 8, 1 | 4, 1 | 8, 0, 4])
            c.append('open 0 %s %d' % (H(p), fl))
            c += handle_history(rng, 0, rng.randrange(1, 7))
            if rng.random() < 0.3:                      # a second handle on the same or another file
                q = p if rng.random() < 0.5 else rand_fs_path(rng, dirs, files, lnks)
                c.append('open 1 %s %d' % (H(q), rng.choice([1, 3, 3 | 8, 1])))
                c += handle_history(rng, rng.choice([0, 1]), rng.randrange(1, 4))
                c.append('close 1')
            c.append('close 0')
            c.append('open 0 %s 1' % H(p))
            c.append('readall 0')
            c.append('close 0')
            r = rng.random()
            q = rand_fs_path(rng, dirs, files, lnks, fresh=0.6)
            if r < 0.3:
                c.append('copy %s %s %d' % (H(p), H(q), rng.randrange(2)))
                c += ['open 0 %s 1' % H(q), 'readall 0', 'close 0']
            elif r < 0.6:
                c.append('rename %s %s %d' % (H(p), H(q), rng.randrange(2)))
                c += ['open 0 %s 1' % H(q), 'readall 0', 'close 0']
            elif r < 0.7:
                c.append('funlink ' + H(p))
        cases.append(c)
    return cases


def trail(rng):
    """a trailing separator now and then (only for Directory::create / unlink / exists, see level_note)"""
    r = rng.random()
    return '/' if r < 0.12 else ('//' if r < 0.15 else '')


def fs_dirs_cases(rng, n):
    cases = []
    for _ in range(n):
        lines, dirs, files, lnks = rand_tree(rng)
        c = ['@fs'] + sentinel() + lines
        for _ in range(rng.randrange(1, 5)):
            r = rng.random()
            if r < 0.45:
                base = rand_fs_path(rng, dirs, files, lnks, fresh=0.5)
                extra = '/'.join(rng.choice(['x', 'y', 'a', '.', 'b']) for _ in range(rng.randrange(0, 3)))
                p = base + ('/' + extra if extra else '')
                if rng.random() < 0.1:
                    p = p + '/..'
                c.append('create ' + H(p + trail(rng)))
            elif r < 0.85:
                p = rand_fs_path(rng, dirs, files, lnks, fresh=0.2)
                rec = 1 if rng.random() < 0.8 else 0
                if p.endswith('..'):
                    rec = 0
                c.append('dunlink %s %d' % (H(p + trail(rng)), rec))
            elif r < 0.93:
                c.append('exists ' + H(rand_fs_path(rng, dirs, files, lnks) + trail(rng)))
            else:
                c.append('symlink %s %s' % (H(rng.choice(LINK_TARGETS)), H(rand_fs_path(rng, dirs, files, lnks, fresh=0.8))))
        cases.append(c)
    return cases


def fs_failure_cases(rng, n):
    """rename / copy / open aimed at their failure branches"""
    cases = []
    for _ in range(n):
        lines, dirs, files, lnks = rand_tree(rng)
        c = ['@fs'] + sentinel() + lines
        for _ in range(rng.randrange(1, 4)):
            src = rng.choice([rand_fs_path(rng, dirs, files, lnks, fresh=0.2), 'missing', rng.choice(dirs + ['a']), rng.choice(lnks + ['l'])])
            dst = rng.choice([rand_fs_path(rng, dirs, files, lnks, fresh=0.7), 'new', 'nodir/new', rng.choice(files + ['f']) + '/x',
                              rng.choice(dirs + ['a']), rng.choice(lnks + ['l']), src])
            k = rng.random()
            if k < 0.45:
                c.append('rename %s %s %d' % (H(src), H(dst), rng.randrange(2)))
            elif k < 0.9:
                c.append('copy %s %s %d' % (H(src), H(dst), rng.randrange(2)))
            else:
                c.append('open 0 %s %d' % (H(dst), rng.choice([1, 2 | 8, 3 | 8, 2, 3, 6])))
                c.append('close 0')
        cases.append(c)
    return cases


def fs_transfer_cases(rng, n, big):
    """File::copy under every kind of outcome of the kernel's transfer calls (short, zero, failing)"""
    cases = []
    sizes = [0, 1, 2, 5, 26, 78, 129, 300]
    for i in range(n):
        c = ['@fs'] + sentinel()
        size = rng.choice(sizes) if not (big and i % 9 == 0) else rng.choice([65536, 65537, 70001, 131073])
        if size <= 78 and rng.random() < 0.5:
            c.append('mkf %s %s' % (H('f'), H(bytes(rng.randrange(256) for _ in range(size)))))
        else:
            c.append('mkfbig %s %d %d' % (H('f'), rng.randrange(100), size))
        kind = rng.choice(['new', 'new', 'existing', 'existing', 'dangling', 'link', 'self', 'outside', 'nodir'])
        dst = 'n'
        if kind == 'existing':
            c.append('mkf %s %s' % (H('n'), H(rng.choice(CONTENTS))))
        elif kind == 'dangling':
            c.append('mkl %s %s' % (H(rng.choice(['t', '../out/t'])), H('n')))
        elif kind == 'link':
            c.append('mkf %s %s' % (H('t'), H(b'old')))
            c.append('mkl %s %s' % (H('t'), H('n')))
        elif kind == 'self':
            dst = rng.choice(['f', './f'])
        elif kind == 'outside':
            dst = '../out/s/n'
        elif kind == 'nodir':
            dst = 'nodir/n'
        outs = []
        for _ in range(rng.randrange(0, 5)):
            outs.append(rng.choice([-1, 0, 1, 1, 2, 3, 7, 64, 128, 4096, 65536, max(1, size // 2), size, size + 1]))
        if outs:
            c.append('inject ' + ' '.join(str(x) for x in outs))
        c.append('copy %s %s %d' % (H('f'), H(dst), rng.randrange(2)))
        c += ['open 0 %s 1' % H(dst), 'readall 0', 'close 0']
        if rng.random() < 0.3:                       # and once more without interference
            c.append('copy %s %s 0' % (H('f'), H(dst)))
        cases.append(c)
    return cases


BIG_SIZES = [65535, 65536, 65537, 70001, 131073, 200003]


def fs_big_cases(rng, n, thorough):
    """contents beyond every internal buffer size: readAll / read / write / append / copy / rename"""
    cases = []
    sizes = BIG_SIZES + ([524289, 1048577] if thorough else [])
    for i in range(n):
        size = sizes[i % len(sizes)]
        s1, s2 = rng.randrange(100), rng.randrange(100)
        c = ['@fs'] + sentinel() + ['mkfbig %s %d %d' % (H('f'), s1, size)]
        k = i % 4
        if k == 0:
            c += ['open 0 %s 1' % H('f'), 'size 0', 'readall 0', 'seek 0 -5 2', 'read 0 100', 'seek 0 65530 0', 'read 0 12', 'close 0']
        elif k == 1:
            c += ['copy %s %s %d' % (H('f'), H('g'), rng.randrange(2)), 'open 0 %s 11' % H('g'), 'seek 0 %d 0' % (size - 7), 'writebig 0 %d 70000' % s2,
                  'seek 0 0 0', 'readall 0', 'size 0', 'close 0', 'open 0 %s 1' % H('f'), 'readall 0', 'close 0']
        elif k == 2:
            c += ['open 0 %s 6' % H('f'), 'writebig 0 %d %d' % (s2, rng.choice([1, 65536, 70001])), 'close 0', 'open 0 %s 1' % H('f'), 'readall 0', 'close 0',
                  'rename %s %s 1' % (H('f'), H('../out/s/h')), 'open 0 %s 1' % H('../out/s/h'), 'readall 0', 'close 0']
        else:
            c += ['open 0 %s 3' % H('n'), 'writebig 0 %d %d' % (s2, size), 'seek 0 1 0', 'writebig 0 %d 300' % s1, 'seek 0 0 0', 'readall 0', 'close 0',
                  'copy %s %s 0' % (H('n'), H('f')), 'open 0 %s 1' % H('f'), 'seek 0 -%d 2' % min(size, 66000), 'readall 0', 'close 0']
        cases.append(c)
    return cases


# offsets around 2^31 and 2^32 (and one far beyond): a file that is extended by seeking behind its end costs no content
BIG_OFFS = [(1 << 31) - 1, 1 << 31, (1 << 31) + 1, (1 << 32) - 1, 1 << 32, (1 << 32) + 5, (1 << 33) + 7, (1 << 40) + 3]


def fs_sparse_cases(rng, n):
    """seek / write / size / read with 64-bit offsets on sparse files.  First line '@fs sparse': the extracted model
    (Peano positions, contents as lists) is not asked - model and spec lines are wildcards - and the case is judged by
    fs_text_judge alone, which keeps such a content as size + non-zero bytes."""
    cases = []
    for i in range(n):
        off = BIG_OFFS[i % len(BIG_OFFS)]
        w1 = rng.choice([b'Z', b'QQ', b'hello', bytes(1 + rng.randrange(255) for _ in range(7))])
        w2 = rng.choice([b'y', b'tail', b'\x01\x00\x02'])
        c = ['@fs sparse', 'open 0 %s 3' % H('n')]
        k = (i // len(BIG_OFFS)) % 3
        if k == 0:
            c += ['write 0 ' + H(b'head'), 'seek 0 %d 0' % off, 'write 0 ' + H(w1), 'size 0', 'seek 0 -1 2', 'read 0 4', 'seek 0 0 1',
                  'seek 0 -%d 1' % (len(w1) + 2), 'read 0 3', 'seek 0 2 0', 'read 0 4', 'seek 0 %d 0' % (off - 2), 'read 0 100', 'close 0',
                  'open 0 %s 14' % H('n'), 'write 0 ' + H(w2), 'size 0', 'close 0',
                  'open 0 %s 1' % H('n'), 'seek 0 -%d 2' % (len(w2) + 1), 'read 0 9', 'size 0', 'close 0']
        elif k == 1:
            half = off // 2
            c += ['seek 0 %d 0' % half, 'seek 0 %d 1' % (off - half), 'write 0 ' + H(w1), 'seek 0 -%d 1' % off, 'read 0 3', 'size 0',
                  'seek 0 5 2', 'write 0 ' + H(w2), 'size 0', 'seek 0 %d 0' % (off + len(w1) - 1), 'read 0 %d' % (7 + len(w2)),
                  'seek 0 -%d 2' % (off + 1), 'read 0 2', 'seek 0 -%d 1' % (1 << 41), 'seek 0 0 1', 'close 0']
        else:
            c += ['write 0 ' + H(w2), 'seek 0 %d 2' % off, 'write 0 ' + H(w1), 'flush 0', 'size 0', 'close 0',
                  'rename %s %s %d' % (H('n'), H('../out/s/m'), rng.randrange(2)), 'open 1 %s 3' % H('../out/s/m'),
                  'seek 1 %d 0' % (off + len(w2) - 1), 'read 1 %d' % (len(w1) + 2), 'seek 1 %d 0' % (off + off // 3), 'write 1 ' + H(b'E'),
                  'size 1', 'seek 1 -2 2', 'read 1 5', 'close 1', 'funlink ' + H('../out/s/m')]
        cases.append(c)
    return cases


ABS = '/g1/g2/g3/in/'


def fs_absolute_cases(rng, n):
    """absolute path texts and absolute link targets, inside a chroot whose root is the model's root"""
    cases = []
    for _ in range(n):
        lines, dirs, files, lnks = rand_tree(rng, links=False)
        c = ['@fsroot'] + sentinel() + lines
        for _ in range(rng.randrange(0, 3)):
            nm = rng.choice(['l', 'l2', 'c'])
            if nm not in dirs and nm not in files and nm not in lnks:
                lnks.append(nm)
                c.append('mkl %s %s' % (H(rng.choice(['/g1/g2/g3/out', '/g1/g2/g3/out/s', '/g1/g2/g3/in/a', '/', '/nowhere', '/g1/g2/g3/out/k', '//g1'])), H(nm)))

        def ap(p):
            r = rng.random()
            if r < 0.6:
                return ABS + p
            if r < 0.7:
                return '/' + rng.choice(['x', 'x/y', 'x/y/z', 'g1/n', 'g1/g2/n/m'])
            if r < 0.8:
                return '//g1/g2//g3/in/' + p
            if r < 0.9:
                return '/g1/g2/g3/out/' + rng.choice(['s', 'k', 's/keep', 'new', 's/new/x'])
            return p
        for _ in range(rng.randrange(1, 5)):
            r = rng.random()
            p = ap(rand_fs_path(rng, dirs, files, lnks, fresh=0.4))
            if r < 0.35:
                c.append('create ' + H(p + trail(rng)))
            elif r < 0.5:
                c.append('dunlink %s %d' % (H(p), 0 if p.endswith('..') or p.count('/') < 2 else rng.randrange(2)))
            elif r < 0.6:
                c.append('exists ' + H(rng.choice([p, '/', '//', '/g1', '/g1/g2/g3/in', '/x'])))
            elif r < 0.72:
                c.append('rename %s %s %d' % (H(p), H(ap(rand_fs_path(rng, dirs, files, lnks, fresh=0.7))), rng.randrange(2)))
            elif r < 0.84:
                c.append('copy %s %s %d' % (H(p), H(ap(rand_fs_path(rng, dirs, files, lnks, fresh=0.7))), rng.randrange(2)))
            elif r < 0.92:
                c += ['open 0 %s %d' % (H(p), rng.choice([1, 2, 3, 6, 11])), 'write 0 %s' % H(b'ABS'), 'close 0', 'open 0 %s 1' % H(p), 'readall 0', 'close 0']
            else:
                c.append('funlink ' + H(p))
            if rng.random() < 0.35:
                c.append(rng.choice(['abspath ', 'readallp ', 'fexists ']) + H(ap(rand_fs_path(rng, dirs, files, lnks, fresh=0.3))))
            if rng.random() < 0.12:
                c.append('chdir ' + H(rng.choice(['/', '/g1', '/g1/g2/g3/out', '/g1/g2/g3/in/a', '/nowhere'])))
                c += ['cwd', 'abspath ' + H(rng.choice(['x', 'g1', '../x', '.'])), 'dlist %s %s 0' % (H(rng.choice(['', '/', '/g1/g2/g3'])), H(rng.choice(['', '*', 'g*'])))]
                break
        cases.append(c)
    # the root itself and its children: the empty-parent branch of Directory::create
    for p in ['/', '//', '/x', '/x/', '//x', '/x/y', '/x/y/z/', '/g1', '/g1/n', '/../x', '/./x', '/g1/../y/z']:
        cases.append(['@fsroot'] + sentinel() + ['create ' + H(p)])
        cases.append(['@fsroot'] + sentinel() + ['create ' + H(p), 'exists ' + H(p), 'dunlink %s 0' % H(p)])
    return cases


# ---- round 3: readAll(path), exists, flush, getAbsolutePath / change, enumeration, purge, faults ----

PATTERNS = ['', '', '*', '*', 'a*', '*b', '*.txt', '?', '??', 'l*', '.*', 'f', 'a?c', '*.*', 'x.*', '**', '*a*', 'zz*', 'ab', '?*']
ENUM_NAMES = ['a', 'b', 'ab', 'abc', 'f', 'x.txt', 'y.txt', '.hid', 'l', 'l2', 'g']


def enum_tree(rng):
    """a tree with more name variety: (lines, dirs, files, links)"""
    lines, dirs, files, lnks = [], [], [], []
    taken = set()
    for _ in range(rng.randrange(0, 4)):
        parent = rng.choice([''] + dirs)
        p = (parent + '/' if parent else '') + rng.choice(['a', 'b', 'ab', 'abc', 'g', '.hid'])
        if p not in taken and p.count('/') < 3:
            taken.add(p); dirs.append(p); lines.append('mkd ' + H(p))
    for _ in range(rng.randrange(0, 6)):
        parent = rng.choice(['', ''] + dirs)
        p = (parent + '/' if parent else '') + rng.choice(ENUM_NAMES)
        if p in taken:
            continue
        taken.add(p)
        k = rng.random()
        if k < 0.5:
            files.append(p); lines.append('mkf %s %s' % (H(p), H(rng.choice(CONTENTS))))
        else:
            lnks.append(p)
            lines.append('mkl %s %s' % (H(rng.choice(LINK_TARGETS + ['b', 'ab', '../a', '.', '..', '../out/t', '../out/t', '../../out/t'])), H(p)))
    return lines, dirs, files, lnks


def fs_enum_cases(rng, n):
    """Directory::open / read / close: patterns, dirsOnly, entry types (links to directories, to files, dangling)"""
    cases = []
    for i in range(n):
        lines, dirs, files, lnks = enum_tree(rng)
        c = ['@fs'] + sentinel() + lines
        opened = []                                  # every text a Directory object of this case was opened with

        def where():
            r = rng.random()
            if r < 0.3:
                return rng.choice(['', '.', './', '..', '../in'])
            if r < 0.7 and dirs:
                return rng.choice(dirs) + rng.choice(['', '', '/', '/.'])
            if r < 0.85 and (lnks or files):
                return rng.choice(lnks + files)
            return rng.choice(['../out', '../out/s', 'missing', 'a/missing', '../out/k'])
        for _ in range(rng.randrange(1, 5)):
            k = rng.random()
            if k < 0.6:
                c.append('dlist %s %s %d' % (H(where()), H(rng.choice(PATTERNS)), 1 if rng.random() < 0.3 else 0))
            else:
                # the object protocol: open twice, read past the end, open at the end, close, read closed, reuse
                o = rng.randrange(4)
                w = where()
                opened.append(w)
                c.append('dopen %d %s %s %d' % (o, H(w), H(rng.choice(PATTERNS)), rng.randrange(2)))
                if rng.random() < 0.4:
                    opened.append(where())
                    c.append('dopen %d %s %s 0' % (o, H(opened[-1]), H('')))
                if rng.random() < 0.4 and not any(x.startswith('../out') or x.split('/')[0] in lnks or x in lnks for x in opened):
                    # what a link leads to changes between open and read (the directory that is being
                    # enumerated is left alone - also when it was opened through a symbolic link: what readdir makes of a change
                    # is the kernel's business)
                    c.append(rng.choice(['mkd ' + H('../out/t'), 'mkf %s %s' % (H('../out/t'), H(b'x'))]))
                c.append('dreadall %d' % o)
                if rng.random() < 0.5:
                    c.append('dreadall %d' % o)
                if rng.random() < 0.4:
                    opened.append(where())
                    c.append('dopen %d %s %s 0' % (o, H(opened[-1]), H('*')))
                if rng.random() < 0.7:
                    c.append('dclose %d' % o)
                    if rng.random() < 0.5:
                        c.append('dreadall %d' % o)
                    if rng.random() < 0.5:
                        opened.append(where())
                        c += ['dopen %d %s %s %d' % (o, H(opened[-1]), H(rng.choice(PATTERNS)), rng.randrange(2)), 'dreadall %d' % o]
        cases.append(c)
    return cases


def fs_misc_cases(rng, n):
    """static readAll(path), File::exists, flush, getAbsolutePath / getCurrentDirectory / change"""
    cases = []
    for i in range(n):
        lines, dirs, files, lnks = rand_tree(rng)
        c = ['@fs'] + sentinel() + lines
        for _ in range(rng.randrange(2, 7)):
            k = rng.random()
            p = rand_fs_path(rng, dirs, files, lnks, fresh=0.3)
            if k < 0.25:
                c.append('readallp ' + H(p))
            elif k < 0.45:
                c.append('fexists ' + H(p))
            elif k < 0.6:
                c.append('abspath ' + H(rng.choice([p, p, p, '', '.', '..', 'c:/x', '\\x', './' + p])))
            elif k < 0.65:
                c.append('cwd')
            elif k < 0.8:
                fl = rng.choice([1, 2 | 8, 3, 6, 3 | 8, 1])
                c.append('open 0 %s %d' % (H(p), fl))
                c += handle_history(rng, 0, rng.randrange(0, 3))
                c.append('flush 0')
                c += handle_history(rng, 0, rng.randrange(0, 2))
                if rng.random() < 0.5:
                    c.append('readall 0')
                c.append('close 0')
                if rng.random() < 0.2:
                    c.append('flush 0')
                c.append('readallp ' + H(p))
            else:
                # change the current directory, then look at it from there; nothing that names the new
                # current directory or a directory above it is removed or renamed afterwards
                d = rng.choice(dirs + ['.', '../out', '../out/s', 'missing'] + lnks + files)
                c.append('chdir ' + H(d))
                c.append('cwd')
                for _ in range(rng.randrange(1, 4)):
                    q = rng.choice(['f', 'b', 'new', '../f', '.', '..', 'g', '../a', 'b/f', 'keep'])
                    c.append(rng.choice(['abspath ', 'fexists ', 'readallp ', 'exists ']) + H(q))
                if rng.random() < 0.5:
                    c.append('create ' + H(rng.choice(['n1', 'n1/n2', './n3'])))
                    c.append('dlist %s %s 0' % (H(''), H('')))
                break
        cases.append(c)
    return cases


def chain(rng):
    """a directory chain with siblings here and there: set-up lines in path order, and the chain's directories"""
    depth = rng.randrange(1, 5)
    names, paths, kinds = [], [], {}
    cur = ''
    for _ in range(depth):
        cur = (cur + '/' if cur else '') + rng.choice(['a', 'b', 'c', 'a', 'b', '.d'])
        names.append(cur)
        kinds[cur] = ('d',)
    for d in list(names) + ['']:
        for _ in range(rng.randrange(0, 3)):
            if rng.random() < 0.45:
                q = (d + '/' if d else '') + rng.choice(['f', 'g', 'x', 'l', 'k', 'e', '.h', '.g', '..x'])
                if q not in kinds:
                    kinds[q] = rng.choice([('f', rng.choice(CONTENTS)), ('f', b'q'), ('l', rng.choice(['../out/s', '../out', 'f', '.', 'nowhere'])), ('d',), ('d',)])
    # something below a sibling directory now and then
    for q in [q for q, v in kinds.items() if v[0] == 'd' and q not in names]:
        if rng.random() < 0.5:
            kinds[q + '/y'] = ('f', b'y')
    lines = []
    for q in sorted(kinds, key=lambda x: x.encode()):
        v = kinds[q]
        lines.append('mkd ' + H(q) if v[0] == 'd' else ('mkf %s %s' % (H(q), H(v[1])) if v[0] == 'f' else 'mkl %s %s' % (H(v[1]), H(q))))
    return lines, names, kinds


def fs_purge_cases(rng, n):
    """Directory::purge: the directory and the ancestors it leaves empty, up to the current directory"""
    cases = []
    for i in range(n):
        lines, names, kinds = chain(rng)
        c = ['@fs'] + sentinel() + lines
        for _ in range(rng.randrange(1, 3)):
            r = rng.random()
            if r < 0.6:
                p = rng.choice(names)
            elif r < 0.8:
                p = rng.choice(sorted(kinds))
            else:
                p = rng.choice(['../out/s', '../out/n', 'missing', names[-1] + '/', './' + names[-1], names[0] + '/../' + names[-1], 'a\\b',
                                '../in/' + names[-1]])
            c.append('purge %s %d' % (H(p), 1 if rng.random() < 0.7 else 0))
        cases.append(c)
    # empty chains of every depth, from every level, both flags
    for depth in range(1, 5):
        ch = ['/'.join(['a', 'b', 'c', 'd'][:k + 1]) for k in range(depth)]
        for start in ch:
            for rec in (0, 1):
                cases.append(['@fs'] + sentinel() + ['mkd ' + H(q) for q in ch] + ['purge %s %d' % (H(start), rec)])
                cases.append(['@fs'] + sentinel() + ['mkd ' + H(q) for q in ch] + ['mkf %s %s' % (H('a/keep'), H(b'k')), 'purge %s %d' % (H(start), rec)])
    if os.geteuid() == 0:
        for p in ['/x/y/z', '/x', '/g1/g2/g3/in/a/b', '//x//y', '/x/y/']:
            cases.append(['@fsroot'] + sentinel() + ['create ' + H(p), 'purge %s 1' % H(p)])
            cases.append(['@fsroot'] + sentinel() + ['create ' + H(p), 'purge %s 0' % H(p), 'exists ' + H('/x')])
    return cases


FAULT_TREES = [
    ['mkd ' + H('a')],
    ['mkd ' + H('a'), 'mkf %s %s' % (H('a/f'), H(b'1'))],
    ['mkd ' + H('a'), 'mkd ' + H('a/b'), 'mkf %s %s' % (H('a/b/f'), H(b'1')), 'mkf %s %s' % (H('a/c'), H(b'2')), 'mkd ' + H('a/d'),
     'mkl %s %s' % (H('../../out/s'), H('a/l'))],
    ['mkd ' + H('a'), 'mkd ' + H('a/b'), 'mkd ' + H('a/b/c'), 'mkf %s %s' % (H('a/b/c/f'), H(b'1')), 'mkf %s %s' % (H('a/b/g'), H(b'2')),
     'mkf %s %s' % (H('a/z'), H(b'3'))],
    # names that start with a dot: a hidden directory holding a file, a hidden file, a hidden link, `..x` (entries in byte order)
    ['mkd ' + H('a'), 'mkf %s %s' % (H('a/..x'), H(b'3')), 'mkd ' + H('a/.git'), 'mkf %s %s' % (H('a/.git/config'), H(b'1')),
     'mkf %s %s' % (H('a/.hidden'), H(b'2')), 'mkl %s %s' % (H('../../out/s'), H('a/.l')), 'mkf %s %s' % (H('a/src'), H(b'4'))],
]


def fs_fault_cases(rng, n):
    """Directory::unlink / purge with one failing system call (rmdir, opendir, readdir, unlink): every
    position on a few fixed trees, random positions on random trees (entries created in name order)"""
    cases = []
    for tree in FAULT_TREES:
        for k in range(0, 4 + 5 * len(tree)):
            for rec in (1, 0) if k < 2 else (1,):
                cases.append(['@fs'] + sentinel() + tree + ['fault %d' % k, 'dunlink %s %d' % (H('a'), rec), 'dunlink %s 1' % H('a')])
    for tree in FAULT_TREES[1:]:
        deep = 'a/.git' if any('.git' in unhex(l.split()[1]).decode() for l in tree) else ('a/b' if len(tree) > 2 else 'a')
        for k in range(0, 14):
            cases.append(['@fs'] + sentinel() + tree + ['fault %d' % k, 'purge %s 1' % H(deep), 'exists ' + H('a')])
    for i in range(n):
        lines, names, kinds = chain(rng)
        c = ['@fs'] + sentinel() + lines
        p = rng.choice(names)
        c.append('fault %d' % rng.randrange(0, 16))
        c.append('%s %s 1' % (rng.choice(['dunlink', 'dunlink', 'purge']), H(p)))
        if rng.random() < 0.5:
            c.append('dunlink %s 1' % H(names[0]))
        cases.append(c)
    return cases


FIXED_TREES = [
    [],
    ['mkd ' + H('a'), 'mkf %s %s' % (H('a/f'), H(b'hello')), 'mkf %s %s' % (H('b'), H(b'bb')), 'mkl %s %s' % (H('../out'), H('l'))],
    ['mkd ' + H('a'), 'mkd ' + H('a/b'), 'mkl %s %s' % (H('../../out/s'), H('a/l')), 'mkl %s %s' % (H('a'), H('l')), 'mkf %s %s' % (H('a/b/f'), H(b'x'))],
    ['mkd ' + H('a'), 'mkl %s %s' % (H('nowhere'), H('l')), 'mkl %s %s' % (H('b'), H('b')), 'mkf %s %s' % (H('f'), H(b'data'))],
    # names that start with a dot below the directory that is removed / copied from / renamed
    ['mkd ' + H('a'), 'mkd ' + H('a/.git'), 'mkf %s %s' % (H('a/.git/config'), H(b'cfg')), 'mkf %s %s' % (H('a/.hidden'), H(b'h')),
     'mkf %s %s' % (H('a/..x'), H(b'x')), 'mkl %s %s' % (H('../../out/s'), H('a/.l')), 'mkd ' + H('b'), 'mkd ' + H('b/.d'), 'mkl %s %s' % (H('a/.git'), H('l'))],
]


def small_paths(alpha, maxlen):
    out = []
    for n in range(1, maxlen + 1):
        for t in itertools.product(alpha, repeat=n):
            if t[-1] == '..' or t.count('..') > 1:
                continue
            out.append('/'.join(t))
    return out


def fs_exhaustive_cases(thorough):
    """every short path on a few fixed trees, one operation per case"""
    cases = []
    alpha = ['a', 'b', 'l', 'f', '.', '..'] if thorough else ['a', 'b', 'l', '.', '..']
    paths = small_paths(alpha, 3 if thorough else 2)
    paths = [p for p in paths if not p.startswith('..')]
    for tree in FIXED_TREES:
        for p in paths:
            cases.append(['@fs'] + sentinel() + tree + ['create ' + H(p)])
            cases.append(['@fs'] + sentinel() + tree + ['dunlink %s 1' % H(p)])
            if thorough:
                cases.append(['@fs'] + sentinel() + tree + ['dunlink %s 0' % H(p)])
    for tree in FIXED_TREES:
        for p in ['a/', 'b/', 'l/', 'f/', 'n/', 'a/b/', 'a/l/', 'a/n/', 'n/m/', 'a//', 'l/x/', './', 'a/./']:
            cases.append(['@fs'] + sentinel() + tree + ['create ' + H(p)])
            cases.append(['@fs'] + sentinel() + tree + ['dunlink %s 1' % H(p)])
            cases.append(['@fs'] + sentinel() + tree + ['exists ' + H(p)])
    two = small_paths(['a', 'b', 'l', 'f', 'n'], 2) if thorough else small_paths(['a', 'b', 'l', 'f', 'n'], 1) + ['a/f', 'a/n', 'l/n', 'a/b', 'n/n']
    for tree in FIXED_TREES[1:]:
        for p in two:
            for q in two:
                for fie in (0, 1):
                    cases.append(['@fs'] + sentinel() + tree + ['rename %s %s %d' % (H(p), H(q), fie)])
                    cases.append(['@fs'] + sentinel() + tree + ['copy %s %s %d' % (H(p), H(q), fie)])
    return cases



# ---- part B: the property text as an executable judge -------------------------------------------
# Independent of the Coq model: the expected tree after an operation is computed from the tree
# observed before it, the operation, the answer of the library and the probes (what the real kernel
# says the path texts denote), by the rules the property statement gives:
#   * an operation that reports failure leaves the tree exactly as it was (no new file, no lost byte);
#   * copy that reports success: the destination is a regular file holding exactly the source's bytes,
#     nothing else changes; rename that reports success: the node the source named - which existed -
#     is at the destination, whole, and nowhere else; with failIfExists nothing was there before;
#   * a handle is a byte sequence with a cursor: write/append/seek/read/readAll/size have their
#     textbook meaning on the bytes the file holds;
#   * Directory::create answers true exactly when the directory exists afterwards, creates directories
#     only and keeps everything that was there; recursive unlink that reports success removed exactly
#     the directory the path names (never what a symbolic link points to), and nothing else.

import zlib


def pat_bytes(seed, n):
    return bytes(((seed * 17 + i * 131 + (i >> 8) * 7 + (i >> 16) * 3) & 255) for i in range(n))


SPARSE_LIMIT = 1 << 26


class Sparse:
    """the bytes of a file that was extended by seeking far behind its end: a size and the non-zero bytes"""
    def __init__(self, size, data):
        self.size, self.data = size, data

    def __len__(self):
        return self.size

    def render(self):
        rec = b''.join(o.to_bytes(8, 'little') + bytes([v]) for o, v in sorted(self.data.items()) if v)
        return '##%d.%08x' % (self.size, zlib.crc32(rec) & 0xffffffff)


def bread(data, pos, n):
    """the bytes [pos, pos+n) of a content"""
    if isinstance(data, Sparse):
        return bytes(data.data.get(i, 0) for i in range(pos, min(pos + n, data.size)))
    return data[pos:pos + n]


def bwrite(data, pos, d):
    """the content after writing d at pos (a hole reads as zeros)"""
    end = max(len(data), pos + len(d))
    if end <= SPARSE_LIMIT and not isinstance(data, Sparse):
        return data[:pos] + b'\0' * max(0, pos - len(data)) + d + data[pos + len(d):]
    if not isinstance(data, Sparse):
        data = Sparse(len(data), {i: v for i, v in enumerate(data) if v})
    nd = dict(data.data)
    for i, v in enumerate(d):
        if v:
            nd[pos + i] = v
        else:
            nd.pop(pos + i, None)
    return Sparse(end, nd)


def render(b):
    if isinstance(b, Sparse):
        return b.render()
    if len(b) == 0:
        return '-'
    if len(b) <= 128:
        return b.hex()
    return '#%d.%08x' % (len(b), zlib.crc32(b) & 0xffffffff)


def tok_of(path, v):
    if v[0] == 'd':
        return path + ':d'
    return '%s:%s:%s' % (path, v[0], render(v[1]))


def under(q, f):
    return q == f or q.startswith(f + '/')


GUARD_DIRS = ('!.', '!g1', '!g1/g2', '!g1/g2/g3')


class Bad(Exception):
    pass


def plain_parts(text, cwd_moved):
    """the names of a path text of plain names, as a list below the scratch root (relative texts start in `in`; absolute
    ones lead through the guard levels); None for anything else ('.', '..', empty components, backslashes)"""
    s = text.decode('latin-1')
    if not s or '\\' in s:
        return None
    if s.startswith('/'):
        parts = s[1:].split('/')
        if parts[:3] != ['g1', 'g2', 'g3'] or len(parts) < 4:
            return None
        parts = parts[3:]
    else:
        if cwd_moved:
            return None
        parts = ['in'] + s.split('/')
    if any(x in ('', '.', '..') for x in parts):
        return None
    return parts


def plain_key(text, tree, cwd_moved):
    """the place a text of plain names leads to through real directories (every proper prefix is a directory of the tree)"""
    parts = plain_parts(text, cwd_moved)
    if parts is None:
        return None
    for k in range(1, len(parts)):
        v = tree.get('/'.join(parts[:k]))
        if v is None or v[0] != 'd':
            return None
    return '/'.join(parts)


def obliged(op, t, res, pr, tree, cwd_moved, open_before):
    """What the text obliges to SUCCEED ("files return exactly the bytes written across ... copy / rename", "create makes all
    missing parents", "recursive unlink removes exactly the given tree" say nothing if the operation may always answer
    false): texts of plain names through real directories, the parent there, the place free (or, for copy, a regular
    file to overwrite), no injected outcome consumed.  -> (rule, message) when the answer false is not allowed."""
    if res[0] != '0':
        return None
    if op == 'open':
        h, fl = int(t[1]) & 7, int(t[3])
        if h in open_before:
            return None                                   # a File that is open refuses a second open
        T, P = pr.get('d', '-'), pr.get('p', '-')
        if T in tree and tree[T][0] == 'f':
            return ('open-existing-file', 'open says false for the existing regular file `%s`' % T)
        if (fl & 2) and not (fl & 8) and T == '-' and P != '-' and P[0] not in '?!' and P not in tree:
            return ('open-new-file', 'open for writing (without openFlag) says false although `%s` is free and its directory exists' % P)
    elif op == 'copy':
        S = pr.get('s', '-')
        K = plain_key(unhex(t[2]), tree, cwd_moved)
        if pr.get('x', '0') in ('0', '', '-') and S in tree and tree[S][0] == 'f' and K is not None and K != S and (
                K not in tree or (tree[K][0] == 'f' and t[3] != '1')):
            return ('copy-must-succeed', 'copy says false: the source `%s` is a regular file, the destination `%s` is %s in an existing directory' % (
                S, K, 'free' if K not in tree else 'a regular file'))
    elif op == 'rename':
        F = pr.get('s', '-')
        K = plain_key(unhex(t[2]), tree, cwd_moved)
        last = unhex(t[1]).rsplit(b'/', 1)[-1]
        if (F in tree and K is not None and K not in tree and not under(K, F) and last not in (b'', b'.', b'..')
                and not (t[3] == '1' and tree[F][0] == 'd')):
            return ('rename-must-succeed', 'rename says false: the source `%s` exists, the destination `%s` is free in an existing directory' % (F, K))
    elif op == 'create':
        parts = plain_parts(unhex(t[1]), cwd_moved)
        if parts is not None:
            for k in range(1, len(parts) + 1):
                v = tree.get('/'.join(parts[:k]))
                if v is None:
                    break
                if v[0] != 'd':
                    return None
            return ('create-must-succeed', 'Directory::create says false although only directories (or nothing) lie on the way')
    elif op in ('dunlink', 'purge'):
        K = plain_key(unhex(t[1]), tree, cwd_moved)
        if (K is not None and K != 'in' and not cwd_moved and K in tree and tree[K][0] == 'd' and pr.get('ff', '0') != '1'
                and (t[2] == '1' or not any(under(q, K) and q != K for q in tree))):
            return ('%s-must-succeed' % ('unlink' if op == 'dunlink' else 'purge'),
                    '%s says false for the directory `%s` (no call was made to fail)' % ('Directory::unlink' if op == 'dunlink' else 'Directory::purge', K))
    elif op == 'funlink':
        F = pr.get('s', '-')
        if F in tree and tree[F][0] != 'd' and not t[1].endswith('2f'):
            return ('file-unlink-must-succeed', 'File::unlink says false for `%s`, which is a file or a link' % F)
    return None


def fs_text_judge(ops, obs):
    """-> None, or (line index, rule, message) for the first operation whose observed outcome is not
    one the property text allows"""
    tree = {'in': ('d',), 'out': ('d',)}
    H = {}
    cwd_moved = False
    open_before = set()          # the handles the library reports open after the previous line
    for k, line in enumerate(ops):
        if k >= len(obs):
            return None
        o = obs[k]
        if o.startswith('!') or o.startswith('?'):
            return None
        secs = o.split(' | ')
        t = line.split(' ')
        op = t[0]
        if len(secs) < 4:
            return (k, 'format', 'observation without probes: ' + o[:80])
        res = secs[0].split(' ')
        post_toks = set() if secs[1] == '-' else set(secs[1].split(' '))
        hs = {}
        if secs[2] != '-':
            for x in secs[2].split(' '):
                a, _, b = x.partition('@')
                hs[int(a[1:])] = b
        pr = {}
        if secs[3] != '-':
            for x in secs[3].split(' '):
                a, _, b = x.partition('=')
                pr[a] = b
        exp = dict(tree)          # expected tree after the operation; rules edit it
        try:
            if res[0] in ('?closed', '?dir'):
                pass
            elif op in ('mkd', 'mkf', 'mkfbig', 'mkl'):
                # set-up by plain system calls: take the new entry from the observation
                if res[0] == '1':
                    new = [x for x in post_toks if x.partition(':')[0] not in tree]
                    if len(new) != 1:
                        raise Bad('set-up', 'set-up operation added %d entries' % len(new))
                    path = new[0].partition(':')[0]
                    if op == 'mkd':
                        exp[path] = ('d',)
                    elif op == 'mkf':
                        exp[path] = ('f', unhex(t[2]))
                    elif op == 'mkfbig':
                        exp[path] = ('f', pat_bytes(int(t[2]), int(t[3])))
                    else:
                        exp[path] = ('l', unhex(t[1]))
            elif op in ('inject', 'fault'):
                pass                  # arms the next copy / unlink / purge; what counts is what the library consumed (probes x, ff)
            elif op == 'open':
                h, fl = int(t[1]) & 7, int(t[3])
                wr = bool(fl & 2)
                rd = bool(fl & 1) or not wr
                if res[0] == '1':
                    T = pr.get('d', '-')
                    if T == '-' or T.startswith('?'):
                        raise Bad('open-target', 'open says true but the path denotes nothing afterwards')
                    if T in GUARD_DIRS:
                        pass                                # a guard level: a directory that the snapshot does not list
                    elif T in tree:
                        # write-only without append / open flags truncates; every other mode leaves the bytes alone
                        if tok_of(T, tree[T]) not in post_toks and tree[T][0] == 'f' and wr and not (fl & 13):
                            exp[T] = ('f', b'')
                    else:
                        if not wr or (fl & 8):
                            raise Bad('open-creates', 'open without writeFlag, or with openFlag, says true for a file that did not exist')
                        exp[T] = ('f', b'')
                    if h not in H:
                        v = exp[T] if T in exp else ('d',)
                        H[h] = {'path': T, 'pos': (len(v[1]) if (fl & 4) and v[0] == 'f' else 0), 'rd': rd, 'wr': wr, 'dir': v[0] == 'd'}
                elif res[0] != '0':
                    raise Bad('result', 'unexpected answer ' + res[0])
            elif op == 'close':
                H.pop(int(t[1]) & 7, None)
            elif op in ('cwd', 'abspath'):
                txt = unhex(res[0])
                arg_ = unhex(t[1]) if op == 'abspath' else b''
                if not txt.startswith(b'/') and not (op == 'abspath' and arg_[:1] in (b'/', b'\\') or arg_[1:3] in (b':/', b':\\')):
                    raise Bad('absolute-text', 'the answer `%s` is not an absolute path' % txt[:60])
                if op == 'abspath' and arg_:
                    if arg_[:1] == b'/' and txt != arg_:
                        raise Bad('absolute-changed', 'an absolute path comes back changed')
                    if arg_[:1] not in (b'/', b'\\') and arg_[1:3] not in (b':/', b':\\') and not txt.endswith(b'/' + arg_):
                        raise Bad('absolute-suffix', 'the absolute path does not end in the relative one')
                    if res[1:] != ['1', '1']:
                        raise Bad('absolute-denotes', 'the kernel takes `%s` and `%s` to different places (stat, lstat: %s)' % (arg_[:40], txt[:60], ' '.join(res[1:])))
            elif op == 'chdir':
                S = pr.get('s', '-')
                if not S.startswith('?'):
                    isdir = S in GUARD_DIRS or (S in tree and tree[S][0] == 'd')
                    if res[0] != ('1' if isdir else '0'):
                        raise Bad('change-result', 'Directory::change answers %s for `%s`' % (res[0], S))
            elif op == 'fexists':
                S = pr.get('s', '-')
                if not S.startswith('?') and res[0] != ('0' if S == '-' else '1'):
                    raise Bad('exists-result', 'File::exists answers %s, lstat finds `%s`' % (res[0], S))
            elif op == 'readallp':
                S = pr.get('s', '-')
                if not S.startswith('?'):
                    if S in tree and tree[S][0] == 'f':
                        if res != ['1', render(tree[S][1])]:
                            raise Bad('readall-path-bytes', 'readAll(path) gives `%s`, the file holds `%s`' % (' '.join(res)[:60], render(tree[S][1])))
                    elif res[0] != '0':
                        raise Bad('readall-path-result', 'readAll(path) says true for something that is no regular file (%s)' % S)
            elif op in ('dlist', 'dopen', 'dreadall', 'dclose'):
                if op == 'dlist':
                    S = pr.get('s', '-')
                    if not S.startswith('?'):
                        isdir = S in GUARD_DIRS or S.startswith('!') or (S in tree and tree[S][0] == 'd')
                        if res[0] != ('1' if isdir else '0'):
                            raise Bad('enum-open', 'Directory::open answers %s for `%s`' % (res[0], S))
                    if res[0] == '1' and S in tree:
                        import fnmatch
                        pat, only = unhex(t[2]), t[3] == '1'
                        got = {}
                        for x in res[1:-1]:
                            if x == '-':
                                continue
                            nm, _, ty = x.partition(':')
                            nm = unhex(nm).decode('latin-1')
                            if nm in got:
                                raise Bad('enum-twice', 'the entry `%s` is reported twice' % nm)
                            got[nm] = ty
                        if res[-1] != 'end=0':
                            raise Bad('enum-after-end', 'read says true after it said false')
                        kids = {q[len(S) + 1:]: v for q, v in tree.items() if q.startswith(S + '/') and '/' not in q[len(S) + 1:]}
                        for nm, v in kids.items():
                            sel = (not pat) or fnmatch.fnmatchcase(nm, pat.decode('latin-1'))
                            want = None
                            if sel and v[0] == 'd':
                                want = 'd'
                            elif sel and v[0] == 'f' and not only:
                                want = 'f'
                            elif sel and v[0] == 'l' and not only:
                                want = got.get(nm, 'missing')         # what a link leads to: left to the model
                                if want == 'missing':
                                    raise Bad('enum-missing', 'the entry `%s` is not reported' % nm)
                            if want != got.get(nm):
                                raise Bad('enum-entry', 'entry `%s` (%s): reported as %s, expected %s' % (nm, v[0], got.get(nm), want))
                        for nm in got:
                            if nm not in kids:
                                raise Bad('enum-alien', 'reported `%s`, which is no entry of the directory' % nm)
            elif op == 'flush':
                hh = H.get(int(t[1]) & 7)
                if hh is not None and hh['path'] in tree and pr.get('t') == hh['path'] and res[0] != '1':
                    raise Bad('flush-result', 'flush on an open handle says false')
            elif op in ('write', 'writebig', 'read', 'readall', 'seek', 'size'):
                h = int(t[1]) & 7
                hh = H.get(h)
                if hh is not None and hh['dir'] and op == 'readall' and res[0] != '0':
                    raise Bad('readall-directory', 'readAll on a handle that is open on a directory says true')
                if hh is not None and (hh['dir'] or hh['path'] not in tree or tree[hh['path']][0] != 'f' or pr.get('t') != hh['path']):
                    H.pop(h)
                    hh = None
                if hh is not None:
                    T, pos = hh['path'], hh['pos']
                    data = tree[T][1]
                    if op in ('write', 'writebig'):
                        d = unhex(t[2]) if op == 'write' else pat_bytes(int(t[2]), int(t[3]))
                        if hh['wr']:
                            if res[0] != '1':
                                raise Bad('write-result', 'write on a handle opened for writing says false')
                            if d:
                                exp[T] = ('f', bwrite(data, pos, d))
                                hh['pos'] = pos + len(d)
                        elif res[0] != '0':
                            raise Bad('write-result', 'write on a handle not opened for writing says true')
                    elif op == 'seek':
                        off, wh = int(t[2]), int(t[3])
                        tgt = (0 if wh == 0 else pos if wh == 1 else len(data)) + off
                        want = tgt if tgt >= 0 else -1
                        if res[0] != str(want):
                            raise Bad('seek-result', 'seek answers %s, the position asked for is %d' % (res[0], want))
                        if tgt >= 0:
                            hh['pos'] = tgt
                    elif op == 'size':
                        if res[0] != str(len(data)):
                            raise Bad('size-result', 'size answers %s, the file holds %d bytes' % (res[0], len(data)))
                    elif op == 'readall':
                        if isinstance(data, Sparse):
                            return None                  # not generated: readAll sizes its buffer by the file
                        if hh['rd']:
                            want = data[pos:]
                            if res != ['1', render(want)]:
                                raise Bad('readall-bytes', 'readAll gives `%s`, the file holds `%s` from the cursor on' % (' '.join(res), render(want)))
                            hh['pos'] = pos + len(want)
                        elif res[0] != '0':
                            raise Bad('readall-result', 'readAll on a handle not opened for reading says true')
                    elif op == 'read':
                        if hh['rd']:
                            want = bread(data, pos, int(t[2]))
                            if res[0] != render(want):
                                raise Bad('read-bytes', 'read gives `%s`, the file holds `%s` at the cursor' % (res[0], render(want)))
                            hh['pos'] = pos + len(want)
                        elif res[0] != '-1':
                            raise Bad('read-result', 'read on a handle not opened for reading succeeds')
            elif op == 'funlink':
                if res[0] == '1':
                    F = pr.get('s', '-')
                    if F not in tree or tree[F][0] == 'd':
                        raise Bad('unlink-what', 'File::unlink says true but the path named no file or link')
                    del exp[F]
            elif op == 'symlink':
                if res[0] == '1':
                    L = pr.get('d', '-')
                    if L == '-' or L in tree:
                        raise Bad('symlink-where', 'createSymbolicLink says true but made no new link')
                    exp[L] = ('l', unhex(t[1]))
            elif op == 'rename':
                fie = t[3] == '1'
                if res[0] == '1':
                    # the destination: the place the text names before the operation (its directory resolved
                    # plus the last name); where the text ends in '.', '..' or a separator, what it denotes afterwards
                    F, T = pr.get('s', '-'), pr.get('p', '-')
                    if T == '-':
                        T = pr.get('d', '-')
                    if F not in tree:
                        raise Bad('rename-missing-source', 'rename says true although the source did not exist')
                    if T == '-':
                        raise Bad('rename-target', 'rename says true but nothing is at the destination')
                    if fie and pr.get('e', '-') != '-':
                        raise Bad('rename-fail-if-exists', 'rename with failIfExists says true although the destination existed')
                    if F != T:
                        moved = {q: v for q, v in tree.items() if under(q, F)}
                        exp = {q: v for q, v in tree.items() if not under(q, F) and not under(q, T)}
                        for q, v in moved.items():
                            exp[T + q[len(F):]] = v
            elif op == 'copy':
                fie = t[3] == '1'
                S, E, D = pr.get('s', '-'), pr.get('e', '-'), pr.get('d', '-')
                consumed = pr.get('x', '0') not in ('0', '', '-')      # injected transfer outcomes that reached the library
                if res[0] == '1':
                    if S not in tree or tree[S][0] != 'f':
                        raise Bad('copy-source', 'copy says true although the source is no regular file')
                    if D == '-':
                        raise Bad('copy-target', 'copy says true but nothing is at the destination')
                    if fie and E != '-':
                        raise Bad('copy-fail-if-exists', 'copy with failIfExists says true although the destination existed')
                    exp[D] = ('f', tree[S][1])
                elif consumed and S in tree and tree[S][0] == 'f' and (
                        (E in tree and tree[E][0] == 'f' and E != S) or
                        (E == '-' and pr.get('l', '-') != '-' and D != '-' and D not in tree)):
                    # a transfer call of the library was made to fail or to stop short (probe x: the injected
                    # outcomes that actually reached the library) over an existing destination - or over a name
                    # that did not exist, reached through a symbolic link: what has arrived stays (level_note);
                    # it is a prefix of the source's bytes (how long: the sizes of the calls, which only the
                    # model predicts), no other name may appear, nothing else may change
                    W = E if E in tree else D
                    src = tree[S][1]
                    if fie or (W in tree and tok_of(W, tree[W]) in post_toks):
                        pass                       # failIfExists never touches an existing destination; or nothing happened
                    else:
                        n = None
                        for x in post_toks:
                            if x.startswith(W + ':f:'):
                                r_ = x[len(W) + 3:]
                                n = 0 if r_ == '-' else (int(r_[1:].split('.')[0]) if r_.startswith('#') else len(r_) // 2)
                        if n is None or n > len(src) or tok_of(W, ('f', src[:n])) not in post_toks:
                            raise Bad('copy-partial-bytes', 'after a failed transfer the destination holds neither nothing nor a prefix of the source')
                        exp[W] = ('f', src[:n])
            elif op == 'exists':
                S = pr.get('s', '-')
                if not S.startswith('!') and not S.startswith('?'):
                    want = '1' if (S in tree and tree[S][0] == 'd') else '0'
                    if res[0] != want:
                        raise Bad('exists-result', 'Directory::exists answers %s for `%s`' % (res[0], S))
            elif op == 'create':
                if res[0] != res[1]:
                    raise Bad('create-true-iff-exists', 'Directory::create answers %s, the directory %s afterwards' % (
                        res[0], 'exists' if res[1] == '1' else 'does not exist'))
                for x in post_toks:                       # new directories, and only directories, may appear
                    q, _, v = x.partition(':')
                    if q not in tree:
                        if v != 'd':
                            raise Bad('create-makes-non-directory', 'Directory::create made `%s`' % x[:60])
                        exp[q] = ('d',)
            elif op == 'dunlink':
                rec = t[2] == '1'
                if res[0] == '1':
                    F = pr.get('s', '-')
                    if F not in tree or tree[F][0] != 'd':
                        raise Bad('unlink-not-a-directory', 'Directory::unlink says true but the path itself named no directory (%s)' % F)
                    if not rec and any(under(q, F) and q != F for q in tree):
                        raise Bad('unlink-non-recursive', 'non-recursive Directory::unlink removed a directory that was not empty')
                    exp = {q: v for q, v in tree.items() if not under(q, F)}
                elif rec:
                    # a recursive unlink that fails may have removed part of the tree; nothing new, nothing
                    # altered, and nothing outside the directory the path names
                    exp = {q: v for q, v in tree.items() if tok_of(q, v) in post_toks}
                    F = pr.get('s', '-')
                    out_ = [q for q in tree if q not in exp and not (F in tree and under(q, F))]
                    if out_ and not (t[1].endswith('2f') or t[1].endswith('2e')):
                        raise Bad('unlink-failed-outside', 'a failed recursive unlink removed `%s`, outside the directory it was given' % out_[0][:60])
            elif op == 'purge':
                rec = t[2] == '1'
                F = pr.get('s', '-')
                if res[0] == '1':
                    if F not in tree or tree[F][0] != 'd':
                        raise Bad('purge-not-a-directory', 'Directory::purge says true but the path itself named no directory (%s)' % F)
                    if not rec and any(under(q, F) and q != F for q in tree):
                        raise Bad('purge-non-recursive', 'non-recursive Directory::purge removed a directory that was not empty')
                    exp = {q: v for q, v in tree.items() if not under(q, F)}
                    # on top of that only directories that are empty now may go (the ancestors; which ones: the model)
                    for q in sorted((q for q in exp if tok_of(q, exp[q]) not in post_toks), key=len, reverse=True):
                        if exp[q][0] != 'd' or any(under(x, q) and x != q for x in exp):
                            raise Bad('purge-removes-more', 'Directory::purge also removed `%s`, which is no empty directory' % q[:60])
                        if not under(F, q):
                            raise Bad('purge-removes-elsewhere', 'Directory::purge also removed `%s`, which is no ancestor of the directory' % q[:60])
                        del exp[q]
                elif rec:
                    exp = {q: v for q, v in tree.items() if tok_of(q, v) in post_toks}
                    out_ = [q for q in tree if q not in exp and not (F in tree and under(q, F))]
                    if out_ and not (t[1].endswith('2f') or t[1].endswith('2e')):
                        raise Bad('purge-failed-outside', 'a failed purge removed `%s`, outside the directory it was given' % out_[0][:60])
            else:
                return None
            # what the text obliges to succeed
            ob = obliged(op, t, res, pr, tree, cwd_moved, open_before)
            if ob:
                raise Bad(ob[0], ob[1])
            if op == 'chdir' and res[0] == '1':
                cwd_moved = True
            # the tree afterwards must be exactly the expected one
            exp_toks = set(tok_of(q, v) for q, v in exp.items())
            if exp_toks != post_toks:
                new = sorted(post_toks - exp_toks)
                gone = sorted(exp_toks - post_toks)
                failed = res[0] in ('0', '-1') and op not in ('read', 'seek', 'size')
                if failed and op not in ('dunlink', 'create', 'purge'):
                    rule = 'failure-leaves-tree-changed' if (gone or any(x.partition(':')[0] in tree for x in new)) else 'failure-leaves-new-name'
                elif any(x.startswith('!') or under(x.partition(':')[0], 'out') for x in new + gone):
                    rule = 'tree-outside'
                else:
                    rule = 'tree'
                raise Bad(rule, 'after `%s` answering %s: unexpected %s, missing %s' % (
                    op, ' '.join(res), [x[:70] for x in new[:3]], [x[:70] for x in gone[:3]]))
            # cursors of the tracked handles
            for h, hh in H.items():
                if not hh['dir'] and h in hs and hs[h] != str(hh['pos']):
                    raise Bad('cursor', 'handle %d is at %s, the byte-sequence reading puts it at %d' % (h, hs[h], hh['pos']))
        except Bad as b:
            return (k, b.args[0], b.args[1])
        # carry the expected (= observed) tree forward
        tree = exp
        open_before = set(hs)
        for h in [h for h, hh in H.items() if hh['path'] not in tree]:
            H.pop(h)
    return None


def consumed_fault(obs_line):
    """did an injected transfer outcome / the armed fault reach a call of the library (harness probes x, ff)"""
    secs = obs_line.split(' | ')
    if len(secs) < 4:
        return False
    pr = dict(x.partition('=')[::2] for x in secs[3].split(' '))
    return pr.get('ff', '0') == '1' or pr.get('x', '0') not in ('0', '', '-')


def spec_lines_that_count(spec, impl):
    """The Spec-mode lines of a file-system case that are held against the implementation as the PROPERTY.
    A line with the token M was computed by running the Model (open / handle operations / copy / rename / create / unlink /
    set-up calls ...): for these operations the property oracle is fs_text_judge alone - an answer that differs from the
    Model's and that the text allows (rename(directory, new, failIfExists) made to work; copy onto the same empty file
    accepted) is no failure of the property.  At the first such difference the Spec, whose state has gone the Model's
    way, is not consulted for the rest of the case; the difference shows as model/implementation correspondence
    (no-failing-input-found).  Lines without M come from the Coq Spec (readAll(path), enumeration, getAbsolutePath,
    purge on plain paths) and count in full.  A sanitizer / crash line (!) always counts.  Token F: under_faults."""
    from vf import line_matches
    out = []
    for k, line in enumerate(spec):
        m = line.startswith('M ')
        if m:
            line = line[2:]
        if line.startswith('F '):
            if k < len(impl) and consumed_fault(impl[k]):
                return out, impl[:k]
            line = line[2:]
        if m and k < len(impl) and not impl[k].startswith('!') and not line_matches(line, impl[k]):
            return out, impl[:k]
        out.append(line)
    return out, impl


def under_faults(spec, impl):
    """A Spec line that starts with the token F is the expectation for an operation that ran with an injected
    transfer outcome (`inject`) or an armed fault (`fault n`), computed WITHOUT the fault.  The property text
    fixes the outcome of such an operation only through the faults that actually fired, so the line counts in
    full when the harness reports that nothing was consumed (the library made no such call, or fewer calls than
    the position of the fault); when a call of the library was made to fail, which call that was and what is
    left depends on the order and number of the library's system calls - the text says nothing about either - and
    that operation and the rest of the case are judged by fs_text_judge alone (true => the exact result; false =>
    nothing new, nothing altered, nothing outside the given directory / the one destination file; the observed
    tree is carried forward).  The exact prediction stays with the Model (correspondence)."""
    out = []
    for k, line in enumerate(spec):
        if line.startswith('F '):
            if k < len(impl) and consumed_fault(impl[k]):
                return out, impl[:k]
            line = line[2:]
        out.append(line)
    return out, impl


class C19(Check):
    id = 'C19'
    comp = 'Path'
    extracted = ['coq/Path/model.mli', 'coq/Path/model.ml', 'ocaml/zconv.ml', 'ocaml/path_driver.ml']
    harness_sources = ['harness/path.cpp']
    level_text = ('Theorems in Coq. A (path functions, for all byte strings): simplifyPath equals the reference normal form '
                  '(idempotent; lexically equivalent to its input, where equivalence = same kind and same resolution against '
                  'every current directory; equivalent paths get the same text), directory+base and stem+extension recompose the '
                  'path, the scanners equal the reference "before/after the last separator (dot)", and from + getRelativePath(from,to) '
                  'simplifies to simplifyPath(to) whenever a lexical answer exists (same kind, `from` keeps no more leading ".." than `to`). B (files/directories): executable model of the '
                  'library logic (open flag mapping, size/readAll/write/seek, rename with source check and exclusive placeholder, '
                  'copy with same-file refusal, transfer loop and clean-up, recursive create, recursive unlink by entry type) over a '
                  'Gallina file-system tree with files, directories and symbolic links; any history on a handle of any mode (read-only, '
                  'write-only, read-write; every open-flag combination) refines a byte buffer with cursor; a copy / rename that says true leaves exactly the state "tree before with the source\'s '
                  'bytes at the resolved destination" / "with the source node moved there" (for every outcome of the kernel\'s '
                  'transfer calls: short, empty, failing - an outcome oracle); failed open/rename change nothing, a failed copy '
                  'changes nothing when transfers complete and otherwise at most the one destination file, which it removes again '
                  'when it created it; create returns true iff the directory exists afterwards, on plain-name paths it succeeds and '
                  'adds exactly the chain of missing directories; recursive unlink yields the tree with exactly that sub-tree cut out '
                  'and refuses a symbolic link; every reachable tree is well-formed. The models are tied to the code by running '
                  'extracted model and the ASan/UBSan build of the working tree on the same inputs: all path strings up to length 7 '
                  'over {/ \\ . a b} (thorough), and the real File/Directory code on scratch trees with an outside sentinel reached '
                  'through symbolic links (results, full snapshots of both trees, handle cursors, and what the real kernel says each '
                  'path text denotes, compared). For B the implementation is judged twice: by an executable reading of the property '
                  'text that does not use the model (checks/C19.py fs_text_judge: failure leaves the tree exactly as it was; copy/rename '
                  'success = exactly the bytes / the node at the place the kernel resolves; handles = byte sequence with cursor; '
                  'create true iff exists, only directories added; unlink removes exactly the named directory), then against the model. '
                  'Round 3 (the functions the coverage measurement found unentered): flush is an operation of the handle histories (no byte, '
                  'no cursor moves); static readAll(path) gives true and exactly the bytes iff the text leads to a regular file - a directory '
                  '(repair fixes/C19/10), a missing name, a dangling link report failure - and never changes tree, current directory or handles; '
                  'File::exists = lstat; getAbsolutePath is absolute, keeps absolute arguments, lexically denotes the argument resolved from the '
                  'current directory (reference of part A) and leads the kernel walk where the argument leads; Directory::change; the enumeration '
                  'open/read/close yields exactly the reference listing (entries the pattern selects, each once, directory order, right type incl. '
                  'links to directories, "." and ".." left out; wildcard matcher proved equal to the reference relation); purge = the exact cut plus '
                  'every ancestor below the current directory that this leaves empty, nothing outside the first name of the path touched; recursive '
                  'unlink with any one failing rmdir/opendir/readdir/unlink call (fault oracle; exercised through interposed calls) says true only '
                  'with the exact cut, false only when a call failed, and in all cases only removes inside the given directory. '
                  'Under injected faults (a failing rmdir/opendir/readdir/unlink call; a short, empty or failing sendfile) the property oracle '
                  'demands only what the text states given the faults that actually fired: the harness reports whether an injected outcome '
                  'reached a call of the library (probes x = sendfile outcomes consumed, ff/fw = the armed fault made this call fail); when none '
                  'did, the fault-free expectation applies in full (theorem unlink_fault_not_consumed_is_fault_free: such a run is the fault-free '
                  'run); when one did, the answer true requires the exact result, the answer false requires no new name, nothing altered, removals '
                  'inside the given directory only (copy: at most the one destination file, holding a prefix of the source) - which call fails and '
                  'which entries are left is predicted by the model alone and compared as correspondence. '
                  'Round 5: (a) the property oracle for part B is the reading of the text (fs_text_judge) ALONE for every operation whose Spec-mode line is '
                  'the Model\'s answer (open, handle operations, copy, rename, create, unlink, set-up calls: token M) - a difference to the Model that the text '
                  'allows is reported as correspondence (no-failing-input-found), the Spec is not consulted for the rest of such a case; lines computed from the '
                  'Coq Spec (readAll(path), enumeration, getAbsolutePath, purge on plain paths) still count in full. (b) So that the text judge stands alone it '
                  'also states what the text obliges to SUCCEED (plain names through real directories, free place or - copy - a regular file to overwrite, no '
                  'injected outcome consumed): open of an existing regular file / of a new file for writing, copy, rename, create, recursive unlink, purge, '
                  'File::unlink must answer true; the theorems copy_succeeds, copy_overwrites, rename_succeeds (+ _on_plain_names) prove it of the model - before, every '
                  'copy / rename theorem was conditional on the answer. (c) Part A has its own executable reading of the text (path_text_judge): a path is walked '
                  'over an abstract tree to (absolute?, levels escaped above the start, names left); simplifyPath must keep that triple and be idempotent; '
                  'from + "/" + getRelativePath(from, to) must have the triple of `to` whenever the kinds agree and `from` escapes no further than `to`. '
                  '(d) offsets beyond 32 bits: seek / write / size / read on sparse files (2^31-1 .. 2^40), judged by the text judge with contents kept as size + '
                  'non-zero bytes; the extracted model (Peano positions) is not asked there.')
    level_note = ('Partial for B: the kernel (path resolution with symbolic links, open/read/write/lseek/ftruncate/sendfile/rename/unlink/'
                  'mkdir/rmdir/symlink/stat/lstat/readdir; FsModel part K) is a trusted model, validated only by correspondence on one '
                  'file system (the sandbox reports ext2/ext3; uid 0, so no permission failures; no hard links); descriptors name files by '
                  'canonical path, so a file renamed/unlinked while a handle on it is open is outside the model and the generators. '
                  'Kernel outcomes: sendfile may be short / empty / failing (oracle, exercised through an interposed sendfile); single '
                  'read() and write() calls are assumed to complete (File::write(String) reports a short write as false, readAll returns '
                  'what one read() gives, i.e. at most 0x7ffff000 bytes) and ftruncate/fstat/lseek/close not to fail. A transfer that '
                  'fails midway over a destination that existed before - or over a name that did not, reached through a symbolic link, '
                  'which the second open creates - leaves the bytes that arrived (a prefix of the source): an atomic replace would be a '
                  'redesign (temporary file + rename). The file-handle theorem covers one handle of any mode on an existing or fresh regular '
                  'file; a second handle on the same file, File::unlink and createSymbolicLink are covered by the text judge and '
                  'correspondence only. The unlink theorem and create_succeeds are stated for relative texts of proper names through real directories '
                  '(create_succeeds: names without backslash); unlink/create through \'.\', \'..\' or symbolic links by judge and '
                  'correspondence only. create false => not-exists needs a path text without backslash (the code splits parents at '
                  'backslashes too, the kernel does not). getRelativePath: from and to of the same kind, and simplifyPath(from) keeps no more leading \'..\' than simplifyPath(to) '
                  '(PathSpec.rel_hyp_wide: the class in which a lexical answer exists - with more, one would need a name no lexical function has; until round 5 the '
                  'hypothesis excluded every `from` with a leading \'..\'; widening it found that the code answered "../../.." for ("../a", ".."), repair fixes/C19/11; '
                  'theorem relative_path_denotes_target_wide is about the repaired code). Choices where the text is silent and the Spec/judge follows '
                  'the code: simplifyPath keeps "/.." ; absolute = starts with a separator; appendFlag is one lseek to the end at open, '
                  'not O_APPEND; only write-only without append/open flag truncates; a Directory::create that fails may leave the parents '
                  'it made (directories, never files); File::rename(dir, new, failIfExists=true) always fails because the placeholder is a '
                  'regular file (it reports failure and leaves nothing, so the text is met; making it work needs a directory '
                  'placeholder - a tree that does that is accepted by the property oracle and differs from the model only: A2-04-H); copy onto the same file is refused (EINVAL) even when the file is empty. Tie limits: contents up to '
                  '200 KB (thorough 1 MiB; the extracted model computes on Peano numbers and lists; offsets up to 2^40 on sparse files by the text judge only - '
                  'readAll and copy are not driven there, they size a buffer / move every byte), absolute paths only in the chroot '
                  'stream (needs uid 0, skipped otherwise), path texts ending in a separator only for Directory::create/unlink/exists '
                  '(the kernel model ignores a trailing separator, which is wrong for files and links under open/unlink/rename/copy: not '
                  'generated), descriptor 0 is never free in the harness (File stores the descriptor with 0 meaning closed: an open that '
                  'got descriptor 0 would report isOpen() false and leak). Round 3: not modelled because outside the property text and '
                  'never entered: Directory::getTempDirectory, getHomeDirectory, File::time, File::isExecutable. fnmatch is modelled for patterns '
                  'of literal bytes, * and ? only (no brackets, no backslash; patterns without NUL); readdir order is the tree order in the model - '
                  'listings are compared sorted, and under an armed fault the harness hands the entries out by name (a legal kernel) while the '
                  'generator creates them in that order; a directory that changes between open() and read() is outside the model (only what a '
                  'link leads to is changed there). Choices of the code the Spec follows: with dirsOnly a symbolic link to a directory is not '
                  'reported (d_type decides before stat; the `else if(dirsOnly) continue` after stat is dead), without it it is reported as a '
                  'directory; read() leaves the object open at the end, so open() is refused until close(); purge answers true as soon as the '
                  'directory is gone, whatever becomes of the parents (documented); its climb is textual: a trailing separator stops it at once '
                  '(rmdir of the name just removed fails), and a backslash counts as a separator, so purge("x\\y") removes the directory `x\\y` and '
                  'then tries the unrelated name `x` (as Directory::create does for parents); getAbsolutePath takes `c:/...` and a leading backslash '
                  'for absolute on POSIX too, and when getcwd fails (current directory removed) it answers "/" + path: not generated. Fault oracle: one '
                  'failing call (EIO) per operation; the purge theorem is for the fault-free run, purge under faults by judge and correspondence; a '
                  'current directory that is removed or renamed while current is outside model and generators. The position of a fault counts the '
                  'library\'s own calls, so which call fails - and what a failed unlink leaves, or whether a sendfile outcome is met at all - depends on '
                  'the order, number and kind of system calls the code makes; the text says nothing about them, so a rewrite that lists a directory '
                  'first and removes files before sub-directories, or copies with read/write instead of sendfile, is not contradicted by the '
                  'property oracle: it shows as a model/implementation difference (no-failing-input-found). A failed unlink that goes on removing '
                  'other entries after the failing one still reports failure and removes inside the directory only: also only a difference to the model '
                  '(mutant 18). After an operation that consumed a fault the Spec (whose state is the fault-free one) is not consulted for the rest of '
                  'the case; the text judge, which carries the observed tree forward, is. readAll on a File that was never '
                  'opened looks at descriptor 0. Trusted: Coq kernel, extraction + OCaml driver, harness, generators, the Python judge.')
    technique = 'machine-checked proof (Coq) + model/implementation correspondence + executable property-text judge'
    rule = ('A: every string of length <= 5 (thorough 7) over {/ \\ . a b} through all scanners, simplifyPath twice and '
            'isAbsolutePath; every pair of strings of length <= 3 (4) through getRelativePath; explicit extensions; random longer '
            'paths from a vocabulary of components sharing prefixes. Non-trivial = a path with a separator and a name. '
            'B: one case = a scratch tree (random or one of 4 fixed trees: directories, files, symbolic links to ../out, to '
            'files, dangling, self-referential) + operations: handle histories under every open-flag mapping (incl. empty writes '
            'behind the end) with re-read, copy/rename of the result; create/unlink/exists on existing, missing, file-in-the-way, '
            'dotted, linked paths and paths ending in separators; rename/copy/open aimed at each failure branch (incl. source = '
            'destination directly, through links and other spellings, missing source onto itself); copy under every kind of '
            'sendfile outcome (short, empty, failing; destination new, existing, dangling link, outside); contents of 64 KiB..200 KB '
            '(1 MiB) through readAll/read/write/append/copy/rename; absolute path texts and link targets, the root and its children, '
            'inside a chroot; exhaustively every path of <= 2 (3) components over {a b l [f] . ..} for create/unlink and every pair '
            'of short paths for rename/copy with both failIfExists values. Round 3: enumeration with 20 patterns x dirsOnly on trees with '
            'hidden names, links to directories / files / nothing / "." / "..", through ".", "..", links, files, missing names, and the object '
            'protocol (open twice, read past the end, open at the end, close, read closed, reuse, link target changed between open and read); '
            'readAll(path) / exists / flush / getAbsolutePath / cwd / change on random trees (flush on directory handles, readAll of directories - '
            'the witness of fix 10); purge on chains with siblings, every empty chain of depth <= 4 from every level, absolute chains in the chroot; '
            'unlink / purge with one failing call at every position on 4 fixed trees and at random positions on random chains. Non-trivial = a '
            'library operation ran and its answer was observed; distinct = distinct op text. Round 5: every path of <= 6 (7) components over {a b .. .}, '
            'relative and absolute, through simplifyPath (paths-dots); every pair of paths of <= 3 (4) components over {a b ..}, both relative / both absolute, through '
            'getRelativePath (relative-dots); names starting with a dot (.d/ .git/ .h .hidden ..x .l -> outside) in the random trees, the chains, one fixed and one fault '
            'tree; 24 (96) sparse-file cases with offsets 2^31-1, 2^31, 2^31+1, 2^32-1, 2^32, 2^32+5, 2^33+7, 2^40+3 (absolute, relative, from the end, negative targets, '
            'append at > 4 GiB, rename + reopen).')
    assumptions = ['kernel file-system semantics as modelled in coq/Path/FsModel.v part K (validated by correspondence on the sandbox file system, reported as ext2/ext3, uid 0)',
                   'no file is renamed or unlinked while a handle on it is open; no hard links; no permission failures',
                   'single read()/write() calls complete; ftruncate/fstat/lseek/close do not fail (sendfile may be short or fail: modelled)',
                   'readdir reports exact entry types (dirent.d_type never DT_UNKNOWN: Directory::unlink would take a directory for a file and fail); the order of readdir does not matter as long as no removal fails midway',
                   'descriptor 0 is in use (File treats descriptor 0 as "closed")',
                   'path texts ending in a separator: only Directory::create/unlink/exists',
                   'getRelativePath: same kind of from/to, simplifyPath(from) keeps no more leading ".." than simplifyPath(to) (otherwise no lexical answer exists)',
                   'what the text obliges to succeed is read as: texts of plain names through real directories, parent exists, place free (copy: or a regular file, without failIfExists), no injected outcome consumed, current directory not changed in the case',
                   'Directory::create false => not-exists: path text without backslash; create_succeeds / unlink / purge / fault theorems: relative texts of proper names through real directories',
                   'fnmatch(pattern, name, 0) as modelled for patterns of literal bytes, * and ? (FsModel.glob, proved equal to the reference relation FsSpec.matches)',
                   'a directory is not changed between Directory::open and the reads; at most one system call of an unlink / purge fails (EIO)',
                   'injected faults are judged by what the harness reports as consumed (sendfile outcomes, the failing rmdir/unlink/opendir/readdir call); faults in calls the harness does not interpose (read, write, open, close) are not generated',
                   'getAbsolutePath: getcwd succeeds and the current directory is a real directory named by proper names (holds initially and after every successful Directory::change)']

    FS_SETUP = ('mkd', 'mkf', 'mkl', 'mkfbig', 'inject', 'fault')

    # cases '@fs sparse' (64-bit offsets): the extracted model is not asked; its lines and the spec's are wildcards
    @staticmethod
    def _wild(case):
        return ['? ?' if l.split(' ')[0] in ('readall', 'create', 'dunlink', 'purge') else '?' for l in case[1:]]

    def _split_run(self, cases, runner):
        idx = [i for i, c in enumerate(cases) if not (c and c[0] == '@fs sparse')]
        res = [None] * len(cases)
        if idx:
            for i, o in zip(idx, runner([cases[i] for i in idx])):
                res[i] = o
        return [self._wild(c) if r is None else r for c, r in zip(cases, res)]

    def _run_driver(self, cases, tag, args):
        """the extracted model / spec; the stream with contents of up to 1 MiB (Peano numbers, lists) gets the time it
        needs on a loaded machine instead of vf's default 60 + 30 + 0.05 n seconds per shard"""
        import vf
        if 'fs-big' not in tag:
            return vf.run_sharded(self.exes['model'], cases, os.path.join(vf.BUILD, self.id, 'run'), tag, args)
        from concurrent.futures import ThreadPoolExecutor
        k = 4
        shards = [cases[j::k] for j in range(k)]
        with ThreadPoolExecutor(max_workers=k) as ex:
            futs = [ex.submit(vf.run_exe_on_cases, self.exes['model'], sh_, os.path.join(vf.BUILD, self.id, 'run'), '%s_s%d' % (tag, j),
                              args, 2400) for j, sh_ in enumerate(shards) if sh_]
            parts = [f.result()[0] for f in futs]
        res = [None] * len(cases)
        live = [j for j in range(k) if shards[j]]
        for j, part in zip(live, parts):
            for n_, o in enumerate(part):
                res[j + n_ * k] = o
        return res

    def run_model(self, cases, tag='model'):
        return self._split_run(cases, lambda cs: self._run_driver(cs, tag, self.model_args))

    # A tree on which the harness crashes or hangs on (nearly) every case: give up early.  The harness runs in chunks (20 cases,
    # doubling while nothing crashes);
    # a watchdog timeout costs per_case_timeout seconds and counts 5, a crash counts 1; after CRASH_CAP points in one stream
    # the rest of that stream, and after TOTAL_CAP in the whole run every remaining stream, is marked '! notrun' (vf drops
    # such cases); what has been seen is reported.  All cases hanging: 20-46 timeouts = 4-8 minutes; all crashing: 150 reports.
    CRASH_CAP = 100
    TOTAL_CAP = 150
    _crashes_seen = 0

    def run_impl(self, cases, tag='impl'):
        import vf
        wd = os.path.join(vf.BUILD, self.id, 'run')
        env = {'ASAN_OPTIONS': 'detect_leaks=0:abort_on_error=0:allocator_may_return_null=1:max_allocation_size_mb=2048:symbolize=0'}
        res, crashes, bad = [], {}, 0
        streaming = tag.startswith('impl_')           # the caps are for the streams, not for shrinking / replay
        chunk, a = 20, 0          # chunks double while nothing crashes and fall back to 20 when something does
        while a < len(cases):
            part = cases[a:a + chunk]
            if streaming and (bad >= self.CRASH_CAP or self._crashes_seen >= self.TOTAL_CAP):
                res += [['! notrun'] for _ in cases[a:]]
                break
            r, cr = vf.run_exe_on_cases(self.exes['impl'], part, wd, tag, is_impl=True, per_case_timeout=self.per_case_timeout, env=env)
            res += r
            for k, v in cr.items():
                crashes[a + k] = v
            pts = sum(5 if v[0] == 'timeout' else 1 for v in cr.values())
            bad += pts
            if streaming:
                self._crashes_seen += pts
            a += len(part)
            chunk = 20 if cr else min(4000, chunk * 2)
        if streaming and (bad >= self.CRASH_CAP or self._crashes_seen >= self.TOTAL_CAP):
            vf.log('[C19] %s: %d points of harness crashes (1) / timeouts (5) in this stream (%d in the run): remaining cases not run' % (tag, bad, self._crashes_seen))
        return res, crashes

    def run_spec(self, cases, tag='spec'):
        return self._split_run(cases, lambda cs: self._run_driver(cs, tag, self.spec_args))

    def nontrivial(self, case, obs):
        if case and case[0].startswith('@fs'):
            # a file-system case counts when a library operation ran and its answer was observed
            ops = case[1:]
            for l, o in zip(ops, obs):
                if l.split()[0] not in self.FS_SETUP and not o.startswith('?') and not o.startswith('!'):
                    return True
            return False
        for l in case:
            for a in l.split()[1:]:
                if a == '-' or not all(ch in '0123456789abcdef' for ch in a):
                    continue
                b = unhex(a)
                if any(ch in b for ch in b'/\\') and any(ch not in b'/\\' for ch in b):
                    return True
        return False

    FIELDS = {'parts': ['directory', 'base', 'stem', 'extension'], 'basex': ['base', 'stem'],
              'simp': ['simplified', 'simplified-twice'], 'abs': ['absolute'], 'rel': ['relative', 'from+relative']}

    def judge(self, cases, impl_obs, spec_obs):
        """default comparison, but the reason starts with a class (operation, field, kind of the first
        argument) so that one report is made per kind of failure rather than per byte pattern"""
        from vf import first_diff
        fails = []
        # B, first the property text itself (independent of the model), then the model of the repaired code
        text_failed = set()
        for i, c in enumerate(cases):
            if c and c[0].startswith('@fs'):
                r = fs_text_judge(c[1:], impl_obs[i])
                if r:
                    k, rule, msg = r
                    opn = c[1 + k].split(' ')[0] if 1 + k < len(c) else '?'
                    cls = ('fs-text/%s/%s' % (opn, rule)).replace('0', 'o').ljust(80)
                    fails.append((i, k, cls + ' ' + msg))
                    text_failed.add(i)
            elif c and not c[0].startswith('@'):
                r = path_text_judge(c, impl_obs[i])
                if r:
                    k, rule, msg = r
                    cls = ('path-text/%s/%s' % (c[k].split(' ')[0], rule)).ljust(80)
                    fails.append((i, k, cls + ' ' + msg))
                    text_failed.add(i)
        for i, (s, o) in enumerate(zip(spec_obs, impl_obs)):
            if i in text_failed:
                continue
            if cases[i] and cases[i][0].startswith('@fs'):
                s, o = spec_lines_that_count(s, o)
            k = first_diff(s, o)
            if k is None:
                continue
            exp = s[k] if k < len(s) else '<nothing>'
            got = o[k] if k < len(o) else '<nothing>'
            ops_i = cases[i][1:] if cases[i] and cases[i][0].startswith('@') else cases[i]
            opl = ops_i[k].split() if k < len(ops_i) else ['?']
            if cases[i] and cases[i][0].startswith('@fs'):
                if i in text_failed:
                    continue
                es, gs = exp.split(' | '), got.split(' | ')
                if got.startswith('!'):
                    what = got
                elif es[0] != gs[0]:
                    what = 'result'
                else:
                    e_t, g_t = set(es[1].split()) if len(es) > 1 else set(), set(gs[1].split()) if len(gs) > 1 else set()
                    new = sorted(x for x in g_t - e_t)
                    gone = sorted(x for x in e_t - g_t)
                    touched = ' '.join(new + gone)
                    what = 'tree-outside' if ('out' in touched or '!' in touched) else ('tree-left-behind' if new and not gone else 'tree')
                cls = ('fs/%s/%s' % (opl[0], what)).replace('0', 'o').ljust(80)
                fails.append((i, k, '%s expected `%s`, implementation gives `%s`' % (cls, exp, got)))
                continue
            field = '?'
            et, gt = exp.split(' | ')[0].split(' '), got.split(' | ')[0].split(' ')
            for j, (a, b) in enumerate(zip(et, gt)):
                if a != b and a != '?':
                    names = self.FIELDS.get(opl[0], [])
                    field = names[j] if j < len(names) else 'field%d' % j
                    break
            kind = ''
            if opl[0] in self.FIELDS and len(opl) > 1:
                a = unhex(opl[1])
                kind = 'absolute' if a[:1] in (b'/', b'\\') else ('empty' if not a else 'relative')
            if got.startswith('!'):
                field = got
            cls = ('%s/%s/%s' % (opl[0], field, kind)).replace('0', 'o').ljust(80)
            fails.append((i, k, '%s spec expects `%s`, implementation gives `%s`' % (cls, exp, got)))
        return fails

    def streams(self, tier, rng):
        thorough = tier == 'thorough'
        out = []
        # A1: every string up to length 7 (5 quick) over { / \ . a b }
        L1 = 7 if thorough else 5
        cases = [['parts ' + hexs(s), 'simp ' + hexs(s), 'abs ' + hexs(s)] for s in all_strings(L1)]
        out.append(Stream('paths-exhaustive', cases, exhaustive=True,
                          note='all strings of length <= %d over {/ \\ . a b}' % L1))
        # A2: all pairs up to length 4 (3 quick) for getRelativePath, one case per `from`
        L2 = 4 if thorough else 3
        S2 = all_strings(L2)
        cases = [['rel %s %s' % (hexs(f), hexs(t)) for t in S2] for f in S2]
        out.append(Stream('relative-exhaustive', cases, exhaustive=True,
                          note='all pairs of strings of length <= %d over {/ \\ . a b}' % L2))
        # A3: base name / stem with an explicit extension
        S3 = all_strings(4 if thorough else 3)
        E3 = all_strings(3 if thorough else 2)
        cases = [['basex %s %s' % (hexs(p), hexs(e)) for e in E3] for p in S3]
        out.append(Stream('extension-exhaustive', cases, exhaustive=True))
        # A4: random longer paths from a vocabulary of components
        cases = []
        for _ in range(6000 if thorough else 1200):
            p, q = rand_path(rng), rand_path(rng)
            if rng.random() < 0.5:       # same kind, sharing a prefix: the interesting relative paths
                pre = rand_path(rng, 4)
                p, q = pre + b'/' + p, pre + b'/' + q
            e = rng.choice([b'gz', b'.gz', b'tar.gz', b'.b', b'b', b'.', b'', b'hid'])
            cases.append(['parts ' + hexs(p), 'simp ' + hexs(p), 'abs ' + hexs(p), 'basex %s %s' % (hexs(p), hexs(e)),
                          'rel %s %s' % (hexs(p), hexs(q)), 'rel %s %s' % (hexs(q), hexs(p))])
        out.append(Stream('paths-random', cases))
        # A5: every path of up to 6 components over {a b .. .}, relative and absolute (runs of '..' after names, '..' uncovered
        # by 'name/..', three and more '..' in a row), some with doubled and backslash separators; pairs of the shorter ones
        cases = []
        for j, q in enumerate(dot_paths(7 if thorough else 6)):
            c = ['simp ' + hexs(q), 'simp ' + hexs(b'/' + q)]
            if j % 7 == 0:
                c.append('simp ' + hexs(q.replace(b'/', rng.choice([b'//', b'\\', b'/./'])) + rng.choice([b'', b'/', b'\\'])))
            cases.append(c)
        out.append(Stream('paths-dots', cases, exhaustive=True, note='all paths of <= %d components over {a b .. .}, relative and absolute' % (7 if thorough else 6)))
        S5 = dot_paths(4 if thorough else 3, (b'a', b'b', b'..'))
        cases = [['rel %s %s' % (hexs(pre + f), hexs(pre + t)) for t in S5] for f in S5 for pre in (b'', b'/')]
        out.append(Stream('relative-dots', cases, exhaustive=True, note='getRelativePath on all pairs of paths of <= %d components over {a b ..}, both relative / both absolute' % (4 if thorough else 3)))
        # B: the real File / Directory code on scratch trees against the file-system model
        out.append(Stream('fs-files', fs_files_cases(rng, 1500 if thorough else 250),
                          note='open with every flag mapping, write/seek/read/readAll/size histories, re-read, copy, rename'))
        out.append(Stream('fs-dirs', fs_dirs_cases(rng, 2500 if thorough else 400),
                          note='Directory::create / unlink on random trees with symbolic links to the outside sentinel'))
        out.append(Stream('fs-failures', fs_failure_cases(rng, 2000 if thorough else 300),
                          note='rename / copy / open aimed at their failure branches'))
        out.append(Stream('fs-transfer', fs_transfer_cases(rng, 1500 if thorough else 250, True),
                          note='File::copy with short, empty and failing sendfile calls (outcome oracle), sources up to 128 KiB'))
        out.append(Stream('fs-big', fs_big_cases(rng, 48 if thorough else 12, thorough) + fs_sparse_cases(rng, 96 if thorough else 24),
                          note='contents of 64 KiB .. %s through readAll / read / write / append / copy / rename; offsets around 2^31, 2^32 and 2^40 '
                               'through seek / write / size / read on sparse files (text judge only)' % ('1 MiB' if thorough else '200 KB')))
        out.append(Stream('fs-enum', fs_enum_cases(rng, 1500 if thorough else 250),
                          note='Directory::open / read / close: patterns, dirsOnly, links to directories / files / nothing, the object protocol'))
        out.append(Stream('fs-misc', fs_misc_cases(rng, 1500 if thorough else 250),
                          note='static readAll(path), File::exists, flush, getAbsolutePath / getCurrentDirectory / change'))
        out.append(Stream('fs-purge', fs_purge_cases(rng, 1500 if thorough else 250),
                          note='Directory::purge on chains with siblings, links, files; every empty chain of depth <= 4'))
        out.append(Stream('fs-faults', fs_fault_cases(rng, 1200 if thorough else 200),
                          note='Directory::unlink / purge with one failing rmdir / opendir / readdir / unlink (interposed), every position on %d fixed trees' % len(FAULT_TREES)))
        if os.geteuid() == 0:
            out.append(Stream('fs-absolute', fs_absolute_cases(rng, 1200 if thorough else 250),
                              note='absolute path texts and link targets inside a chroot (root = the model\'s root), the root directory and its children'))
        out.append(Stream('fs-exhaustive', fs_exhaustive_cases(thorough), exhaustive=True,
                          note='create / unlink on every short path, rename / copy on every pair of short paths, over %d fixed trees' % len(FIXED_TREES)))
        return out


CHECK = C19
