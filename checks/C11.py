import os, re, sys
from vf import Check, Stream, sh, VERIF, BUILD, log, run_exe_on_cases

WRAPS = ['pthread_mutex_lock', 'pthread_mutex_trylock', 'pthread_mutex_unlock', 'pthread_cond_wait',
         'pthread_cond_timedwait', 'pthread_cond_signal', 'pthread_cond_broadcast', 'sem_wait', 'sem_trywait',
         'sem_timedwait', 'sem_post', 'pthread_create', 'pthread_join',
         'pthread_mutex_init', 'pthread_mutex_destroy', 'pthread_cond_init', 'pthread_cond_destroy', 'sem_init', 'sem_destroy',
         # timed / clock variants the library does not use today: wrapped so that a rewrite onto them still runs on the virtual
         # primitives (a call that reached the real glibc object would be judged against an object no virtual thread holds)
         'pthread_mutex_timedlock', 'pthread_mutex_clocklock', 'pthread_cond_clockwait', 'sem_clockwait',
         'pthread_tryjoin_np', 'pthread_timedjoin_np', 'pthread_clockjoin_np']

BASES = [None, 1700000000999000000, 1700000000000000000, 1799999999999999999, 1700000000500000001, 999999999]
MS = [0, 1, 2, 10, 250, 999, 1000, 1001, 1999, 60000]
# integer-width boundaries: initial semaphore counts (uint in the library, sem_init takes unsigned, SEM_VALUE_MAX = 2^31-1) and
# results of thread functions (uint carried through a void*): just below / at / above 2^8 and 2^16, 2^31, 2^32-1, low byte(s) zero
SEM_BIG = [255, 256, 257, 65535, 65536, 65537, 16777216, 2147483647]
RES = [0, 1, 255, 256, 257, 1000, 65535, 65536, 65792, 2147483647, 2147483648, 2654435769, 4000000256, 4294967040, 4294967295]


# ---- scenario templates: (n, sig0, sem0, auto, scripts[, {tid: result of the thread function}]) --------------------
def templates(rng):
    T = []
    ms = lambda: rng.choice(MS)
    # Signal
    T += [(2, 0, 0, 1, [['sigwait'], ['sigset']]),
          (3, 0, 0, 1, [['sigwait'], ['sigwait'], ['sigset']]),
          (4, 0, 0, 1, [['sigwait'], ['sigwait'], ['sigwait'], ['sigset']]),
          (3, 0, 0, 1, [['sigwait', 'sigwait'], ['sigset', 'sigreset', 'sigset'], ['sigwait']]),
          (2, 1, 0, 1, [['sigwait', 'sigreset', 'sigwait'], ['sigset']]),
          (2, 0, 0, 1, [['sigwaitt=%d' % ms()], ['sigset']]),
          (3, 0, 0, 1, [['sigwaitt=%d' % ms(), 'sigwait'], ['sigreset', 'sigset'], ['sigwaitt=%d' % ms()]]),
          (4, 0, 0, 1, [['sigwait'], ['sigwaitt=%d' % ms()], ['sigset'], ['sigreset', 'sigset']]),
          (3, 1, 0, 1, [['sigwaitt=%d' % ms()], ['sigreset'], ['sigwait', 'sigset']])]
    # Monitor
    W = ['monlock', 'monwait', 'monunlock']
    Wt = lambda: ['monlock', 'monwaitt=%d' % ms(), 'monunlock']
    CS = ['monlock', 'csenter', 'csleave', 'monunlock']
    T += [(3, 0, 0, 1, [W, Wt(), ['monset']]),
          (3, 0, 0, 1, [Wt(), W, ['monset']]),
          (4, 0, 0, 1, [W, Wt(), Wt(), ['monset', 'monset']]),
          (4, 0, 0, 1, [W, W, Wt(), ['monset']]),
          (3, 0, 0, 1, [['sigwait'], ['sigwaitt=%d' % ms()], ['sigset']]),
          (2, 0, 0, 1, [W, ['monset']]),
          (3, 0, 0, 1, [W, W, ['monset']]),
          (3, 0, 0, 1, [W, W, ['monset', 'monset']]),
          (4, 0, 0, 1, [W, W, ['monset'], ['monset']]),
          (2, 0, 0, 1, [Wt(), ['monset']]),
          (3, 0, 0, 1, [Wt(), W, ['monset', 'monset']]),
          (3, 0, 0, 1, [W + W, ['monset', 'monset'], Wt()]),
          (3, 0, 0, 1, [CS, CS, ['montry', 'monunlock']]),
          (3, 0, 0, 1, [['monlock', 'monwait', 'csenter', 'csleave', 'monunlock'], ['monset'], CS]),
          (2, 0, 0, 1, [['monlock', 'monset', 'monunlock'], W]),
          (3, 0, 0, 1, [W, ['monset'], ['monlock']]),
          (2, 0, 0, 1, [['monwait'], ['monset']]),
          # an earlier set() nobody consumed leaves the flag up: a later set() must still wake the waiter
          (2, 0, 0, 1, [['monset'] + W, ['monset']]),
          (3, 0, 0, 1, [W, ['monset', 'monset'], ['monset'] + Wt()]),
          (3, 0, 0, 1, [['monset', 'monset'] + W, W, ['monset', 'monset']])]
    # Mutex
    L = ['lock', 'csenter', 'csleave', 'unlock']
    LL = ['lock', 'lock', 'csenter', 'csleave', 'unlock', 'unlock']
    T += [(2, 0, 0, 1, [L, L]), (3, 0, 0, 1, [L, L, L]), (4, 0, 0, 1, [L, L, L, L]),
          (2, 0, 0, 1, [LL, L]), (3, 0, 0, 1, [LL, ['trylock', 'unlock'], L]),
          (2, 0, 0, 1, [['lock', 'trylock', 'unlock', 'unlock'], ['trylock', 'trylock', 'unlock']]),
          (3, 0, 0, 1, [['trylock', 'csenter', 'csleave', 'unlock'], L, ['unlock', 'lock', 'unlock']]),
          (2, 0, 0, 1, [['lock'], ['lock', 'unlock']])]
    # Semaphore
    for s0 in (0, 1, 2):
        T += [(2, 0, s0, 1, [['semwait'], ['semsignal']]),
              (3, 0, s0, 1, [['semwait'], ['semwait'], ['semsignal', 'semsignal']]),
              (3, 0, s0, 1, [['semwaitt=%d' % ms()], ['semtry', 'semsignal'], ['semwait']]),
              (4, 0, s0, 1, [['semwait', 'semsignal'], ['semwaitt=%d' % ms()], ['semtry'], ['semsignal']]),
              (2, 0, s0, 1, [['semtry', 'semtry', 'semwaitt=%d' % ms()], ['semsignal', 'semsignal']])]
    for s0 in rng.sample(SEM_BIG, 4):
        T += [(2, 0, s0, 1, [['semwait', 'semtry', 'semwait'], ['semsignal', 'semwaitt=%d' % ms()]]),
              (3, 0, s0, 1, [['semwait'], ['semwaitt=%d' % ms()], ['semtry', 'semsignal', 'semwait']])]
    # Thread (each Thread object is joined by one thread only: two pthread_join calls on one thread are undefined in POSIX);
    # the results of the thread functions are given by the case
    res = lambda: {t: rng.choice(RES) for t in (1, 2, 3)}
    T += [(2, 0, 0, 0, [['start=1', 'join=1'], ['csenter']], res()),
          (2, 0, 0, 0, [['start=1', 'join=1'], []], res()),
          (3, 0, 0, 0, [['start=1', 'start=2', 'join=2', 'join=1'], ['lock', 'unlock'], ['lock', 'unlock']], res()),
          (3, 0, 0, 0, [['start=1', 'start=1', 'join=1', 'join=1', 'start=2'], ['sigset'], []], res()),
          (3, 0, 1, 0, [['start=1', 'semwait', 'join=1'], ['start=2', 'semsignal', 'join=2'], ['semwait']], res()),
          (2, 0, 0, 0, [['join=1', 'start=1', 'sigwait', 'join=1'], ['sigset']], res()),
          (4, 0, 0, 0, [['start=1', 'start=2', 'start=3', 'join=1', 'join=2', 'join=3'], ['monlock', 'monwait', 'monunlock'], ['monset'], ['monset']], res())]
    # round 6: Thread::start whose pthread_create fails (`startf`): the object stays unstarted, the retry succeeds, join returns the
    # result; a join / a second failing start / a start of an object that already has a thread in between
    T += [(2, 0, 0, 0, [['startf=1', 'start=1', 'join=1'], ['csenter']], res()),
          (2, 0, 0, 0, [['startf=1', 'join=1', 'start=1', 'join=1'], []], res()),
          (3, 0, 0, 0, [['startf=2', 'startf=1', 'start=1', 'startf=1', 'start=2', 'join=2', 'join=1'], ['sigset'], ['sigwait']], res()),
          (3, 0, 0, 0, [['start=1', 'startf=1', 'join=1', 'startf=2', 'join=2'], [], ['csenter']], res()),
          (2, 0, 0, 1, [['startf=1', 'join=1', 'start=1', 'join=1'], ['sigset']], res())]
    # round 6: objects with STATIC STORAGE DURATION (constructed before main and before the library's own static initialisers;
    # 7th field): re-entrancy, tryLock of the owner, exclusion; one handshake per other class
    LLL = ['lock', 'lock', 'trylock', 'csenter', 'csleave', 'unlock', 'unlock', 'unlock']
    T += [(2, 0, 0, 1, [LL, L], {}, 1), (2, 0, 0, 1, [LLL, ['trylock', 'unlock']], {}, 1),
          (3, 0, 0, 1, [LL, ['trylock', 'unlock'], L], {}, 1),
          (2, 0, 0, 1, [['lock', 'trylock', 'unlock', 'unlock'], ['trylock', 'trylock', 'unlock']], {}, 1),
          (2, 0, 0, 1, [['trylock', 'trylock', 'lock', 'unlock', 'unlock', 'unlock'], L], {}, 1),
          (3, 0, 0, 1, [['sigwait', 'sigwait'], ['sigset', 'sigreset', 'sigset'], ['sigwaitt=%d' % ms()]], {}, 1),
          (2, 1, 0, 1, [['sigwait', 'sigreset', 'sigwait'], ['sigset']], {}, 1),
          (3, 0, 0, 1, [W, Wt(), ['monset']], {}, 1), (3, 0, 0, 1, [CS, CS, ['montry', 'monunlock']], {}, 1),
          (3, 0, 2, 1, [['semwait'], ['semwaitt=%d' % ms()], ['semtry', 'semsignal', 'semwait']], {}, 1),
          (2, 0, 0, 1, [['semwait'], ['semsignal']], {}, 1)]
    return T


FAMILIES = {
    'sig': ['sigset', 'sigreset', 'sigwait', 'sigwaitt', 'sigset', 'sigwait'],
    'mon': ['monlock', 'montry', 'monunlock', 'monwait', 'monwaitt', 'monset', 'monset', 'csenter', 'csleave'],
    'mtx': ['lock', 'trylock', 'unlock', 'lock', 'unlock', 'csenter', 'csleave'],
    'sem': ['semsignal', 'semwait', 'semwaitt', 'semtry', 'semsignal'],
}


def random_scenario(rng):
    n = rng.choice([2, 2, 3, 3, 4])
    fam = rng.choice(['sig', 'mon', 'mtx', 'sem', 'mix'])
    scripts = []
    for t in range(n):
        k = rng.randrange(1, 6)
        ops = []
        depth = 0
        for _ in range(k):
            f = fam if fam != 'mix' else rng.choice(['sig', 'mon', 'mtx', 'sem'])
            o = rng.choice(FAMILIES[f])
            if f == 'mon' and o in ('monwait', 'monwaitt') and depth == 0 and rng.random() < 0.9:
                ops.append('monlock')
                depth += 1
            if o == 'monlock':
                depth += 1
            if o == 'monunlock':
                depth = max(0, depth - 1)
            if o.endswith('waitt'):
                o += '=%d' % rng.choice(MS + [-1, -1000, 3600000])
            ops.append(o)
        if fam == 'mon' and depth and rng.random() < 0.8:
            ops += ['monunlock'] * depth
        scripts.append(ops)
    auto = 1
    results = {}
    if rng.random() < 0.25 and n >= 2:
        auto = 0
        # round 6: a third of the starts is preceded by a start whose pthread_create fails (sometimes with a join in between)
        pre = lambda c: (['startf=%d' % c] + (['join=%d' % c] if rng.random() < 0.3 else [])) if rng.random() < 0.33 else []
        scripts[0] = [o for c in range(1, n) for o in pre(c) + ['start=%d' % c]] + scripts[0] + ['join=%d' % c for c in range(1, n) if rng.random() < 0.8]
        results = {c: rng.choice(RES) for c in range(1, n) if rng.random() < 0.8}
    sem0 = rng.choice(SEM_BIG) if rng.random() < 0.15 else rng.choice([0, 0, 1, 2])
    # round 6: a fifth of the scenarios runs on the objects with static storage duration
    return (n, rng.choice([0, 0, 1]), sem0, auto, scripts, results, 1 if rng.random() < 0.2 else 0)


def case_head(tpl, base):
    n, sig0, sem0, auto, scripts = tpl[:5]
    results = tpl[5] if len(tpl) > 5 else {}
    static = tpl[6] if len(tpl) > 6 else 0
    lines = ['@%d %d %d %d' % (n, sig0, sem0, auto) + (' 1' if static else '')]
    for t, sc in enumerate(scripts):
        lines.append(('t %d ' % t + ' '.join(sc)).rstrip())
    for t in sorted(results):
        if t < n:
            lines.append('r %d %d' % (t, results[t]))
    if base is not None:
        lines.append('m clock %d' % base)
    return lines


class C11(Check):
    id = 'C11'
    comp = 'Sync'
    extracted = ['coq/Sync/model.mli', 'coq/Sync/model.ml', 'ocaml/zconv.ml', 'ocaml/sync_driver.ml']
    harness_sources = ['harness/sync.cpp', 'harness/sync_sched.cpp']
    harness_flags = ['-I' + os.path.join(VERIF, 'harness')]
    harness_link_flags = ['-Wl,' + ','.join('--wrap=' + w for w in WRAPS)]
    has_spec = False
    per_case_timeout = 10
    technique = ('machine-checked proof (Coq 8.16) about an executable model of the pthread primitives and of libnstd\'s wrappers '
                 '+ deterministic-scheduler correspondence (real library code on virtual primitives, same move list as the model)')
    level_text = ('Theorems in Coq (35, closed under the global context; 25 about the coarse machine, 10 about its granularity) about every state reachable by ANY list of scheduler moves '
                  '(run a thread\'s pending primitive call, spurious wake-up, timeout, timeout-steal = a woken timed waiter past its '
                  'deadline reports ETIMEDOUT although the signal was directed at it (POSIX-permitted), clock advance, rotation of a '
                  'condition queue) from any scripts of library calls, any number of threads, any results of the thread functions, any initial signal state and semaphore '
                  'value. Theorems about libnstd\'s own logic on the modelled primitives: Signal wait true only if set since the last '
                  'reset, a blocked waiter with the flag up implies a setter standing at its enabled broadcast (Signal::set = lock; '
                  'flag; broadcast; unlock - fixes/C10/04), the broadcast leaves nobody blocked, the setter owns the internal mutex '
                  'from the flag write to its unlock and that unlock is the last primitive call of set(); Monitor successful waits + flag <= sets, a set() that found a blocked waiter leaves an enabled '
                  'signaller or a woken waiter that - whatever the return code of its condition wait, 0 or ETIMEDOUT - consumes the flag '
                  'and returns true (the same clause is proved FALSE, monitor_set_releases_a_waiter_refuted_before_repair, of the '
                  'wait(timeout) that returned false before looking at the flag: fixes/C11/01); timed waits return false only at/after start+timeout (deadline arithmetic exact and normalised). '
                  'Theorems that are PROPERTIES OF THE MODELLED PRIMITIVE as the wrapper uses it (Mutex, Semaphore and Thread add no '
                  'logic beyond the recursive attribute, the EINTR retry loop and the stored handle): Mutex history exclusive and '
                  're-entrant, tryLock never blocked (trylock_never_blocks restates the rule of Sched.v) and successful iff free or own; '
                  'Semaphore count conserved and no waiter disabled while the count is positive; join returns the value the thread '
                  'function returned. The model is tied to the code by running the real Signal.cpp/Monitor.cpp/Mutex.cpp/Semaphore.cpp/'
                  'Thread.cpp (ASan/UBSan build of the working tree) on virtual pthread primitives under a deterministic baton-passing '
                  'scheduler (-Wl,--wrap=...; clock_gettime interposed) with the same move lists as the extracted model, comparing per '
                  'move: returned values, pending primitive call with the absolute deadline the code computed, blocked/enabled status of '
                  'every thread, the signaled flags read from the objects\' memory, mutex owners/counts, condition queues, semaphore '
                  'value, occupancy counter. GRANULARITY (round 4, rows [G] of Properties_C11.v): the model runs one primitive call plus the '
                  'thread-local code after it per move; coq/Sync/SyncFine.v defines the FINE machine in which every plain read / write of '
                  'Signal::signaled and Monitor::signaled is a move of its own (Monitor::wait\'s test-and-clear is two), with moves of other '
                  'threads and of the clock in between. Proved for all scripts and all fine schedules: a thread in front of a Signal access '
                  'owns the Signal\'s mutex (fine_signal_accesses_under_mutex), a thread in front of a Monitor access owns the monitor '
                  'provided no thread has called Monitor::unlock while another thread owned the monitor (fine_monitor_accesses_under_mutex; '
                  'ghost flag foreign_unlock), hence at most one thread per flag at an access (fine_access_exclusive) and no move of another '
                  'thread changes the flag meanwhile (fine_flag_stable); every fine run is matched by a coarse run whose state agrees with the '
                  'fine state after its pending accesses on all fields but the write-only ghost mark and whose history is equal up to swapping '
                  'adjacent independent events (fine_granularity_adds_no_behaviours, fine_quiescent_is_coarse, fine_completes: at most 3 moves '
                  'complete a fine state); the six history predicates are invariant under those swaps and suffix-closed, so they hold '
                  'literally of every fine-reachable history with foreign_unlock = false (fine_all_ok). The hypothesis is necessary for the '
                  'Monitor half: fine_monitor_race_under_foreign_unlock (one set(), two waits return true after a foreign unlock). '
                  'ROUND 5: (a) the STATE clauses (no waiter stays blocked while the signal is set / while the count is positive, set releases all '
                  'current waiters, a set() after a waiter took the monitor releases a waiter, the woken waiter returns true, re-entrancy, tryLock '
                  'enabled) are proved of the fine machine too: fine_no_stuck - for every fine-reachable state with foreign_unlock = false the '
                  'COMPLETION c of the state (pending accesses performed; at most 3 moves of the pending threads themselves) satisfies all of '
                  'them; they cannot be read on the fine state itself, where the thread standing in front of its access is not even enabled '
                  '(its pc is still at the lock it has passed: ex_fine_no_stuck_premise). For the Monitor clause the ghost mark is carried '
                  'across the simulation (SyncFineMark.v: every mark of c is a mark of the matching coarse state). (b) Thread::start is two '
                  'moves in the model and in the virtual pthread_create: the create, and the return to the creator (ThStartRet) - the child may '
                  'run before the creator\'s code that follows pthread_create; the 32 theorems hold of that model. (c) the oracle on the '
                  'implementation says what the text says and no more: a timed wait\'s abstime must be a valid timespec NOT EARLIER than start + '
                  'timeout (that it is exactly start + timeout - deadline_exact, deadline_is_spec - is compared with the model only); successful '
                  'Monitor waits are counted against set() CALLS that passed their critical section, not against flag transitions; "no Semaphore '
                  'waiter stays blocked while the count is positive" is judged with the count initial value + signals - successful waits computed '
                  'from the history, not with the value the implementation reports; thread results and initial semaphore counts beyond 2^8, 2^16 '
                  'and 2^31 are generated. '
                  'ROUND 6: (a) a Thread::start whose pthread_create FAILS (EAGAIN) is an input of the scenario: script op ThStartF c (`startf=<c>`), so every '
                  'theorem - stated for any scripts - covers runs with failing starts. New theorems: failed_start_changes_nothing (for ANY world, the move that '
                  'executes such a start changes no primitive, flag, handle, mark or other thread - only the caller\'s script position and the history entry '
                  'start = false), start_after_failed_start_succeeds (the retry on the same object: four moves later the handle is stored, the child runs, the '
                  'history shows start = false then start = true), handle_only_for_created_thread (in every reachable state a Thread object with a non-null '
                  'handle has a child for which pthread_create succeeded - join never waits for a thread function that never ran). In the tie the virtual '
                  'pthread_create, on every failure, writes into its output parameter the handle of a thread that has already exited (what glibc leaves '
                  'there; POSIX: undefined contents) and returns EAGAIN; a later pthread_join of a virtual thread on that handle is not executed but '
                  'reported (`! stale-join`, a failing input: join returned a value although no thread function of the object had finished). '
                  '(b) STATIC STORAGE DURATION: a fifth of the random scenarios, 11 templates and one enum scope (case head `@n sig0 sem0 auto 1`) run on '
                  'a Signal, Monitor, Mutex and Semaphore defined at namespace scope in the harness translation unit, which is the first object on the '
                  'link line, i.e. constructed before main() and before the static initialisers of the library\'s own translation units; the '
                  'virtual mutex takes its type (recursive or not) from the real pthread_mutex_t as always, so a Mutex that depends on an initialiser '
                  'of Mutex.cpp having run first is judged as the non-recursive mutex it is (owner blocked in lock(), owner\'s tryLock false).')
    level_note = ('PARTIAL in this sense: the OS primitives are MODELLED. coq/Sync/Sched.v (pthread mutex plain/recursive - EPERM for a '
                  'non-owner unlock only on the recursive type, a default-type mutex is freed whoever held it, as glibc does -, condition '
                  'variable with spurious wake-ups, timeouts and timeout-steals as scheduler moves, POSIX semaphore with EINTR, '
                  'create/join, scripted clock) and its hand transcription harness/sync_sched.cpp are trusted. Clock domain and '
                  'initialisation are checked on the implementation side only (Sched.v has one clock): the interposed clock_gettime '
                  'serves two scripted clocks (CLOCK_REALTIME = now, any other id = now/3), a virtual condition variable measures '
                  'deadlines against the clock its attribute selected at the wrapped pthread_cond_init (sem_timedwait: CLOCK_REALTIME), '
                  'so a deadline computed from the wrong clock times out at the wrong moment and fails timed_ok / the deadline probe; '
                  'pthread_mutex_init / pthread_cond_init / sem_init are wrapped and a library object whose primitive was never '
                  'initialised is reported as a failing input; the real glibc primitives '
                  'and the real kernel scheduler are never exercised by this check (no real-thread soak was built). The rows marked [P] '
                  'in Properties_C11.v (Mutex, Semaphore, tryLock, Thread) are properties of that modelled primitive reached through the '
                  'wrapper, not of wrapper logic. Granularity: one move = one primitive call plus the thread-local code up to the next '
                  'call. That finer interleavings of the accesses to the two signaled flags add no behaviours is now PROVED in Coq '
                  '(SyncFine*.v, theorems fine_* in Properties_C11.v) as a simulation of the fine machine by the coarse one: state agreement '
                  'modulo the ghost mark, histories equal up to commuting independent events (plain equality of histories is false: '
                  'ex_fine_log_differs), all six history predicates transferred (fine_all_ok). For Signal the mutual exclusion holds for ALL '
                  'scripts (SM is private to Signal). For Monitor it holds under the explicit hypothesis foreign_unlock = false = no thread '
                  'performed Monitor::unlock on a monitor owned by another thread: MM is a default-type pthread mutex that the client locks and '
                  'unlocks, glibc frees it whoever calls unlock, and after such a foreign unlock two waiters can test-and-clear the flag at once '
                  '(fine_monitor_race_under_foreign_unlock: two waits return true for one set). That is a violation of the client contract '
                  '(POSIX: undefined), not a libnstd defect; consequently the coarse Monitor theorems (monitor_waits_le_sets, '
                  'monitor_set_releases_a_waiter, monitor_woken_waiter_returns_true), stated for any scripts, are at fine granularity theorems '
                  'about clients that respect that contract only (Monitor::wait without owning the monitor stops the thread, TFault, in '
                  'Sched.v). What stays outside the proof: the fine machine still interleaves at the level of whole plain accesses under '
                  'sequential consistency (no weaker memory model, no torn accesses - the pthread lock/unlock pairs around every access are '
                  'what makes that adequate); the thread-local code without shared accesses (deadline arithmetic, return-value handling) stays '
                  'fused with the neighbouring move, which is sound for Signal / Monitor / Mutex / Semaphore because it touches nothing another thread can read (Thread is different, see below); the ghost mark is '
                  'not related across the two machines (it is write-only), so the state theorems that do not mention it transfer to '
                  'quiescent fine states through the state agreement (fine_quiescent_is_coarse); round 5 relates the mark in one direction '
                  '(marks of the completed fine state are marks of the coarse state; the converse is false - the coarse machine marks at the return '
                  'of set()\'s lock, the fine one at the later write, and a waiter may have been woken in between) and states all state clauses '
                  'incl. monitor_set_releases_a_waiter of the completed fine state (fine_no_stuck); the fine machine is not tied to the implementation by a '
                  'correspondence run of its own (the harness schedules at primitive-call granularity, like the coarse model). '
                  'Thread::func and Thread::thread are plain variables shared between the creator and the child / a joiner and are NOT part of the fine '
                  'machine (Thread.hpp:16-18): func is written before pthread_create and read by the child\'s routine, so the accesses are '
                  'ordered by the create itself; that the library keeps that order is checked by the tie only (since round 5 the virtual '
                  'pthread_create has a second scheduling point after the create succeeded, the enum scopes run the child first, and a start() that '
                  'stores func after the create crashes there: mutants/C11/A2-03), not by a theorem. Two threads joining the same Thread object '
                  '(two pthread_join on one thread: undefined in POSIX) succeed both in the model (PJoin only reads TDone); no generated scenario does '
                  'that any more. Primitives outside Sched.v: pthread_mutex_timedlock / clocklock, pthread_cond_clockwait, sem_clockwait, '
                  'pthread_tryjoin_np / timedjoin_np / clockjoin_np are wrapped by the virtual scheduler as the timed variants of the modelled calls '
                  '(so code rewritten onto them is judged on the virtual objects; their pending-call tokens differ from the model\'s, i.e. a '
                  'correspondence difference, never a verdict); any OTHER pthread/sem entry point used on a library object would still reach the '
                  'real glibc object. The text is silent where the code decides: the untimed Semaphore::wait() returns false on EINTR (no retry; '
                  'the text constrains successful waits and timed false returns only); Monitor::wait() never looks at the flag before its first '
                  'condition wait, so a set() issued before the waiter arrived is consumed only after the next signal or spurious wake-up '
                  '(the text speaks of a set() issued AFTER a waiter has taken the monitor). A thread id runs at most once per scenario: restarting a Thread object after join() is allowed by the class '
                  'but impossible in the model and in the virtual pthread_create (EAGAIN). One object of each class per scenario; the '
                  'ENOSYS polling fallback of Semaphore::wait(timeout) (Semaphore.cpp:74-87, sem_trywait + usleep loop) is neither '
                  'modelled nor ever executed by this check (the virtual sem_timedwait never reports ENOSYS); Thread::yield, '
                  'Thread::sleep and Thread::getCurrentThreadId are not named by the property, not modelled and never called; the '
                  'Windows paths are not modelled. Both public forms of Thread::start are executed by the harness (start(proc, param) '
                  'for even child ids, the member-function template start(obj, &X::method) with its routine proc<Func0> for odd ones); '
                  'the model has one start, the two forms reach the same pthread_create. "No waiter stays blocked" '
                  'is proved as absence of stuck states (a named thread has an enabled step that ends the configuration), not as '
                  'termination under a fairness assumption; for Monitor the woken waiter additionally needs the monitor lock, which a '
                  'caller may hold forever. Signal::wait(timeout) returns false when a timeout-steal hits it even though the signal is '
                  'set; that contradicts no clause (manual reset + broadcast: nobody else loses the wake-up). Judge: S events are flag '
                  'transitions observed in memory; a Monitor set() is counted when the thread executing it has passed its critical section '
                  '(P event: it got the monitor\'s mutex and stands at the unlock), flag changed or not - exactly the sets of the theorem '
                  'monitor_waits_le_sets (until round 5 only false->true transitions were counted, which rejected a Monitor that remembers every '
                  'set()); the state oracle asks for a released waiter per blocked-and-marked waiter by "a set() passed while it was blocked and '
                  'no wait has returned true since", not by the value of the flag; validated by correspondence only: handle bookkeeping '
                  'of Thread::start/join on repeated start/join (modelled, compared; since round 6 one theorem: handle_only_for_created_thread), the exact value of the deadline. '
                  'Round 6: the failing pthread_create is scripted per start() call (an input of the scenario), not a move of the scheduler: '
                  'failed_start_changes_nothing shows that it touches nothing another thread can observe, so the moment at which it fails is immaterial; '
                  'the model\'s failing start issues no primitive call (no scheduling point) and the virtual pthread_create fails it without one. Only EAGAIN '
                  'is injected; a pthread_create that fails AFTER having started the child does not exist in POSIX and is not modelled. The value the virtual '
                  'pthread_create leaves in *thread on failure is the handle of one exited thread of the process that is joined only at exit (so that the '
                  'scheduler can recognise it): for the library it is as dangling as glibc\'s. Static initialisation order is outside the Coq model (init '
                  'gives XM the recursive attribute): that objects constructed before the library\'s own static initialisers behave like any other is checked '
                  'by the tie only, and only for the order "application TU first" that the link line of this check produces (harness objects before the '
                  'library archive); the Thread objects of a scenario are always heap objects; the static Semaphore is brought to its initial count by that '
                  'many signal() calls before the scenario (counts above 4096 use a heap Semaphore).')
    rule = ('case = scenario (2-4 threads, one script of library calls per thread, mostly one primitive family) + schedule (list of '
            'moves run/spur/tmo/steal/clock/rot, then a deterministic drain). Streams: enum = every schedule (depth-first, bounded number '
            'of spurious wake-ups/timeouts/timeout-steals, optionally after a fixed prefix that blocks the waiters) of small 2-3 thread '
            'scenarios per primitive; templates = handshake templates x guided '
            'random walks (moves chosen among enabled threads, spurious wake-ups of blocked waiters, clock to deadline-1 / deadline + '
            'timeout or timeout-steal of a woken timed waiter, queue rotations, no-op moves); random = random scripts x random walks; deadline = abstime probes on carry '
            'boundaries. Integer-width boundaries: initial semaphore counts 255..2^31-1 (templates, enum, 15 % of the random scenarios), thread results '
            '0..2^32-1 incl. low byte(s) zero and values >= 2^31 (case line `r <t> <v>`). Round 6: `startf=<c>` (start with a failing pthread_create) in 5 templates, one enum scope and in front of a third of the random starts; a 5th field `1` of the case head selects the objects with static storage duration. Thread scopes enumerate every order of creator and child around pthread_create. Clock bases put the nanosecond field next to a carry. A scenario case is non-trivial when at least two '
            'threads returned from a library call and some thread was blocked (mutex, condition, semaphore or join) at some move; '
            'a deadline case when the nanosecond field carries or the timeout has a sub-second part; distinct = distinct op text.')
    assumptions = ['initial semaphore value >= 0 (uint in the code); the tie drives values up to SEM_VALUE_MAX = 2^31-1, thread results in [0, 2^32)',
                   'OS primitives behave as coq/Sync/Sched.v says (POSIX semantics incl. spurious wake-ups, ETIMEDOUT only at/after the absolute deadline but possibly after a signal was consumed, EINVAL for tv_nsec outside [0,1e9), glibc order in sem_timedwait, glibc owner check on unlock only for recursive mutexes); harness/sync_sched.cpp transcribes it',
                   'sequential consistency at the granularity of whole plain accesses to the two signaled flags (that primitive-call granularity loses nothing is proved: fine_granularity_adds_no_behaviours); for the Monitor half of that proof: no thread calls Monitor::unlock while another thread owns the monitor (foreign_unlock = false; necessary: fine_monitor_race_under_foreign_unlock)',
                   'the clock read by a timed wait is the clock its primitive measures the deadline against (checked on the implementation by the two scripted clocks of the virtual scheduler, not part of the Coq model)',
                   'time_t/long arithmetic of the deadline does not overflow: 0 <= ns + (t rem 1000)*10^6 < 2*10^9 is proved; tv_sec + t/1000 is assumed to fit 64 bits']

    # ---- generators ----------------------------------------------------------------------------------
    def expand(self, heads, tag):
        """heads: list of cases (lists of lines) ending in a `walk …` / `enum …` line -> explicit cases via `driver gen`."""
        d = os.path.join(BUILD, self.id, 'run')
        os.makedirs(d, exist_ok=True)
        f = os.path.join(d, 'gen_%s.ops' % tag)
        with open(f, 'w') as fh:
            for i, c in enumerate(heads):
                fh.write('case %d %s\n' % (i, c[0][1:]))
                for l in c[1:]:
                    fh.write(l + '\n')
                fh.write('end\n')
        rc, out, err = sh([self.exes['model'], 'gen', f], timeout=600)
        if rc != 0:
            raise RuntimeError('driver gen failed: ' + err[-2000:])
        cases, cur = [], None
        for line in out.split('\n'):
            if line.startswith('case '):
                cur = ['@' + line.split(' ', 2)[2]]
            elif line == 'end':
                cases.append(cur)
                cur = None
            elif cur is not None and line:
                cur.append(line)
        return cases

    def streams(self, tier, rng):
        thorough = tier == 'thorough'
        out = []
        # (1) exhaustive small scopes: every schedule of Run moves (+ a bounded number of spurious wake-ups / timeouts)
        L = ['lock', 'csenter', 'csleave', 'unlock']
        W = ['monlock', 'monwait', 'monunlock']
        Wt10 = ['monlock', 'monwaitt=10', 'monunlock']
        both_blocked = ['m run 0'] * 4 + ['m run 1'] * 4
        scopes = [
            # directed at the MonSetSignal / TimeoutSteal case of MonLive_step: both waiters are blocked (prefix), then every
            # schedule of the rest incl. one timeout or timeout-steal; with and without the timed waiter at the queue head
            ((3, 0, 0, 1, [W, Wt10, ['monset']]), BASES[1], both_blocked + ['m rot 1'], (40, 0, 1)),
            ((3, 0, 0, 1, [W, Wt10, ['monset']]), BASES[1], both_blocked, (40, 0, 1)),
            ((3, 0, 0, 1, [['sigwait'], ['sigwaitt=10'], ['sigset']]), BASES[1], ['m run 0'] * 3 + ['m run 1'] * 3, (40, 0, 1)),
            ((2, 0, 0, 1, [['sigwait'], ['sigset']]), None, (40, 1, 0)),
            ((2, 0, 0, 1, [['sigwaitt=10'], ['sigset']]), BASES[1], (40, 0, 1)),
            ((2, 0, 0, 1, [W, ['monset']]), None, (40, 1, 0)),
            ((2, 0, 0, 1, [['monlock', 'monwaitt=1001', 'monunlock'], ['monset']]), BASES[1], (40, 0, 1)),
            ((2, 0, 0, 1, [['lock', 'unlock'], ['trylock', 'lock', 'unlock']]), None, (40, 0, 0)),
            ((2, 0, 1, 1, [['semwait', 'semwait'], ['semsignal']]), None, (40, 1, 0)),
            ((2, 0, 0, 1, [['semwaitt=999'], ['semsignal']]), BASES[1], (40, 1, 1)),
            # every order of creator and child around pthread_create (child first: the creator stands between the return of
            # pthread_create and its own code after it), both forms of Thread::start, results at the integer-width boundaries
            ((2, 0, 0, 0, [['start=1', 'join=1'], ['sigset']], {1: 4000000256}), None, (40, 0, 0)),
            ((3, 0, 0, 0, [['start=2', 'start=1', 'join=1', 'join=2'], [], []], {1: 65536, 2: 2147483648}), None, (40, 0, 0)),
            ((2, 0, 256, 1, [['semwait', 'semwait'], ['semsignal']]), None, (40, 1, 0)),
            ((2, 0, 65536, 1, [['semwaitt=999', 'semtry'], ['semtry']]), BASES[1], (40, 0, 1)),
            # round 6: the Mutex with static storage duration (re-entrant lock and tryLock of the owner against a second thread);
            # a failing pthread_create, the retry on the same Thread object, join
            ((2, 0, 0, 1, [['lock', 'lock', 'trylock', 'unlock', 'unlock', 'unlock'], ['trylock', 'lock', 'unlock']], {}, 1), None, (40, 0, 0)),
            ((2, 0, 0, 0, [['startf=1', 'start=1', 'join=1'], ['sigset']], {1: 65537}), None, (40, 0, 0)),
        ]
        if thorough:
            scopes += [
                ((3, 0, 0, 1, [['sigwait'], ['sigwait'], ['sigset']]), None, (60, 0, 0)),
                ((3, 0, 0, 1, [['sigwait'], ['sigset'], ['sigreset']]), None, (60, 1, 0)),
                ((3, 0, 0, 1, [W, W, ['monset']]), None, (60, 0, 0)),
                ((3, 0, 0, 1, [W, ['monset'], ['monset']]), None, (60, 1, 0)),
                ((2, 0, 0, 1, [L, L]), None, (60, 0, 0)),
                ((3, 0, 1, 1, [['semwait'], ['semwaitt=10'], ['semsignal']]), BASES[1], (60, 1, 1)),
                ((3, 0, 0, 1, [W, Wt10, ['monset']]), BASES[1], both_blocked + ['m rot 1'], (60, 1, 2)),
                ((4, 0, 0, 1, [W, Wt10, Wt10, ['monset', 'monset']]), BASES[1], both_blocked + ['m run 2'] * 4, (60, 0, 2)),
                ((3, 0, 0, 1, [['monset'] + W, Wt10, ['monset']]), BASES[1], [], (60, 0, 1)),
            ]
        maxleaves = 6000 if thorough else 1500
        scopes = [sc if len(sc) == 4 else (sc[0], sc[1], [], sc[2]) for sc in scopes]
        heads = [case_head(tpl, base) + pre + ['enum %d %d %d %d' % (d, sp, tm, maxleaves)] for (tpl, base, pre, (d, sp, tm)) in scopes]
        cases = self.expand(heads, 'enum')
        out.append(Stream('enum', cases, note='all schedules of %d small scenarios (depth-first, at most %d per scenario)' % (len(scopes), maxleaves)))
        # (2) guided random walks over the templates
        heads = []
        reps = 40 if thorough else 6
        for tpl in templates(rng):
            for r in range(reps):
                base = rng.choice(BASES)
                ps, pt = rng.choice([(0, 0), (8, 8), (20, 5), (5, 25), (30, 30)])
                heads.append(case_head(tpl, base) + ['walk %d %d %d %d' % (rng.randrange(1 << 30), rng.randrange(10, 90), ps, pt)])
        out.append(Stream('templates', self.expand(heads, 'tpl'), note='handshake templates per primitive x random schedules'))
        # (3) random scripts
        heads = []
        for _ in range(6000 if thorough else 700):
            tpl = random_scenario(rng)
            ps, pt = rng.choice([(0, 0), (8, 8), (20, 5), (5, 25)])
            heads.append(case_head(tpl, rng.choice(BASES)) + ['walk %d %d %d %d' % (rng.randrange(1 << 30), rng.randrange(10, 120), ps, pt)])
        out.append(Stream('random', self.expand(heads, 'rnd'), note='random scripts (one primitive family, or mixed) x random schedules'))
        # (4) deadline arithmetic of the three timed waits
        cases = []
        secs = [0, 1, 1700000000, 2147483647, 4102444800]
        nss = [0, 1, 999999, 1000000, 499999999, 500000000, 998999999, 999000000, 999000001, 999999998, 999999999]
        tms = [0, 1, 2, 999, 1000, 1001, 1999, 2000, 59999, 86400000, 4294967295, 4294967296, 9007199254740993,
               -1, -999, -1000, -1001, -86400000]
        for s in secs:
            for ns in nss:
                ops = ['dl %d %d %d' % (s, ns, t) for t in (tms if thorough else rng.sample(tms, 6))]
                cases.append(['@1 0 0 0'] + ops)
        for _ in range(2000 if thorough else 200):
            cases.append(['@1 0 0 0'] + ['dl %d %d %d' % (rng.randrange(0, 1 << 32), rng.randrange(0, 10 ** 9),
                                                         rng.choice([rng.randrange(0, 5000), rng.randrange(0, 1 << 40), -rng.randrange(0, 5000)]))
                                         for _ in range(4)])
        out.append(Stream('deadline', cases, note='abstime captured at the interposed *timedwait vs deadline / spec_deadline'))
        return out

    # ---- oracle ---------------------------------------------------------------------------------------
    def nontrivial(self, case, impl_obs):
        if any(l.startswith('dl ') for l in case):
            # a deadline probe is non-trivial when the nanosecond field carries or the timeout has a sub-second part
            for l in case:
                p = l.split()
                if p[0] == 'dl' and (int(p[2]) + (abs(int(p[3])) % 1000) * 1000000 >= 10 ** 9 or int(p[3]) % 1000):
                    return True
            return False
        returned = set()
        contention = False
        for l in impl_obs:
            sec = l.split(' | ')
            if len(sec) < 3:
                continue
            for e in sec[1].split():
                if e[0] == 'r':
                    returned.add(e[1:e.index(':')])
            for tok in sec[2].split():
                if tok.endswith(':b') and tok[0] in 'RCW':
                    contention = True
        return len(returned) >= 2 and contention

    def judge(self, cases, impl_obs, spec_obs):
        fails = []
        d = os.path.join(BUILD, self.id, 'run')
        os.makedirs(d, exist_ok=True)
        jf = os.path.join(d, 'judge_%d.ops' % os.getpid())
        with open(jf, 'w') as fh:
            for i, (c, obs) in enumerate(zip(cases, impl_obs)):
                cfg = c[0][1:].split() if c and c[0].startswith('@') else ['2', '0', '0', '0']
                cfg += ['0'] * (4 - len(cfg))
                fh.write('case %d %s %s\n' % (i, cfg[1], cfg[2]))
                dls = [l.split()[1:] for l in c if l.startswith('dl ')]
                got = [l.split() for l in obs if l.startswith('dl ')]
                for k, g in enumerate(got):
                    if k // 3 < len(dls) and len(g) >= 4:
                        fh.write('dl %s %s %s\n' % (' '.join(dls[k // 3]), g[2], g[3]))
                for l in obs:
                    sec = l.split(' | ')
                    if len(sec) >= 2 and sec[1].strip() not in ('-', '') and not l.startswith(('final', 'dl ')):
                        toks = self.set_events(sec[1].split())
                        if toks:
                            fh.write('e ' + ' '.join(toks) + '\n')
                fh.write('end\n')
        rc, out, err = sh([self.exes['model'], 'judge', jf], timeout=600)
        if rc != 0:
            raise RuntimeError('driver judge failed: ' + err[-2000:])
        verdict = {}
        for line in out.split('\n'):
            p = line.split(' ', 1)
            if len(p) == 2 and p[0].isdigit():
                verdict[int(p[0])] = p[1]
        for i, (c, obs) in enumerate(zip(cases, impl_obs)):
            v = verdict.get(i, 'ok')
            if any(l.startswith('! stale-join') for l in obs):
                fails.append((i, 0, self.state_oracle(c, obs)))
                continue
            if v != 'ok':
                fails.append((i, 0, 'history of library calls violates the contract: ' + v))
                continue
            r = self.state_oracle(c, obs)
            if r:
                fails.append((i, 0, r))
        return fails

    @staticmethod
    def set_events(evs):
        """"Successful Monitor waits never outnumber set() calls": a set() counts once it has passed its critical section
        (P<t>: the thread executing Monitor::set got the monitor's mutex and stands at the unlock), whether or not the flag
        changed value - the text counts calls, not flag transitions.  The M<t> tokens (flag false -> true, what the model
        prints) are kept only in a move without a P (a set() the harness did not recognise by its lock/unlock pattern)."""
        ps = [e for e in evs if re.match(r'P\d+$', e)]
        out = []
        for e in evs:
            if re.match(r'P\d+$', e):
                out.append('M' + e[1:])
            elif re.match(r'M\d+$', e):
                if not ps:
                    out.append(e)
            else:
                out.append(e)
        return out

    CRASH_LIMIT = 150
    HANG_BUDGET = 20

    def run_impl(self, cases, tag='impl'):
        """a tree on which most cases crash or hang: every crash restarts the harness (vf gives up only after 400 per call) and
        every hang costs the watchdog time - stop a stream after CRASH_LIMIT crashes (HANG_BUDGET time-outs per run) and report
        what has been seen; the cases not run are marked `! notrun` (dropped by vf).  vf cannot be interrupted inside a call, so
        the chunk size is the granularity of the cap: chunks start at 40 cases and double up to 320 while nothing crashes;
        once half the hang budget is used the watchdog is 2 s instead of 10 s (a case normally takes milliseconds)."""
        res, crashes = [], {}
        step = 40
        hangs = getattr(self, '_hangs', 0)
        i = 0
        if tag.startswith('shr'):
            # shrinking a failing input: a few more hangs are allowed; after that a candidate is not run and counts as NOT failing,
            # so that the shrinker keeps the input (and the reason) it has instead of "reducing" on cases it never ran
            if hangs >= self.HANG_BUDGET + 15:
                return [[] for _ in cases], {}
            r, c = run_exe_on_cases(self.exes['impl'], cases, os.path.join(BUILD, self.id, 'run'), tag, is_impl=True,
                                    per_case_timeout=self.per_case_timeout if hangs < self.HANG_BUDGET // 2 else 2)
            self._hangs = hangs + sum(1 for v in c.values() if v[0] == 'timeout')
            return r, c
        while i < len(cases):
            if len(crashes) >= self.CRASH_LIMIT or hangs >= self.HANG_BUDGET:
                res += [['! notrun'] for _ in cases[i:]]
                log('[C11] stream %s: %d harness crashes (%d time-outs so far in this run), %d cases not run' % (tag, len(crashes), hangs, len(cases) - i))
                break
            r, c = run_exe_on_cases(self.exes['impl'], cases[i:i + step], os.path.join(BUILD, self.id, 'run'), tag, is_impl=True,
                                    per_case_timeout=self.per_case_timeout if hangs < self.HANG_BUDGET // 2 else 2)
            res += r
            for k, v in c.items():
                crashes[i + k] = v
                if v[0] == 'timeout':
                    hangs += 1
            i += step
            step = min(320, step * 2) if not c else 40
        self._hangs = hangs
        return res, crashes

    @staticmethod
    def disciplined(case):
        """every csenter/csleave of every script sits inside lock…unlock of the Mutex or monlock…monunlock
        (no wait in between) -> the occupancy counter must never exceed 1"""
        for l in case:
            if not l.startswith('t '):
                continue
            dm = dx = cs = 0
            for o in l.split()[2:]:
                if o == 'lock':
                    dx += 1
                elif o == 'unlock':
                    dx -= 1
                elif o == 'monlock':
                    dm += 1
                elif o == 'monunlock':
                    dm -= 1
                elif o in ('trylock', 'montry') or o.startswith('monwait'):
                    return False
                elif o == 'csenter':
                    if cs != 0 or (dx <= 0 and dm <= 0):
                        return False
                    cs = 1
                elif o == 'csleave':
                    if cs != 1:
                        return False
                    cs = 0
                if dx < 0 or dm < 0 or (cs == 1 and dx <= 0 and dm <= 0):
                    return False
            if cs != 0:
                return False
        mixes = any(o in ('lock',) for l in case if l.startswith('t ') for o in l.split()[2:]) and \
            any(o in ('monlock',) for l in case if l.startswith('t ') for o in l.split()[2:])
        return not mixes

    def state_oracle(self, case, obs):
        """What the property says about states (not histories), read off the implementation's own observation lines:
        a crash; occupancy of a critical section; at a quiescent end (nothing enabled, no timed waiter) no Signal
        waiter is blocked while the signal is set, no Semaphore waiter while the count is positive, and no Monitor
        waiter that was already blocked when some set() passed its critical section (flag changed or not) is still blocked
        with no wait having returned true since that set(), unless a woken waiter is itself waiting for the monitor lock.
        The semaphore count is initial value + signals - successful waits as the history shows them (the text's count), not
        only the value the implementation's semaphore reports."""
        disc = self.disciplined(case)
        mark = {}
        prev_blocked = set()
        last = None
        cfg = case[0][1:].split() if case and case[0].startswith('@') else []
        count = int(cfg[2]) if len(cfg) > 2 and re.match(r'\d+$', cfg[2]) else 0     # initial value + signals - successful waits
        for l in obs:
            if l.startswith('! stale-join'):
                return ('Thread::join ran pthread_join on a handle no successful pthread_create returned - a failed start() left it in the '
                        'object - and returned a value although no thread function of that object had finished: ' + l)
            if l.startswith('! uninit'):
                return 'a primitive of a library object is used without having been initialised: ' + l
            if l.startswith('!'):
                return 'implementation crashed under the schedule: ' + l
            sec = l.split(' | ')
            if l.startswith('final'):
                if last is None or 'stuck' not in l:
                    continue
                toks, st = last
                if any(t.endswith(':e') for t in toks):
                    continue            # fuel ran out: not quiescent
                if st.get('sf') == '1' and any(t.startswith('C0:') for t in toks):
                    return 'a Signal waiter is still blocked while the signal is set and nothing else can run'
                if (int(st.get('sem', '0')) > 0 or count > 0) and any(re.match(r'R:sw0', t) for t in toks):
                    return 'a Semaphore waiter is blocked while the count (initial value + signals - successful waits = %d) is positive' % count
                for k, t in enumerate(toks):
                    if t.startswith('R:lock2:') and st.get('o2', '-').startswith('%dx' % k):
                        return 'the owner of the Mutex is blocked in lock(): not re-entrant'
                    if t.startswith('R:lock2:') and st.get('o2', '-') == '-':
                        return 'a thread is blocked in Mutex::lock() while the mutex is free'
                if not any(re.match(r'W\d+:cw1', t) for t in toks):
                    for k, t in enumerate(toks):
                        if t.startswith('C1:') and mark.get(k):
                            return 'a Monitor waiter that took the monitor before a set() is still blocked and no wait has returned true since that set(): it released nobody'
                continue
            if len(sec) < 4:
                continue
            toks = sec[2].split()
            st = dict(x.split('=', 1) for x in sec[3].split() if '=' in x)
            evs = sec[1].split()
            if disc:
                for e in evs:
                    if re.match(r'r\d+:csenter:', e) and e.rsplit(':', 1)[1] != '1':
                        return 'two threads inside the critical section: ' + e
            for e in evs:
                if re.match(r'r\d+:semsignal:', e):
                    count += 1
                elif re.match(r'r\d+:(semwait|semwaitt=-?\d+|semtry):1$', e):
                    count -= 1
            if any(re.match(r'[MP]\d+$', e) for e in evs):       # a set() took effect (P: even if the flag was already up)
                for k in prev_blocked:
                    mark[k] = True
            if any(re.match(r'r\d+:(monwait|monwaitt=-?\d+):1$', e) for e in evs):    # a wait returned true: some set() released a waiter
                for k in list(mark):
                    mark[k] = False
            now_blocked = {k for k, t in enumerate(toks) if t.startswith('C1:')}
            for k in now_blocked - prev_blocked:
                mark[k] = False
            prev_blocked = now_blocked
            last = (toks, st)
        return None


CHECK = C11
