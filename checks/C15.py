import os, sys, itertools
from vf import Check, Stream, hexs

ALPHABET = [0x22, 0x5c, 0x2f, 0x2a, 0x6e, 0x75, 0x30, 0x5b, 0x5d, 0x7b, 0x7d, 0x2c, 0x3a, 0x0a]   # " \ / * n u 0 [ ] { } , : LF
INT32_MIN, INT32_MAX = -2**31, 2**31 - 1
INT64_MIN, INT64_MAX = -2**63, 2**63 - 1


# ---- value trees (python side): None, bool, ('i', z), ('I', z), bytes, list, [(key bytes, value)] wrapped as ('M', [...]) ----

def gen_bytes(rng, maxlen=12, nul=False):
    out = bytearray()
    for _ in range(rng.randrange(0, maxlen + 1)):
        r = rng.random()
        if r < 0.35:
            out.append(rng.choice(b'abcxyz019 _-nrtu/'))
        elif r < 0.47:
            out.append(0x22)
        elif r < 0.59:
            out.append(0x5c)
        elif r < 0.71:
            out.append(rng.choice([1, 8, 9, 10, 12, 13, 27, 31, 127, 10, 13]))
        elif r < 0.86:
            out += rng.choice(['é', 'ß', '€', '語', '😀', '\u07ff', '\u0800', '\uffff', '\U00010000', '\U0010ffff']).encode('utf-8')
        elif r < 0.97 or not nul:
            out.append(rng.randrange(128, 256))
        else:
            out.append(0)
    return bytes(out)


def gen_int(rng):
    r = rng.random()
    if r < 0.3:
        return ('i', rng.choice([0, 1, -1, 7, 42, -100, INT32_MIN, INT32_MAX, rng.randrange(INT32_MIN, INT32_MAX + 1)]))
    return ('I', rng.choice([0, -1, 5, INT32_MAX, INT32_MAX + 1, INT32_MIN, INT32_MIN - 1, INT64_MIN, INT64_MAX, INT64_MIN + 1,
                             10**18, -10**18, rng.randrange(INT64_MIN, INT64_MAX + 1), rng.randrange(-10**10, 10**10)]))


def gen_tree(rng, depth, nul=False):
    r = rng.random()
    if depth <= 0 or r < 0.45:
        k = rng.randrange(6)
        if k == 0:
            return None
        if k == 1:
            return rng.random() < 0.5
        if k in (2, 3):
            return gen_int(rng)
        return gen_bytes(rng, nul=nul)
    if r < 0.72:
        return [gen_tree(rng, depth - 1, nul) for _ in range(rng.randrange(0, 5))]
    m, seen = [], set()
    for _ in range(rng.randrange(0, 5)):
        k = gen_bytes(rng, 6, nul)
        if k in seen:
            continue
        seen.add(k)
        m.append((k, gen_tree(rng, depth - 1, nul)))
    return ('M', m)


UINT32_MAX, UINT64_MAX = 2**32 - 1, 2**64 - 1


def gen_tree_ext(rng, depth):
    """trees that also hold what the property does not name: unsigned integers ('u'/'U', z) and arrays ('A', [...])"""
    r = rng.random()
    if depth <= 0 or r < 0.4:
        k = rng.randrange(8)
        if k < 2:
            return ('u', rng.choice([0, 1, 9, 10, INT32_MAX, INT32_MAX + 1, UINT32_MAX, UINT32_MAX - 1, rng.randrange(0, UINT32_MAX + 1)]))
        if k < 5:
            return ('U', rng.choice([0, 7, INT32_MAX, INT32_MAX + 1, UINT32_MAX, UINT32_MAX + 1, INT64_MAX - 1, INT64_MAX, INT64_MAX + 1, INT64_MAX + 2,
                                     10**19, UINT64_MAX - 1, UINT64_MAX, rng.randrange(0, UINT64_MAX + 1), rng.randrange(INT64_MAX - 5, INT64_MAX + 6)]))
        return gen_tree(rng, 0)
    if r < 0.7:
        return ('A', [gen_tree_ext(rng, depth - 1) for _ in range(rng.randrange(0, 5))])
    if r < 0.85:
        return [gen_tree_ext(rng, depth - 1) for _ in range(rng.randrange(0, 4))]
    m, seen = [], set()
    for _ in range(rng.randrange(0, 4)):
        k = gen_bytes(rng, 6)
        if k in seen:
            continue
        seen.add(k)
        m.append((k, gen_tree_ext(rng, depth - 1)))
    return ('M', m)


def enc(v):
    """one-token prefix form understood by harness and driver"""
    if v is None:
        return 'n'
    if v is True:
        return 't'
    if v is False:
        return 'f'
    if isinstance(v, bytes):
        return 's' + v.hex()
    if isinstance(v, list):
        return ','.join(['L%d' % len(v)] + [enc(x) for x in v])
    if v[0] == 'M':
        return ','.join(['M%d' % len(v[1])] + ['k' + k.hex() + ',' + enc(x) for k, x in v[1]])
    if v[0] == 'A':
        return ','.join(['A%d' % len(v[1])] + [enc(x) for x in v[1]])
    return '%s%d' % (v[0], v[1])


def tree_size(v):
    if isinstance(v, list):
        return 1 + sum(tree_size(x) for x in v)
    if isinstance(v, tuple) and v[0] == 'M':
        return 1 + sum(tree_size(x) for _, x in v[1])
    return 1


# ---- JSON text written in many styles (valid documents) ----

def ws(rng):
    if rng.random() < 0.5:
        return b''
    return rng.choice([b' ', b'\t', b'\n', b'\r', b'\r\n', b'  ', b'\n\t', b'\x0b', b'\x0c'])


def text_string(rng, s):
    out = bytearray(b'"')
    try:
        chars = s.decode('utf-8')
    except UnicodeDecodeError:
        chars = None
    if chars is not None and rng.random() < 0.5:
        for ch in chars:
            o = ord(ch)
            r = rng.random()
            if ch == '"' or ch == '\\' or o == 0:
                out += (b'\\' + ch.encode()) if o and r < 0.7 else b'\\u%04x' % o
            elif o in (8, 9, 10, 12, 13) and r < 0.6:
                out += b'\\' + {8: b'b', 9: b't', 10: b'n', 12: b'f', 13: b'r'}[o]
            elif o in (10, 13) or r < 0.25:
                if o >= 0x10000:
                    o -= 0x10000
                    hi, lo = 0xd800 | (o >> 10), 0xdc00 | (o & 0x3ff)
                    out += (b'\\u%04x\\u%04X' if r < 0.1 else b'\\u%04X\\u%04x') % (hi, lo)
                else:
                    out += b'\\u%04X' % o
            elif ch == '/' and r < 0.5:
                out += b'\\/'
            else:
                out += ch.encode('utf-8')
    else:
        for b in s:
            if b == 0x22 or b == 0x5c:
                out += bytes([0x5c, b])
            elif b == 10:
                out += b'\\n'
            elif b == 13:
                out += b'\\r'
            elif b == 0:
                out += b'\\u0000'
            else:
                out.append(b)
    out += b'"'
    return bytes(out)


def text_value(rng, v):
    if v is None:
        return b'null'
    if v is True:
        return b'true'
    if v is False:
        return b'false'
    if isinstance(v, bytes):
        return text_string(rng, v)
    if isinstance(v, list):
        return b'[' + ws(rng) + (b',' + ws(rng)).join(text_value(rng, x) + ws(rng) for x in v) + b']'
    if v[0] == 'M':
        return b'{' + ws(rng) + (b',' + ws(rng)).join(text_string(rng, k) + ws(rng) + b':' + ws(rng) + text_value(rng, x) + ws(rng) for k, x in v[1]) + b'}'
    if v[0] == 'D':
        return v[1]
    return b'%d' % v[1]


def gen_doc_tree(rng, depth):
    """like gen_tree plus doubles and odd numbers (parse only)"""
    r = rng.random()
    if r < 0.12:
        return ('D', rng.choice([b'1.5', b'-0.25', b'1e5', b'1E+2', b'2.5e-3', b'0.0', b'-1.', b'12345678901234567890.5', b'1e400', b'-0',
                                 b'00012', b'1-2', b'--5', b'-', b'9223372036854775808', b'-9223372036854775809', b'99999999999999999999999',
                                 b'2147483648', b'-2147483649', b'1+1', b'1e', b'1.2.3', b'-e', b'5e-']))
    if depth <= 0 or r < 0.5:
        return gen_tree(rng, 0, nul=True)
    if r < 0.75:
        return [gen_doc_tree(rng, depth - 1) for _ in range(rng.randrange(0, 5))]
    m = []
    for _ in range(rng.randrange(0, 5)):
        k = rng.choice([b'a', b'b', b'key', gen_bytes(rng, 5)])      # duplicates on purpose
        m.append((k, gen_doc_tree(rng, depth - 1)))
    return ('M', m)


def gen_doc(rng):
    return ws(rng) + text_value(rng, gen_doc_tree(rng, rng.randrange(0, 5))) + ws(rng) + \
        (rng.choice([b'', b'', b'', b' x', b',', b']', b'"', b'1', b'\n\n!']))


def with_comments(rng, doc):
    """insert comments at token boundaries found crudely (after , [ { : and line breaks, outside strings)"""
    out = bytearray()
    instr = False
    esc = False
    for b in doc:
        out.append(b)
        if instr:
            if esc:
                esc = False
            elif b == 0x5c:
                esc = True
            elif b == 0x22:
                instr = False
        elif b == 0x22:
            instr = True
        elif b in b',[{:\n' and rng.random() < 0.4:
            out += rng.choice([b'// c\r', b'//\r', b'// c\n', b'/* c */', b'/* a * b */', b'/**/', b'/* l1\nl2\r\nl3 */', b'//\r\n', b'/* "q" */', b'// "q\n',
                               b'/***/', b'/* **/', b'/*/ */', b'// /* \n', b'/* // */', b'/ /', b'/* x'])
    return bytes(out)


def mutate(rng, doc):
    if not doc:
        return doc
    d = bytearray(doc)
    k = rng.randrange(6)
    specials = [i for i, b in enumerate(d) if b in (0x5c, 0x22, 0x75)]
    at = rng.choice(specials) if specials and rng.random() < 0.7 else rng.randrange(len(d))
    if k == 0:
        del d[at]
    elif k == 1:
        d.insert(at, d[at])
    elif k == 2:
        d = d[:at + rng.randrange(0, 3)]          # truncate at / just after an escape, quote, u
    elif k == 3:
        d[at] = rng.choice(ALPHABET + [0x0d, 0x20, 0x74, 0x66, 0x2d, 0x2e, 0x65, 0x64, 0x44, 0x39])
    elif k == 4:
        n = rng.randrange(1, 6)
        del d[at:at + n]
    else:
        d = d[:at] + bytearray(rng.choice([b'\\', b'\\u', b'\\ud8', b'\\ud800', b'\\ud800\\', b'\\ud800\\u', b'\\ud800\\udc0', b'\\ud800\\u0041',
                                           b'\\udc00', b'"\\', b'\r', b'\\\r\n', b'tru', b'nul', b'fals']))
        if rng.random() < 0.5:
            d += doc[at:]
    return bytes(d)


class C15(Check):
    id = 'C15'
    comp = 'Json'
    extracted = ['coq/Json/model.mli', 'coq/Json/model.ml', 'ocaml/zconv.ml', 'ocaml/json_driver.ml']
    harness_sources = ['harness/json.cpp']
    per_case_timeout = 10           # see run_impl: 30 s for pieces with very long op lines
    level_text = ('Theorems in Coq about an executable model that mirrors src/Document/Json.cpp decision by decision (cursor = remaining '
                  'bytes + line over a NUL-terminated text, every `++pos.pos` a checked advance, loops with explicit fuel): parse never runs '
                  'out of fuel 2*length+3 and never steps past the terminator for every byte string; a reported (line, column) is the '
                  'coordinate pair of an offset of the text; the answer of parse is the same function of the text for every history of the '
                  'Parser object and every previous content of the target Variant (the object model keeps pos.line and the error fields '
                  'across calls; repair 06 clears the target), so the error position of a second parse lies inside the second text; the static '
                  'wrappers are parse on a fresh object; parse(toString v) = canon v, a tree equal to v (integers by value), for every tree of null, booleans, '
                  '32/64-bit integers, NUL-free strings, lists and maps with distinct NUL-free keys (layers: unescape(escape s) = s, atoll(printf z) = z); '
                  'the two `k.scanf("%x") != 1` tests of readToken are never true (hex4_scan_never_fails, parse_never_reports_hexadecimal_number); '
                  'the string tokenizer of the model = RFC 8259 on valid literals (escapes, surrogate pairs, UTF-8; beyond the property text, not judged on the implementation); stripComments on the C string inside the '
                  'String (bytes before the first 0 byte) = a five-state reference machine for every input = exactly what a grammar of plain bytes, string literals, line comments up to the line break and block comments leaves (sound and complete: o is the text without its comments iff stripComments returns o), keeps every line break, is the '
                  'identity on texts without a slash, is never longer than its input, and a second transcription with every src[k] read and '
                  'every *(dest++) write checked against the two buffers (data.length()+1 bytes each) never leaves them. The model is tied to '
                  'the code by running the extracted model, the extracted spec and the ASan/UBSan build on the same inputs (parse results, error '
                  'positions, toString text, re-parsed trees, stripped texts compared line by line; exact-size heap copies; watchdog).')
    level_note = ('EXTENSION BEYOND THE CLASS OF THE PROPERTY (the property names null, booleans, signed integers, strings, lists, maps): Json::toString '
                  'also writes uint, uint64 and Array<Variant> (Json.cpp:420-423, 476-497); these are in the serialiser model and in the harness, with their '
                  'own theorem ext_parse_toString_readback: parse(toString v) = readback v, where an array comes back as a list (which Variant::operator== '
                  'does not call equal to the array: ext_array_comes_back_as_list), a uint comes back as int below 2^31 and as int64 above (equal by value), '
                  'a uint64 below 2^63 as int/int64 (equal) and from 2^63 on as int64 9223372036854775807 because atoll saturates '
                  '(ext_uint64_saturates_from_2p63: NOT equal - outside the property, which speaks of signed integers only; noted, not a finding). '
                  'On the class of the property readback = canon (ext_class_contains_property_class). '
                  'Dead code: the two returns "Expected hexadecimal number" (Json.cpp:136, 153) cannot execute - k holds four bytes accepted by isHexDigit and '
                  'sscanf("%x") (modelled as JsonModel.scanf_hex: white space, sign, 0x prefix, digit run, strtoul overflow; tied to libc by op xscan on all '
                  'short strings over a sign/prefix/digit alphabet) converts every such k (hex4_scan_never_fails); no text makes parse report that message '
                  '(parse_never_reports_hexadecimal_number). Likewise unreachable and not modelled: "Expected \'{\'" / "Expected \'[\'" (Json.cpp:298, 331) - parseObject / '
                  'parseArray are called from the switch of parseValue on exactly that token only. '
                  'Partial: libc is modelled by reference functions (printf %d/%lld/%u/%llu = print_dec, atoll = ref_atoll incl. saturation, '
                  'sscanf %x = scanf_hex, strpbrk = find_one_of) - atoll(printf z) = z is proved for the '
                  'model functions over the whole 64-bit range and validated against libc on boundary and random integers only. '
                  'Doubles are outside the property (kept as opaque text). The nesting depth bound (1000) concerns the C++ stack: the model '
                  'needs no depth hypothesis, depth up to 1000 is validated by running the code only (stream nesting: parse to depth 1000; toString then parse on chains of '
                  'lists, of maps and of both at depth 255..257, 300, 500, 999, 1000 - the round trip clause has no depth bound; the extracted model follows up to depth 257 (quick) / 300 '
                  '(thorough), beyond that its list-based parser needs minutes for the 0.25..1 MB toString writes and op rtx lets the spec line alone - flag 1 and the tree canon v - judge the implementation). '
                  'Line counter: the model counts lines in Z, the code in an int: parse_error_position_inside_text read on the code needs fewer than 2^31 line breaks (2 GiB of text, not '
                  'reachable by a test); runs of 2^15, 2^16-1, 2^16 and 70000 line breaks (LF, CR LF, CR, inside a literal) and last lines of 70000 bytes are driven (stream large). HashMap is modelled as '
                  'an insertion-ordered association list with replace-in-place on a repeated key. Beyond the property text: the string tokenizer '
                  'yields the RFC 8259 / RFC 3629 value of every valid literal (theorem string_token_is_rfc8259 against JsonSpec.ref_string) - a theorem about the MODEL: '
                  'which value a literal denotes that toString never writes (\\b \\f \\t \\/ \\uXXXX, surrogate pairs) is outside the property text, so op pstr compares implementation and model only '
                  '(a difference is a correspondence break: no-failing-input-found) and claims a failing input only for a crash or a position outside the text; the escapes toString does write '
                  '(\\" \\\\ \\n \\r) are judged through rt on every byte 1..255. Documented choices where the text is silent (model mirrors the code, no '
                  'theorem judges them): a raw CR / LF / CR LF inside a string literal is accepted, counted as a line break and dropped from the '
                  'value; an escape \\u0000 puts a 0 byte into the String; an unknown escape keeps its backslash; a String with an embedded 0 '
                  'byte is stripped as the C string before that byte. The reference strip machine of JsonSpec.v is a trusted specification with '
                  'the same five states as the code; it is cross-checked against a grammar-style definition (JsonSpec.strips: plain bytes, string '
                  'literals, line comments up to the line break, block comments whose line breaks stay) by stripComments_follows_comment_grammar '
                  '(soundness: every cut of a text by the grammar is what the machine produces; completeness: every text has a cut, comment_grammar_cuts_every_text; hence stripComments_is_the_comment_grammar). After a successful call on a reused Parser the error getters still show the '
                  'previous failure (theorem parser_error_fields states it; not part of the property). '
                  'Scope of the spec oracle (what a failing input is claimed for): no crash / hang / sanitizer report; equality after the round trip for trees of the property\'s class; the stripped '
                  'bytes; that a reported line and column are the coordinates of an offset of the text; that a reused Parser / non-empty target answers like a fresh one. '
                  'EQUAL TREE means: Variant::operator== says equal both ways round (the flag the harness prints) AND the tree read back is the tree written up to the width / signedness of its integers '
                  '(JsonSpec.value_eq; the check compares the dump with dump(canon v) after wiping out i/I/u/U - trusted Python). Reason: the text asks for an equal tree, the library\'s only equality compares '
                  'integers by value, a JSON text carries no width, and the unchanged code itself returns intType for int64 5 (Example ex_int64_small) - if width were part of equal the property would be false on /repo. '
                  'That an integer fitting 32 bits comes back as intType (canon) is therefore a model-only detail (difference = correspondence break). Trees outside the class (unsigned integers, arrays: the extension) '
                  'carry no spec claim at all. For arbitrary text the spec line of parse / sparse / pstr is `no crash; a failure has a position inside`: WHICH texts are accepted and with what tree is a model-only '
                  'detail (the text: either yields a value or reports failure), e.g. a wrapper that returns true with a partial tree on malformed text is a model/implementation difference only. The WORDING of error messages is never judged: '
                  'it is a model-only detail (the model prints the messages of the current source; a reworded message shows up as a model/implementation '
                  'difference without a failing input). For the static wrappers, whose only report is the text in Error::getErrorString(), the two numbers '
                  'are read out of that text independently of its wording (position_in_message: the numbers behind the words line and column, else the first '
                  'two free-standing integers); a text from which no position can be read is not judged, except the harness\'s own sentinel (the wrapper '
                  'returned false without reporting anything). '
                  'Trusted: Coq kernel, JsonSpec.v (position_inside, reference_strip_from, in_class/value_eq/canon), extraction + OCaml '
                  'driver, harness (it compares the answers of a reused Parser / non-empty target with those of fresh ones itself), generators. '
                  'The theorems are about the model; the tie to the code is differential.')
    technique = 'coq-proof + model/implementation correspondence (extracted model vs ASan/UBSan build), spec oracles on implementation answers'
    rule = ('cases = one call each: parse <text>, pstr <string literal content>, strip <String bytes>, rt <tree> (toString then parse; rtx = the same without running the model), '
            'parse2 <shared target?> <text1> <text2> (one Parser object), into <tree> <text> and rtinto <tree0> <tree> (target already holds a value), '
            'sparse <c|s|p> <text> (static wrappers, String overloads), xscan <bytes> (String::scanf("%x") vs scanf_hex); streams: '
            'exhaustive short texts over the delimiter alphabet, over a string-token alphabet and over a comment alphabet; valid documents in many '
            'styles; mutations aimed at escapes, quotes and the terminator; every truncation of sample documents; every byte after a backslash; '
            'truncated and mispaired \\u escapes; line/column documents with CR, LF, CR LF inside and outside strings; comments next to strings '
            'and escapes; value trees with every byte 1..255 and the integer boundaries; nesting to depth 1000 (parse, and toString-then-parse chains of lists / maps / both at 255..257, 300, 500, 999, 1000); pairs of failing / succeeding texts on one '
            'Parser; targets holding scalars, lists, maps; strings and keys of 21..4094 bytes and of 4..64 KiB, containers of 100+ items; runs of 2^15..70000 line breaks and lines of 70000 bytes before an error; '
            'every text of length <= 5 over a comment alphabet with CR; Strings with an embedded 0 byte; '
            'extension: trees with uint / uint64 at 2^31, 2^32, 2^63, 2^64-1 and Array<Variant> (empty, nested, 100+ items); sscanf %x on every short string '
            'over a sign/prefix/digit alphabet. A case is '
            'non-trivial when the text has at least 3 bytes and one of " \\ / [ { (parse/strip/pstr), the tree has a container or a byte that must be '
            'escaped (rt / rtx), or the op line of a reuse op has at least 20 characters; distinct = distinct op text')
    assumptions = ['libc printf("%d"/"%lld"), atoll, sscanf("%x"), strpbrk behave as the reference functions of JsonModel.v (print_dec, ref_atoll, scanf_hex - checked on op xscan, find_one_of)',
                   'Variant/HashMap/List/String behave as value trees with an insertion-ordered map (checked by the dump of every parsed tree); Variant::clear() empties the target',
                   'fewer than 2^31 line breaks in a text (the code counts lines in an int, the model in Z)',
                   'a tree on which the implementation crashes or hangs on nearly every case is given up early (crash weight 150 per stream, 300 over all streams; crash = 1, hang = its watchdog seconds, 10 or 30): the cases not run are not judged']

    def run_impl(self, cases, tag='impl'):
        """as Check.run_impl, but in pieces, so that a tree on which the implementation crashes or hangs on (nearly) every case
        (every crash restarts the harness, every hang costs the watchdog's seconds) is given up early: a stream starts with a
        piece of 8 cases and goes on in pieces of 300 while crashes keep coming and of 4 while hangs keep coming; a crash weighs 1,
        a hang its seconds; at weight 150 the rest of the stream is not run, at weight 300 over all streams the remaining streams
        are not run at all (vf drops cases marked `! notrun`; what has been seen by then is reported).  The watchdog is 10 s per
        case, 30 s for pieces that hold an op line of more than 2000 characters (toString of a tree nested 1000 deep takes 2..5 s
        under ASan on an idle machine: String growth is not geometric)"""
        import vf
        rundir = os.path.join(vf.BUILD, self.id, 'run')
        rerun = tag.startswith('shr_')                        # vf re-runs a case it is about to report: outside the budget
        res, crashes, i, weight, size = [], {}, 0, 0, 8
        while i < len(cases):
            if not rerun and (weight >= 150 or getattr(self, '_crash_weight', 0) >= 300):
                vf.log('[C15] %s: too many crashes / hangs (weight %d, all streams %d): remaining %d cases not run' % (
                    tag, weight, getattr(self, '_crash_weight', 0), len(cases) - i))
                res += [['! notrun'] for _ in cases[i:]]
                break
            chunk = cases[i:i + size]
            tmo = 30 if any(len(l) > 2000 for c in chunk for l in c) else 10
            try:
                r, c = vf.run_exe_on_cases(self.exes['impl'], chunk, rundir, tag, is_impl=True, per_case_timeout=tmo)
            except RuntimeError:
                if size <= 300:
                    raise
                size = 300
                continue
            r = [x if x != ['! notrun'] else ['! not-run'] for x in r]
            res += r
            for k, v in c.items():
                crashes[i + k] = v
            hangs = sum(1 for v in c.values() if v[0] == 'timeout')
            w = hangs * tmo + (len(c) - hangs)
            weight += w
            if not rerun:
                self._crash_weight = getattr(self, '_crash_weight', 0) + w
            i += len(chunk)
            size = 4 if hangs else 300 if (w > 3 or weight > 20) else 20000
        return res, crashes

    def _deep(self, f, cases, tag):
        """the extracted list functions (app, map, cstr) are not tail recursive: texts of some 100 KB .. 1 MB (toString of a tree
        nested 1000 deep, 70000 line breaks) need more than the default 8 MB stack; raised for the model/spec runs only"""
        import resource
        soft, hard = resource.getrlimit(resource.RLIMIT_STACK)
        want = 4 << 30
        if hard != resource.RLIM_INFINITY:
            want = min(want, hard)
        try:
            resource.setrlimit(resource.RLIMIT_STACK, (want, hard))
        except (ValueError, OSError):
            pass
        try:
            return f(self, cases, tag)
        finally:
            try:
                resource.setrlimit(resource.RLIMIT_STACK, (soft, hard))
            except (ValueError, OSError):
                pass

    def run_model(self, cases, tag='model'):
        return self._deep(Check.run_model, cases, tag)

    def run_spec(self, cases, tag='spec'):
        return self._deep(Check.run_spec, cases, tag)

    def nontrivial(self, case, obs):
        for l in case:
            t = l.split(' ')
            if t[0] in ('parse', 'strip', 'pstr') and t[1] != '-':
                b = bytes.fromhex(t[1])
                if len(b) >= 3 and any(c in b for c in b'"\\/[{'):
                    return True
            if t[0] in ('rt', 'rtx') and (t[1].count(',') >= 1 or t[1][0] in 'uUA' or any(x in t[1] for x in ('22', '5c', '0a', '0d'))):
                return True
            if t[0] in ('parse2', 'into', 'rtinto', 'sparse') and len(l) >= 20:
                return True
            if t[0] == 'xscan' and t[1] != '-' and len(t[1]) >= 4:
                return True
        return False

    @staticmethod
    def _byte_name(hexs_, k):
        if hexs_ in ('-', ''):
            return 'end'
        b = bytes.fromhex(hexs_)
        if k >= len(b):
            return 'end'
        return {0x2a: 'star', 0x22: 'quote', 0x2f: 'slash', 0x0a: 'LF', 0x0d: 'CR', 0x5c: 'backslash'}.get(b[k], 'byte')

    def _why(self, opl, exp, got):
        """categorical reason (one group per kind of failure, so one report per defect)"""
        kind = opl.split(' ')[0]
        if got.startswith('! '):
            return '%s: %s (sanitizer/watchdog stopped the implementation)' % (kind, got)
        if kind == 'strip' and not got.startswith('<'):
            a = bytes.fromhex(exp) if exp not in ('-', '') else b''
            b = bytes.fromhex(got) if got not in ('-', '') and ' ' not in got else b''
            k = 0
            while k < len(a) and k < len(b) and a[k] == b[k]:
                k += 1
            return 'strip: output differs from the reference: implementation has <%s> where the reference has <%s>; expected `%s` got `%s`' % (
                self._byte_name(got, k), self._byte_name(exp, k), exp[:200], got[:200])
        if kind == 'parse2':
            return ('parse2: one Parser object used for two texts (flag 1: also one target Variant) does not answer like a fresh Parser with a fresh '
                    'Variant (first field 1 = same answers; then the two answers): `%s`' % got[:300])
        if kind == 'into':
            return ('into: parse into a Variant that already holds a value does not answer like parse into a fresh Variant '
                    '(first field 1 = same answer; then the answer): `%s`' % got[:300])
        if kind == 'rtinto':
            return ('rtinto: toString then parse into a Variant that already holds a value does not give an equal tree '
                    '(observation: equal flag | text, parse result): expected `%s` got `%s`' % (exp[:200], got[:300]))
        if kind == 'xscan':
            return ('xscan: libc sscanf("%%x") through String::scanf does not behave as the reference function JsonModel.scanf_hex: '
                    'model `%s`, implementation `%s`' % (exp[:100], got[:100]))
        if kind == 'rtx':
            kind = 'rt'
        if kind == 'rt' and got.startswith('1 |'):
            return ('rt: Variant::operator== calls the tree read back equal to the tree written (both ways round), but the two differ in more than the '
                    'width of their integers (z<n> stands for an integer of any width; == converts between types): expected `%s` got `%s`' % (exp[:200], got[:300]))
        if kind == 'rt':
            return 'rt: toString then parse does not give an equal tree (observation: equal flag | text, parse result): `%s`' % got[:300]
        return '%s: spec expects `%s`, implementation gives `%s`' % (kind, exp[:200], got[:200])

    @staticmethod
    def position_in_message(msg):
        """(line, column) as decimal strings read out of the text a static wrapper leaves in Error::getErrorString(), or None.
        The property constrains the two numbers, not the wording: the number behind the word `line` and the number behind the
        word `column` / `col` when both words occur, else the first two free-standing integers of the text (not glued to a
        letter, digit, '-' or '.': `UTF-16`, `e1`, `1.0` are no positions).  None = no position can be read from this text:
        then the oracle makes no claim about it (the text is still compared with the model's text: correspondence only)."""
        import re
        msg = msg.replace('_', ' ')
        num = r'(?<![\w.\-])(-?\d+)(?![\w.])'
        ml = re.search(r'(?i)\bline\b[^\w\-]{0,3}' + num, msg)
        mc = re.search(r'(?i)\bcol(?:umn)?\b[^\w\-]{0,3}' + num, msg)
        if ml and mc:
            return ml.group(1), mc.group(1)
        if ml or mc:
            return None
        ints = re.findall(num, msg)
        if len(ints) >= 2:
            return ints[0], ints[1]
        return None

    @staticmethod
    def _error_positions(opl, ol):
        """(text, line, column) for every reported failure in the observation line of an op"""
        t = opl.split(' ')
        out = []
        def one(text, ans):
            a = ans.strip().split(' ')
            if a and a[0] == 'err' and len(a) >= 3:
                out.append((text, a[1], a[2]))
            elif a and a[0] == 'serr' and len(a) >= 2:
                # the static wrappers report through a text only: the position is read out of it whatever its wording;
                # a text without a readable position is not judged (model = implementation is still compared)
                p = C15.position_in_message(' '.join(a[1:]))
                if p:
                    out.append((text, p[0], p[1]))
                elif a[1:] == ['stale']:
                    out.append((text, None, None))      # the harness's sentinel is still there: nothing was reported at all
        if t[0] == 'parse' and len(t) >= 2:
            one(t[1], ol)
        elif t[0] == 'pstr' and len(t) >= 2:
            one('22' + (t[1] if t[1] != '-' else '') + '22', ol)
        elif t[0] == 'parse2' and len(t) >= 4:
            secs = ol.split(' | ')
            if len(secs) >= 3:
                one(t[2], secs[1]); one(t[3], secs[2])
        elif t[0] == 'into' and len(t) >= 3:
            secs = ol.split(' | ')
            if len(secs) >= 2:
                one(t[2], secs[1])
        elif t[0] == 'sparse' and len(t) >= 3:
            one(t[2], ol)
        return out

    @staticmethod
    def _int_blind(line):
        """the observation line of rt / rtinto / rtx with the width and signedness of every integer token wiped out (i5, I5, u5, U5 -> z5):
        the text asks for an EQUAL tree, Variant::operator== and JsonSpec.value_eq compare integers by value"""
        import re
        return ' '.join(re.sub(r'^[iIuU](-?[0-9]+)$', r'z\1', t) for t in line.split(' '))

    def judge(self, cases, impl_obs, spec_obs):
        from vf import first_diff
        fails = []
        failed = set()
        for i, (c, s, o) in enumerate(zip(cases, spec_obs, impl_obs)):
            if c and c[0].split(' ')[0] in ('rt', 'rtinto', 'rtx'):
                s, o = [self._int_blind(l) for l in s], [l if l.startswith('! ') else self._int_blind(l) for l in o]
            crash = [j for j, l in enumerate(o) if l.startswith('! ')]
            if o in (['! not-run'], ['! notrun']):
                continue
            if crash:
                j = crash[0]
                opl = c[min(max(j - 1, 0), len(c) - 1)] if c else '?'
                fails.append((i, j, self._why(opl, '', o[j])))
                failed.add(i)
                continue
            k = first_diff(s, o)
            if k is not None:
                exp = s[k] if k < len(s) else '<nothing>'
                got = o[k] if k < len(o) else '<nothing>'
                opl = c[min(k, len(c) - 1)] if c else '?'
                fails.append((i, k, self._why(opl, exp, got)))
                failed.add(i)
        chk, idx = [], []
        for i, (c, o) in enumerate(zip(cases, impl_obs)):
            for k, (opl, ol) in enumerate(zip(c, o)):
                for text, l, col in self._error_positions(opl, ol):
                    if l is None:
                        if i not in failed:
                            failed.add(i)
                            fails.append((i, k, '%s: the static wrapper returned false and left Error::getErrorString() as it was before the call: '
                                                'no line and column reported' % opl.split(' ')[0]))
                        continue
                    chk.append(['chkpos %s %s %s' % (text, l, col)])
                    idx.append((i, k, l, col))
        if chk:
            res = self.run_spec(chk, tag='spec_chkpos')
            for (i, k, l, col), r in zip(idx, res):
                if r != ['1'] and i not in failed:
                    failed.add(i)
                    fails.append((i, k, '%s: error position (line, column) is not inside the text: line %s column %s' % (cases[i][k].split(' ')[0], l, col)))
        # shortest failing text first: the report of a group of equal failures shows the smallest witness of the stream
        fails.sort(key=lambda f: sum(len(l) for l in cases[f[0]]))
        return fails

    def streams(self, tier, rng):
        thorough = tier == 'thorough'
        out = []
        # 1. all byte strings of length <= 3 (quick) / 4 (thorough) over the delimiter alphabet
        cases = []
        for n in range(0, (4 if thorough else 3) + 1):
            for tup in itertools.product(ALPHABET, repeat=n):
                h = hexs(bytes(tup))
                cases.append(['parse ' + h])
                cases.append(['strip ' + h])
        out.append(Stream('exhaustive', cases, exhaustive=True,
                          note='every byte string of length <= %d over { " \\ / * n u 0 [ ] { } , : LF }' % (4 if thorough else 3)))
        # 2. valid documents in many styles (escapes, surrogate pairs, whitespace, duplicate keys, odd numbers)
        docs = [gen_doc(rng) for _ in range(4000 if thorough else 700)]
        out.append(Stream('documents', [[op + hexs(d)] for d in docs for op in ('parse ', 'strip ')]))
        # 3. mutations of valid documents
        cases = []
        for _ in range(12000 if thorough else 1800):
            d = mutate(rng, rng.choice(docs))
            if rng.random() < 0.3:
                d = mutate(rng, d)
            cases.append(['parse ' + hexs(d)])
            cases.append(['strip ' + hexs(d)])
        # every truncation of a few documents (all positions right before the terminator)
        for d in rng.sample(docs, 40 if thorough else 8):
            for k in range(len(d)):
                cases.append(['parse ' + hexs(d[:k])])
        out.append(Stream('mutations', cases, note='deleted/duplicated/replaced/truncated bytes, aimed at escapes, quotes and the terminator'))
        # 4. documents with comments: strip, then parse the stripped text
        cases = []
        for _ in range(5000 if thorough else 900):
            d = with_comments(rng, rng.choice(docs))
            if rng.random() < 0.3:
                d = mutate(rng, d)
            cases.append(['strip ' + hexs(d)])
        for d in [b'a/* x * y */b', b'"x\\n//y" // c', b'"a\\\\" // c', b'"\\"" /*c*/ 1', b'/*', b'/* *', b'/', b'//', b'"\\', b'"/*', b'/*"*/"',
                  b'a//b\r\nc', b'/*\r\n*/x', b'//x\ry', b'a//\r', b'/*a\rb*/', b'/*\r*/x', b'//\r\r\n', b'{ // note\r "a": 1 }', b'//a\r//b\rc', b'"//"//\r"',
                  b'//\r/*\r*/\r', b'1 // x\r\r2', b'// \\\r"', b'/*//\r*/', b'//*/\r/*', b'"a"/**/"b"', b'/**/', b'/***/x', b'/*/x*/y', b'x/"//"', b'"\\\\"//c\n"\\"//"']:
            cases.append(['strip ' + hexs(d)])
        out.append(Stream('comments', cases))
        # 5. value trees through toString and back
        cases = []
        for _ in range(6000 if thorough else 1200):
            v = gen_tree(rng, rng.randrange(0, 5), nul=rng.random() < 0.1)
            cases.append(['rt ' + enc(v)])
        for b in range(1, 256):
            cases += [['rt s%02x' % b], ['rt s61%02x62' % b], ['rt M1,k%02x,n' % b]]
        for z in [0, 1, -1, 9, 10, -10, 99, 100, INT32_MAX, INT32_MIN, INT32_MAX + 1, INT32_MIN - 1, INT64_MAX, INT64_MIN, INT64_MAX - 1, 10**18, 10**15]:
            cases += [['rt I%d' % z]] + ([['rt i%d' % z]] if INT32_MIN <= z <= INT32_MAX else [])
        out.append(Stream('trees', cases, note='random trees; every single byte 1..255 as string content and as key; integer boundaries'))
        # 6. nesting depth up to 1000
        cases = []
        for d in ([1, 2, 10, 100, 500, 999, 1000] if not thorough else list(range(1, 1001, 37)) + [999, 1000]):
            cases.append(['parse ' + hexs(b'[' * d + b']' * d)])
            cases.append(['parse ' + hexs(b'[' * d + b'1' + b']' * (d - 1))])          # truncated
            cases.append(['parse ' + hexs(b'{"a":' * d + b'null' + b'}' * d)])
            cases.append(['parse ' + hexs((b'[{"k":' * (d // 2)) + b'[]' + (b'}]' * (d // 2)))])
            if d <= 200:
                cases.append(['rt ' + 'L1,' * d + 'n'])
                cases.append(['rt ' + 'M1,k61,' * d + 'i1'])
        # the round trip has no depth bound in the text (and none in parse_toString_roundtrip): chains of lists, of maps and of both,
        # just below / above 2^8 and up to the 1000 the text names for parse (toString's text grows with depth^2: 1 MB at 1000)
        def chains(d):
            return ['L1,' * d + 'i7', 'M1,k61,' * d + 's78', 'L1,M1,k6b,' * (d // 2) + ('L1,' if d % 2 else '') + 's22',
                    'L2,n,' * (d - 1) + 'L1,I-9223372036854775808',            # the chain in the last place of a longer list
                    'M2,k62,f,k61,' * (d - 1) + 'M1,k61,L0']
        if thorough:
            for d in [201, 255, 256, 257, 258, 300, 400, 500, 511, 512, 513, 700, 998, 999, 1000]:
                for k, tr in enumerate(chains(d) if d <= 700 else chains(d)[:3]):  # the two wide forms need 5 s and more at depth 1000
                    cases.append([('rt ' if d <= 258 or (d <= 300 and k < 3) else 'rtx ') + tr])     # rtx: judged by the spec only, the model is not run
        else:
            for tr in chains(257)[:3]:
                cases.append(['rt ' + tr])
            for tr in chains(300)[3:] + chains(500)[:2] + chains(1000)[:1] + chains(999)[2:3]:
                cases.append(['rtx ' + tr])
        out.append(Stream('nesting', cases, note='arrays/objects nested up to depth 1000, closed and truncated; toString then parse on chains of lists / maps / both up to depth 1000 (rtx: without the model)'))
        out += self.streams_case_splits(thorough, rng, docs)
        out += self.streams_reuse(thorough, rng, docs)
        out += self.streams_large(thorough, rng)
        out += self.streams_extension(thorough, rng)
        return out

    def streams_extension(self, thorough, rng):
        """beyond the class of the property: the Variant types toString writes and the property does not name
        (theorem ext_parse_toString_readback), and libc's sscanf %x against JsonModel.scanf_hex (hex4_scan_never_fails)"""
        cases = []
        for z in [0, 1, 9, 10, 99, INT32_MAX - 1, INT32_MAX, INT32_MAX + 1, UINT32_MAX - 1, UINT32_MAX]:
            cases += [['rt u%d' % z], ['rt U%d' % z], ['rt A1,u%d' % z], ['rt L2,u%d,U%d' % (z, z)]]
        for z in [UINT32_MAX + 1, 10**10, INT64_MAX - 1, INT64_MAX, INT64_MAX + 1, INT64_MAX + 2, 10**19, UINT64_MAX - 1, UINT64_MAX]:
            cases += [['rt U%d' % z], ['rt A2,U%d,n' % z], ['rt M1,k61,U%d' % z]]
        for tr in ['A0', 'A1,n', 'A1,A0', 'A2,A0,A0', 'A1,L0', 'L1,A0', 'A3,i1,i2,i3', 'A2,s22,s5c0a', 'A1,M1,k61,A1,t', 'M2,k61,A0,k62,A1,u5',
                   'A1,A1,A1,A1,A1,n', 'A2,L1,A1,i1,M0', 'A4,n,t,f,s-']:
            cases.append(['rt ' + tr])
            cases.append(['rtinto L1,i0 ' + tr])
            cases.append(['rtinto A1,i0 ' + tr])
        for _ in range(5000 if thorough else 900):
            cases.append(['rt ' + enc(gen_tree_ext(rng, rng.randrange(0, 5)))])
        for _ in range(600 if thorough else 120):
            cases.append(['rtinto %s %s' % (enc(gen_tree_ext(rng, rng.randrange(0, 3))), enc(gen_tree_ext(rng, rng.randrange(0, 3))))])
            cases.append(['into %s %s' % (enc(gen_tree_ext(rng, rng.randrange(0, 3))), hexs(rng.choice([b'[1]', b'{"a":2}', b'3', b'[', b'[]'])))])
        for n in ([100, 257, 1000] if thorough else [100, 257]):
            cases.append(['rt ' + enc(('A', [('u', k * 16777259 % (UINT32_MAX + 1)) for k in range(n)]))])
            cases.append(['rt ' + enc(('A', [('U', k * 72057594037927931 % (UINT64_MAX + 1)) for k in range(n)]))])
            cases.append(['rt ' + enc(('A', [('A', [gen_bytes(rng, 20)]) for k in range(n)]))])
        for d in ([1, 2, 10, 100, 200, 257] if not thorough else [1, 2, 10, 50, 100, 150, 200, 255, 256, 257, 400]):
            cases.append(['rt ' + 'A1,' * d + 'u1'])
        for d in ([500, 1000] if not thorough else [500, 512, 999, 1000]):                # judged by the spec only (see rtx)
            cases.append(['rtx ' + 'A1,' * d + 'U18446744073709551615'])
            cases.append(['rtx ' + 'A1,L1,' * (d // 2) + 'u7'])
        out = [Stream('extension-trees', cases, note='EXTENSION beyond the property\'s class: uint / uint64 at the boundaries (2^31, 2^32, 2^63, 2^64-1) and '
                                                     'Array<Variant> (empty, nested, 100+ items, depth 257; 500 / 1000 without the model) through toString and parse; the MODEL names the tree read back '
                                                     '(readback v: arrays as lists, unsigned as int / int64, 2^63.. saturated); the spec makes no claim outside the property\'s class')]
        # libc sscanf("%x") through String::scanf vs the reference function scanf_hex
        A4 = [0x20, 0x09, 0x2d, 0x2b, 0x30, 0x78, 0x58, 0x31, 0x66, 0x46, 0x67, 0x39, 0x61]     # SP TAB - + 0 x X 1 f F g 9 a
        cases = []
        for n in range(0, (5 if thorough else 4) + 1):
            for tup in itertools.product(A4 if n <= 4 else A4[:9], repeat=n):
                cases.append(['xscan ' + hexs(bytes(tup))])
        HEX = b'0123456789abcdefABCDEF'
        for a in HEX:                                                                    # every pair of first/last digit, all 22^2 middles sampled
            for b in HEX:
                cases.append(['xscan ' + hexs(bytes([a, rng.choice(HEX), rng.choice(HEX), b]))])
        for _ in range(3000 if thorough else 600):
            cases.append(['xscan ' + hexs(bytes(rng.choice(HEX) for _ in range(4)))])
        for d in [b'ffffffff', b'100000000', b'-ffffffff', b'-100000000', b'ffffffffffffffff', b'10000000000000000', b'-ffffffffffffffff',
                  b'123456789abcdef01234', b'-123456789abcdef01234', b'0x', b'0xg', b'0x0x1', b'-0x1F', b'+0XfF', b' \t\n\v\f\r1', b'1 2', b'\x80', b'\xff1',
                  b'0x-1', b'- 1', b'+-1', b'00000000000000000000001']:
            cases.append(['xscan ' + hexs(d)])
        out.append(Stream('scanf-hex', cases, exhaustive=True,
                          note='String::scanf("%x") vs JsonModel.scanf_hex: every byte string of length <= 4 over { SP TAB - + 0 x X 1 f F g 9 a }, '
                               'four-digit strings (what readToken passes), overflow, signs, prefixes'))
        return out

    def streams_reuse(self, thorough, rng, docs):
        """one Parser object for two texts, targets that already hold a value, the static wrappers and the String overloads"""
        bad = [b'!', b'\n\n\n[1 2', b'[\r\n\r\n"a" "b"]', b'{"a":\n\n\n1,\n}', b'"abc', b'\n\n"\\', b'[1,\n2,\n3,\n4,\n', b'tru', b'\r\r\r\rx',
               b'{"k":[1,2,{"x":nul}]}', b'[[[[\n]]]\n\n]]', b'', b' ', b'\n', b'"l1\nl2\nl3" x', b'[1,2,3]\n\n\n,']
        good = [b'[]', b'{}', b'[1]', b'[1,2,3]', b'{"a":1}', b'{"a":1,"b":[true,null]}', b'"s"', b'1', b'null', b'true', b'-7', b'[[],{}]',
                b'{"a":{"a":{"a":[]}}}', b'\n\n[\n1\n]\n', b'{"a":1,"a":2}', b'{"b":2,"a":1}', b'[null]', b'9999999999']
        def text():
            r = rng.random()
            if r < 0.3:
                return rng.choice(bad)
            if r < 0.55:
                return rng.choice(good)
            if r < 0.8:
                return rng.choice(docs)
            return mutate(rng, rng.choice(docs))
        cases = []
        for a in bad + good[:8]:
            for b in bad[:10] + good[:8]:
                cases.append(['parse2 0 %s %s' % (hexs(a), hexs(b))])
                cases.append(['parse2 1 %s %s' % (hexs(a), hexs(b))])
        for _ in range(4000 if thorough else 600):
            cases.append(['parse2 %d %s %s' % (rng.randrange(2), hexs(text()), hexs(text()))])
        out = [Stream('parser-reuse', cases, note='one Json::Parser for two texts (all pairs of a table of failing / succeeding texts with line breaks, random pairs); '
                                                  'flag 1: also one target Variant; both answers compared with a fresh Parser + Variant, error positions judged against their own text')]
        cases = []
        targets = ['n', 't', 'i5', 'I9999999999', 's61', 's-', 'L0', 'L1,i0', 'L2,n,s78', 'M0', 'M1,k61,i0', 'M2,k61,i0,k62,L1,n', 'L1,L1,i1', 'M1,k61,M1,k61,n']
        for tg in targets:
            for d in good + bad[:6]:
                cases.append(['into %s %s' % (tg, hexs(d))])
        for _ in range(3000 if thorough else 500):
            cases.append(['into %s %s' % (enc(gen_tree(rng, rng.randrange(0, 3))), hexs(text()))])
        for tg in targets:
            for tr in ['n', 'i1', 's61', 'L0', 'L1,i1', 'L2,i1,i2', 'M0', 'M1,k61,i1', 'M1,k62,i1', 'M2,k62,n,k61,t', 'L1,M1,k61,L1,n']:
                cases.append(['rtinto %s %s' % (tg, tr)])
        for _ in range(3000 if thorough else 500):
            cases.append(['rtinto %s %s' % (enc(gen_tree(rng, rng.randrange(0, 3))), enc(gen_tree(rng, rng.randrange(0, 4))))])
        out.append(Stream('target-reuse', cases, note='parse / toString-then-parse into a Variant that already holds null, a scalar, a list or a map'))
        cases = []
        for d in bad + good:
            for m in 'csp':
                cases.append(['sparse %s %s' % (m, hexs(d))])
        for _ in range(2400 if thorough else 450):
            cases.append(['sparse %s %s' % (rng.choice('csp'), hexs(text()))])
        out.append(Stream('entry-points', cases, note='static Json::parse(const char*), static Json::parse(const String&) (failure text from Error::getErrorString), '
                                                      'Parser::parse(const String&)'))
        return out

    def streams_large(self, thorough, rng):
        """sizes at which buffers are reallocated: strings of 4..64 KiB, containers of 100+ items"""
        cases = []
        def big(n, kind):
            if kind == 0:
                return bytes(rng.choice(b'abcdefghijklmnopqrstuvwxyz 0123456789') for _ in range(n))
            if kind == 1:                                     # everything must be escaped: the reserve arithmetic 2 + 2 * length
                return bytes(rng.choice(b'"\\\n\r') for _ in range(n))
            if kind == 2:
                return bytes(rng.randrange(1, 256) for _ in range(n))
            return (gen_bytes(rng, 12) or b'x') * (n // 6 + 1)
        sizes = [4096, 4095, 4097, 8192, 16384, 65536, 65535] if thorough else [4096, 4097, 16384, 65536]
        for n in sizes:
            for kind in range(4):
                s = big(n, kind)[:n]
                cases.append(['rt s' + s.hex()])
                if kind != 2:
                    cases.append(['rt L2,s%s,M1,k%s,i1' % (s.hex(), s[:n // 2].hex())])
        # the sizes between the random trees (<= 20 bytes, keys <= 6) and the 4 KiB strings above, around 2^8 and 2^11:
        # as value, as key, both; every byte escaped / arbitrary bytes / plain / multi-byte text
        mids = [21, 63, 64, 65, 127, 128, 255, 256, 257, 511, 1000, 1023, 1024, 2047, 2048, 2049, 3000, 4094] if thorough else [21, 64, 255, 256, 257, 1000, 2047, 2048, 4094]
        for n in mids:
            for kind in range(4):
                s = big(n, kind)[:n]
                k = big(n, (kind + 1) % 4)[:n]
                cases.append(['rt s' + s.hex()])
                cases.append(['rt M1,k%s,n' % s.hex()])
                cases.append(['rt L2,M2,k%s,s%s,k%s,s%s,s%s' % (k.hex(), s.hex(), s.hex(), k.hex(), (s + k).hex())])
        for _ in range(400 if thorough else 60):                                        # random trees with strings and keys of 7..4094 bytes
            def mid():
                return gen_bytes(rng, rng.choice([30, 100, 300, 1000, 4094]))
            m, seen = [], set()
            for _ in range(rng.randrange(1, 4)):
                k = mid()
                if k not in seen:
                    seen.add(k)
                    m.append((k, rng.choice([mid(), [mid(), None], ('M', [(mid(), ('i', 1))])])))
            cases.append(['rt ' + enc(('M', m))])
        for n in ([100, 101, 128, 257, 1000] if thorough else [100, 257]):
            cases.append(['rt ' + enc([('i', k) for k in range(n)])])
            cases.append(['rt ' + enc([gen_bytes(rng, 20) for k in range(n)])])
            cases.append(['rt ' + enc(('M', [(b'key%d' % k, ('I', k * 10**10)) for k in range(n)]))])
            cases.append(['rt ' + enc(('M', [(b'k%d' % k, [None, True, b'v%d' % k]) for k in range(n)]))])
            cases.append(['rtinto L1,i0 ' + enc([('i', k) for k in range(n)])])
            cases.append(['parse ' + hexs(b'[' + b','.join(b'"%d"' % k for k in range(n)) + b', ]')])
            cases.append(['parse ' + hexs(b'{' + b',\n'.join(b'"k%d":%d' % (k, k) for k in range(n)) + b',\n"x" 1}')])
        for n in ([4096, 65536] if thorough else [4096]):
            s = big(n, 0)
            cases.append(['parse ' + hexs(b'"' + s)])                                 # unterminated long literal
            cases.append(['parse ' + hexs(b'["' + s + b'"\n"x"]')])
            cases.append(['parse ' + hexs(b'"' + b'\\u00e9' * (n // 6) + b'"')])
            cases.append(['parse ' + hexs(b'1' * 300)])                                # a long number (saturates)
            cases.append(['parse ' + hexs(b' \n' * (n // 2) + b'     x')])             # many line breaks, then an error (in a column no other line has:
                                                                                       # the spec's search for the offset is quadratic otherwise)
            cases.append(['strip ' + hexs(b'/*' + s + b'*/' + s + b'//' + s)])
            cases.append(['strip ' + hexs(b'"' + s + b'\\"' + s + b'" /* ' + s)])
            cases.append(['strip ' + hexs(b'/*' + b'\n*' * (n // 2) + b'/x')])
            cases.append(['strip ' + hexs(s + b'/')])
        # line and column counters beyond 2^15 / 2^16 (the code counts lines in an int and takes the column from a pointer difference):
        # runs of LF, CR LF, CR outside and inside a string literal, then a syntax error in column 6 of the last line; a last line of
        # 70000 bytes (blanks, a literal, many tokens); the same through a reused Parser and the static wrappers
        for n in ([32767, 32768, 65535, 65536, 65537, 70000, 131072] if thorough else [32768, 65535, 65536, 70000]):
            full = thorough or n in (65536, 70000)
            cases.append(['parse ' + hexs(b'\n' * n + b'     x')])
            if full:
                cases.append(['parse ' + hexs(b'[1,' + b'\r\n' * (n - 1) + b'2,\n     }')])
                cases.append(['parse ' + hexs(b'\r' * n + b'[    x')])
                cases.append(['parse ' + hexs(b'["' + b'\n' * n + b'"   : 1]')])
                cases.append(['parse ' + hexs(b'[\n' + b' ' * n + b'x')])
            if thorough or n == 70000:                      # the tokenizer appends byte by byte: seconds per case under ASan
                cases.append(['parse ' + hexs(b'\n["' + b'a' * n + b'" 1]')])
                cases.append(['parse ' + hexs(b'\n\n[' + (b'"' + b'b' * (n // 100 - 3) + b'",') * 100 + b'1 2]')])      # 200 tokens
        n = 70000
        cases.append(['parse2 0 %s %s' % (hexs(b'\n' * n + b'[]'), hexs(b'\n' * n + b'     x'))])
        cases.append(['parse2 1 %s %s' % (hexs(b'\n' * n + b'     x'), hexs(b'\r\n' * n + b'[    x'))])
        cases.append(['sparse c ' + hexs(b'\n' * n + b'     x')])
        cases.append(['sparse s ' + hexs(b'\r\n' * n + b'[' + b' ' * n + b'x')])
        cases.append(['sparse p ' + hexs(b'[' + b'\r' * n + b' ' * n + b'x')])
        cases.append(['into L1,i0 ' + hexs(b'[' + b'\n' * n + b'     x')])
        cases.append(['strip ' + hexs(b'/*' + b'\n' * n + b'*/x//y\r/')])
        if thorough:
            cases.append(['strip ' + hexs(b'/*' + b'\n' * n + b'*/x//' + b'y' * n + b'\r' + b'\r\n' * n + b'/')])
        for k in range(60 if thorough else 20):                                         # a 0 byte inside the String
            d = with_comments(rng, gen_doc(rng))
            at = rng.randrange(len(d) + 1)
            cases.append(['strip ' + hexs(d[:at] + b'\0' + d[at:])])
        for d in [b'\0', b'a\0b', b'/\0/', b'/*\0*/', b'"\\\0"', b'//x\0\ny', b'/* a\0 */ b', b'"\0', b'a/\0', b'/*x*\0/']:
            cases.append(['strip ' + hexs(d)])
        return [Stream('large', cases, note='strings of 4..64 KiB (plain, every byte escaped, arbitrary bytes) alone and inside containers, containers of 100+ items, '
                                            'strings and keys of 21..4094 bytes, long literals / numbers, runs of 2^15..70000 line breaks and lines of 70000 bytes before an error (line / column counters beyond 2^16), long comments; '
                                            'Strings with an embedded 0 byte through stripComments')]

    def streams_case_splits(self, thorough, rng, docs):
        """generators aimed at the case splits of the proofs (str_loop_good, hexn_good, read_token_good, strip_*_ref)"""
        out = []
        # 7. the escape switch: every byte after a backslash - closed, truncated right after it, and followed by a later
        #    syntax error (so that line and column after the escape are observed)
        cases = []
        for e in range(1, 256):
            eb = bytes([e])
            cases.append(['pstr ' + hexs(b'\\' + eb)])
            cases.append(['parse ' + hexs(b'"a\\' + eb)])
            cases.append(['parse ' + hexs(b'["\\' + eb + b'x", 1 2]')])
            cases.append(['parse ' + hexs(b'"' + eb + b'\\')])                 # any byte, then a backslash before the terminator
        for d in [b'"\\u12aB"', b'"\\ud83d\\ude00"', b'"\\uD800\\uDC00x"', b'["\\udbff\\udfff"]', b'{"\\u0041":"\\u00e9\\u20ac"}']:
            for k in range(len(d) + 1):
                cases.append(['parse ' + hexs(d[:k])])                          # every truncation
                if k < len(d):
                    for r in (b'g', b'"', b'\\', b'\n', b'\r', b'G', b'/', b' '):
                        cases.append(['parse ' + hexs(d[:k] + r + d[k + 1:])])  # every byte replaced
                        cases.append(['parse ' + hexs(d[:k] + r)])
        W1 = ['d7ff', 'd800', 'd801', 'dbff', 'dc00', 'dfff', 'e000', 'D800', 'DBFF', 'DbFf', '0000', '0001', '007f', '0080', '07ff', '0800', 'ffff', 'fffe', '0022', '005c', '000a']
        W2 = ['dbff', 'dc00', 'dc01', 'dfff', 'e000', '0041', 'DC00', 'DFFF', 'd800', 'DeAd']
        for a in W1:
            cases.append(['pstr ' + hexs(b'\\u' + a.encode())])
            cases.append(['pstr ' + hexs(b'x\\u' + a.encode() + b'y')])
            for b in W2:
                cases.append(['pstr ' + hexs(b'\\u' + a.encode() + b'\\u' + b.encode())])
            for tail in (b'\\', b'\\u', b'\\x0041', b'x', b'\\n', b'\\ud', b'\\u00', b'\\U0041'):
                cases.append(['parse ' + hexs(b'"\\u' + a.encode() + tail + b'"')])
                cases.append(['parse ' + hexs(b'"\\u' + a.encode() + tail)])
        for _ in range(6000 if thorough else 800):                              # all supplementary planes: surrogate arithmetic
            cp = rng.choice([0x10000, 0x10001, 0x103ff, 0x10400, 0x1f600, 0xfffff, 0x100000, 0x10fc00, 0x10ffff, rng.randrange(0x10000, 0x110000)])
            o = cp - 0x10000
            hi, lo = 0xd800 | (o >> 10), 0xdc00 | (o & 0x3ff)
            fmt = rng.choice([b'\\u%04x\\u%04x', b'\\u%04X\\u%04X', b'\\u%04x\\u%04X'])
            cases.append(['pstr ' + hexs(rng.choice([b'', b'a', b'\\n']) + fmt % (hi, lo) + rng.choice([b'', b'z', b'\\u0041']))])
        for _ in range(3000 if thorough else 500):                              # valid literals in mixed styles
            body = text_string(rng, gen_bytes(rng, 10))[1:-1]
            if b'\n' not in body and b'\r' not in body:
                cases.append(['pstr ' + hexs(body)])
        out.append(Stream('escapes', cases, note='every byte after a backslash; truncated / damaged \\u escapes; surrogate halves and pairs; valid literals in mixed styles (pstr: implementation against the model, whose tokenizer is proved to be the RFC 8259 reference; no spec claim on the value)'))
        # 8. exhaustive short texts over a string-token alphabet
        A2 = [0x22, 0x5c, 0x75, 0x64, 0x38, 0x63, 0x30, 0x0a, 0x0d]               # " \ u d 8 c 0 LF CR
        cases = []
        for n in range(0, (5 if thorough else 4) + 1):
            for tup in itertools.product(A2, repeat=n):
                cases.append(['parse ' + hexs(b'"' + bytes(tup))])
        out.append(Stream('exhaustive-string', cases, exhaustive=True,
                          note='an opening quote followed by every byte string of length <= %d over { " \\ u d 8 c 0 LF CR }' % (5 if thorough else 4)))
        # 9. line and column: line breaks of all three kinds inside and outside strings, escaped or not, then a syntax error
        pieces_ws = [b' ', b'\t', b'\n', b'\r', b'\r\n', b'\n\r', b'\r\r\n', b'']
        pieces_v = [b'"a"', b'"l1\nl2"', b'"l1\r\nl2"', b'"l1\rl2"', b'"x\\\ny"', b'"x\\\r\ny"', b'"x\\\ry"', b'1', b'true', b'null', b'"\\n"', b'"\xc3\xa9"', b'[]', b'{"k":\n1}']
        errs = [b'!', b'"abc', b'"\\', b'"\\u12', b'tru', b'1 2', b'"\\ud800x', b'"\\ud800\\u0041"', b'}', b'', b':', b'-x', b'"a":1', b'"\n\r', b'nul\n', b'"\\\n', b'"\\\r']
        cases = []
        for _ in range(8000 if thorough else 1200):
            d = bytearray(b'[')
            for _ in range(rng.randrange(0, 6)):
                d += rng.choice(pieces_ws) + rng.choice(pieces_v) + rng.choice(pieces_ws) + b','
            d += rng.choice(pieces_ws) + rng.choice(errs) + rng.choice([b'', b']', b'\n', b'\r\n]'])
            cases.append(['parse ' + hexs(bytes(d))])
        out.append(Stream('positions', cases, note='CR / LF / CR LF inside and outside strings (raw and after a backslash), then a syntax error: line and column'))
        # 10. comments adjacent to strings and escapes: exhaustive short texts over a comment alphabet
        A3 = [0x22, 0x5c, 0x2f, 0x2a, 0x0a, 0x61]                                # " \ / * LF a
        cases = []
        for n in range(0, (7 if thorough else 6) + 1):
            for tup in itertools.product(A3, repeat=n):
                cases.append(['strip ' + hexs(bytes(tup))])
        for n in range(1, (6 if thorough else 5) + 1):                            # a lone CR / CR LF as the end of a line comment
            for tup in itertools.product(A3 + [0x0d], repeat=n):
                if 0x0d in tup:
                    cases.append(['strip ' + hexs(bytes(tup))])
        out.append(Stream('exhaustive-strip', cases, exhaustive=True,
                          note='every byte string of length <= %d over { " \\ / * LF a } and of length <= %d over { " \\ / * LF CR a }' % (
                              7 if thorough else 6, 6 if thorough else 5)))
        return out


CHECK = C15
