import os, sys, re, itertools
from vf import Check, Stream, hexs

# ----------------------------------------------------------------------------------------------
# argument pools (aimed at the case splits of the coercions and of the proofs)
# ----------------------------------------------------------------------------------------------

def dnorm(m, e):
    if m == 0:
        return (0, 0)
    while m % 2 == 0:
        m //= 2
        e += 1
    return (m, e)


def dbl(m, e):
    m, e = dnorm(m, e)
    return 'd%d_%d' % (m, e)


INTS = [0, 1, -1, 2, 127, 255, 256, 65535, 2147483647, -2147483648, -2147483647, 1000000]
UINTS = [0, 1, 255, 2147483647, 2147483648, 4294967295, 4294967294]
I64S = [0, 1, -1, 2147483648, -2147483649, 4294967296, 4294967295, 9007199254740993, -9007199254740993,
        9007199254740992, 9223372036854775807, -9223372036854775808, 9223372036854775295, 1234567890123456789]
U64S = [0, 1, 4294967296, 9007199254740993, 9223372036854775808, 18446744073709551615, 18446744073709550591,
        18446744073709551614, 12345678901234567890]
DBLS = [(0, 0), (1, 0), (-1, 0), (1, -1), (-1, -1), (3, -1), (5, -1), (-5, -1), (1, -3), (1, -21), (3, -21), (1, -20), (1, -22),
        (10000000000, 0), (1, 31), (1, 32), (1, 63), (1, 64), (-1, 31), (-1, 63), (4294967295, -1), (-4294967297, -1),
        (4294967295, 0), (8589934591, -1), (9007199254740991, 0), (9007199254740991, 11), (-9007199254740991, 10),
        (9007199254740991, -53), (1, 70), (-1, 70), (7, -2), (1234567, -10), (-1234567, -10), (15, -4), (1, -1074 + 1100),
        (123456789, -27), (2147483647, 0), (-2147483648, 0), (-2147483649, 0), (4611686018427387904, 1), (999999, -3),
        # round 5: the ends of the binary64 range and the float range (subnormals, below FLT_TRUE_MIN / above FLT_MAX, DBL_MAX)
        (1, -1074), (-1, -1074), (3, -1074), (1, -1022), (-1, -1022), (4503599627370495, -1074), (1, -150), (-1, -150), (1, -149),
        (1, -126), (1, -127), (1, 127), (16777215, 104), (1, 128), (-1, 128), (9007199254740991, 971), (-9007199254740991, 971),
        (1, 1023), (-1, 1023), (1, 300), (1, -300), (5, -70), (1, 100)]
STRS = ['', '0', '1', '-1', '+5', '  42', '007', '0.0', '0.', '00.00', '.0', '0.5', '-0.5', '.5', '5.', 'false', 'FALSE', 'False',
        'falsE', 'true', 'abc', '1e3', '1E-2', '2.5e1', '12abc', '99999999999', '-99999999999', '9223372036854775807',
        '9223372036854775808', '-9223372036854775808', '-9223372036854775809', '18446744073709551615', '18446744073709551616',
        '-18446744073709551615', '-18446744073709551616', '-1', '-5', '4294967296', '4294967295', '2147483648', '-2147483649',
        ' \t\n5', '\v\f\r7', '1.0000005', '0.1', '3.14159', '1e22', '1e23', '123456789012345678', '-', '+', 'e5', '1e', '1e+',
        '1.5.5', '\xc3\xa9', '0 ', '00', '0.000', '0.00x', '000.', '.', '00.', 'x0', '0x', '+-5', '-+5', '- 5', '1e-7', '2.5',
        '0.5000005', '1.0000015', '0.0000005', '0.00000049', '1.9999995', '99999999999999999999999', '-99999999999999999999999',
        '1e15', '8.5e-3', '.e5', '5e', '5e-', '5ee5', 'fals', 'falsee', '0false', 'tru', '1.0', '01.0', '0.10', '0..', '0.0.',
        '9007199254740993', '4503599627370497.5', '1e2x', ' +0.0', '0e0', '0.0e5', '00.0e', 'Fa1se', '127', '32768',
        # round 5: String is length-counted, the conversions read a C string: values with a NUL byte
        'a\0b', '\0', '12\x0034', 'false\0', 'fals\0e', '0\0', '0\x001', '1\0', '\x005', '0.\x005', '-7\0x', 'ab\0', '\0\0', 'true\0false',
        '2147483647', '-2147483648', '2147483648', '-1\x0099']
KEYS = ['', 'a', 'b', 'k', 'ab', 'a\0', 'a\0b']
APPS = ['', 'x', '0', '.5', 'e1', 'yz', '\0', '\x007', 'q\0r']


def hx(s):
    if isinstance(s, str):
        s = s.encode('latin-1')
    return hexs(s)


BAD_STR = re.compile(r'^[ \t\n\v\f\r]*[+-]?(inf|nan|0x)', re.I)
BIG_EXP = re.compile(r'[eE][+-]?\d{3,}')


def str_ok(s):
    c = s.split('\0')[0]      # NUL bytes are allowed (round 5); the conversions read the C-string prefix
    return not BAD_STR.search(c) and not BIG_EXP.search(c)


def scalars(rng):
    out = ['n', 'b0', 'b1']
    out += ['i%d' % z for z in INTS] + ['u%d' % z for z in UINTS] + ['I%d' % z for z in I64S] + ['U%d' % z for z in U64S]
    out += [dbl(m, e) for (m, e) in DBLS]
    return out


def rand_scalar(rng):
    r = rng.random()
    if r < 0.08:
        return 'n'
    if r < 0.16:
        return rng.choice(['b0', 'b1'])
    if r < 0.36:
        return 'i%d' % rng.choice(INTS + [rng.randrange(-2 ** 31, 2 ** 31)])
    if r < 0.5:
        return 'u%d' % rng.choice(UINTS + [rng.randrange(0, 2 ** 32)])
    if r < 0.64:
        return 'I%d' % rng.choice(I64S + [rng.randrange(-2 ** 63, 2 ** 63)])
    if r < 0.78:
        return 'U%d' % rng.choice(U64S + [rng.randrange(0, 2 ** 64)])
    if rng.random() < 0.6:
        m, e = rng.choice(DBLS)
    else:
        # any m * 2^e with |m| < 2^53 and -1074 <= e <= 971 is a binary64 value (subnormal, normal, up to DBL_MAX)
        m, e = rng.randrange(-2 ** 53 + 1, 2 ** 53), (rng.randrange(-60, 40) if rng.random() < 0.6 else rng.randrange(-1074, 972))
    return dbl(m, e)


def dbl_huge(tok):
    """a double token whose magnitude is within a factor 10^9 of DBL_MAX"""
    if not (tok.startswith('d') and '_' in tok):
        return False
    m, e = tok[1:].split('_')
    return abs(int(m)).bit_length() + int(e) > 990


def rand_str(rng):
    if rng.random() < 0.7:
        return rng.choice(STRS)
    for _ in range(50):
        s = ''.join(rng.choice('0123456789..-+eE fFaAlLsS xt\t5\0') for _ in range(rng.randrange(0, 9)))
        if str_ok(s):
            return s
    return '1'


# ----------------------------------------------------------------------------------------------
# a small shadow of the value semantics, only used to aim paths at existing nodes
# ----------------------------------------------------------------------------------------------

class Shadow:
    def __init__(self, k):
        self.v = [('n',)] * k

    @staticmethod
    def vopen(k, v):
        if v[0] == 'node' and v[1] == k:
            return list(v[2]), list(v[3])
        return [], []

    @staticmethod
    def find(keys, n, sel):
        if sel[0] == '#':
            return sel[1] if sel[1] < n else None
        if sel[1] in keys:
            i = keys.index(sel[1])
            return i if i < n else None
        return None

    def upd(self, path, leaf, v):
        if not path:
            return leaf(v), True
        (k, sel) = path[0]
        keys, ch = self.vopen(k, v)
        i = self.find(keys, len(ch), sel)
        if i is None:
            return ('node', k, keys, ch), False
        c, ok = self.upd(path[1:], leaf, ch[i])
        ch[i] = c
        return ('node', k, keys, ch), ok

    def read(self, path, v):
        for (k, sel) in path:
            keys, ch = self.vopen(k, v)
            i = self.find(keys, len(ch), sel)
            if i is None:
                return None
            v = ch[i]
        return v

    def cop(self, k, c, arg, keys, ch):
        if c[0] == 'ins':
            n, key = c[1], c[2]
            if k == 'm':
                if key in keys:
                    ch[keys.index(key)] = arg
                else:
                    n = min(n, len(ch))
                    keys.insert(n, key)
                    ch.insert(n, arg)
            else:
                ch.insert(min(n, len(ch)), arg)
        elif c[0] == 'rem':
            if c[1] < len(ch):
                del ch[c[1]]
                if c[1] < len(keys):
                    del keys[c[1]]
        elif c[0] == 'remkey':
            if c[1] in keys:
                i = keys.index(c[1])
                del keys[i]
                del ch[i]
        elif c[0] == 'clr':
            keys, ch = [], []
        return keys, ch

    def cont(self, k, c, arg):
        def leaf(v):
            keys, ch = self.vopen(k, v)
            keys, ch = self.cop(k, c, arg, keys, ch)
            return ('node', k, keys, ch)
        return leaf

    def rand_path(self, rng, i, p_stop=0.45, invalid=0.0):
        """a path into variable i, mostly to an existing node"""
        v = self.v[i]
        path = []
        while len(path) < 5:
            if rng.random() < invalid:
                path.append((rng.choice('mla'), rng.choice([('#', rng.randrange(0, 4)), ('=', rng.choice(KEYS))])))
                return path
            if v[0] != 'node' or not v[3] or rng.random() < p_stop:
                return path
            k = v[1]
            i2 = rng.randrange(len(v[3]))
            if k == 'm' and rng.random() < 0.7:
                path.append((k, ('=', v[2][i2])))
            else:
                path.append((k, ('#', i2)))
            v = v[3][i2]
        return path


def path_tok(path):
    if not path:
        return '-'
    return '/'.join('%s%s%s' % (k, s[0], (str(s[1]) if s[0] == '#' else hx(s[1]))) for (k, s) in path)


def cop_tok(c):
    if c[0] == 'ins':
        return 'ins:%d:%s' % (c[1], hx(c[2]))
    if c[0] == 'rem':
        return 'rem:%d' % c[1]
    if c[0] == 'remkey':
        return 'remkey:%s' % hx(c[1])
    return c[0]


def kind_of(v):
    return v[1] if v[0] == 'node' else None


def history(rng, k, n, nested=0.5, invalid=0.03, aliasing=True, special=0.0):
    """a random history over k variables; returns op lines (the shadow keeps paths mostly valid).
    special > 0: a scalar is an infinity or -0 with that probability, and toString()-through-the-mutable-accessor
    operations (strtouch / strapp) are replaced by scalar assignments (see the stand-in oracle below)"""
    sh = Shadow(k)
    rand_scalar0 = globals()['rand_scalar']
    def rand_scalar(rng):
        return rng.choice(NESTED_SPECIALS) if (special and rng.random() < special) else rand_scalar0(rng)
    ops = []
    for _ in range(n):
        r = rng.random()
        i = rng.randrange(k)
        j = rng.randrange(k)
        if rng.random() < invalid:
            i = rng.choice([k, k + 1, i])
        p = sh.rand_path(rng, i if i < k else 0, p_stop=1 - nested, invalid=invalid) if i < k else []
        tgt = sh.read(p, sh.v[i]) if i < k else None
        if r < 0.10 or (special and 0.57 <= r < 0.62):
            s = rand_scalar(rng)
            ops.append('sets %d %s %s' % (i, path_tok(p), s))
            if i < k:
                sh.v[i], _ = sh.upd(p, lambda v: ('s', s), sh.v[i])
        elif r < 0.17:
            s = rand_str(rng)
            ops.append('setstr %d %s %s' % (i, path_tok(p), hx(s)))
            if i < k:
                sh.v[i], _ = sh.upd(p, lambda v: ('str', s), sh.v[i])
        elif r < 0.27:
            kd = rng.choice('mla')
            items = [(rng.choice(KEYS) if kd == 'm' else '', rng.randrange(k)) for _ in range(rng.choice([0, 1, 2, 2, 3, 4]))]
            ops.append('setnode %d %s %s %s' % (i, path_tok(p), kd, ','.join('%s:%d' % (hx(a), b) for a, b in items) or '-'))
            if i < k:
                keys, ch = [], []
                for a, b in items:
                    keys, ch = sh.cop(kd, ('ins', len(ch), a), sh.v[b], keys, ch)
                nv = ('node', kd, keys if kd == 'm' else [], ch)
                sh.v[i], _ = sh.upd(p, lambda v: nv, sh.v[i])
        elif r < 0.45:
            sp = sh.rand_path(rng, j, p_stop=0.5, invalid=invalid)
            ops.append('assign %d %s %d %s' % (i, path_tok(p), j, path_tok(sp)))
            if i < k:
                v1, ok = sh.upd(p, lambda v: v, sh.v[i])
                sh.v[i] = v1
                if ok:
                    x = sh.read(sp, sh.v[j])
                    if x is not None:
                        sh.v[i], _ = sh.upd(p, lambda v: x, sh.v[i])
        elif r < 0.462 and i < k:
            # the converting constructors (root only)
            r3 = rng.random()
            if r3 < 0.45:
                sc = rand_scalar(rng)
                ops.append('csets %d %s' % (i, sc))
                sh.v[i] = ('s', sc)
            elif r3 < 0.7:
                st = rand_str(rng)
                ops.append('csetstr %d %s' % (i, hx(st)))
                sh.v[i] = ('str', st)
            else:
                kd = rng.choice('mla')
                items = [(rng.choice(KEYS) if kd == 'm' else '', rng.randrange(k)) for _ in range(rng.choice([0, 1, 2, 3]))]
                ops.append('csetnode %d %s %s' % (i, kd, ','.join('%s:%d' % (hx(a), b) for a, b in items) or '-'))
                keys, ch = [], []
                for a, b in items:
                    keys, ch = sh.cop(kd, ('ins', len(ch), a), sh.v[b], keys, ch)
                sh.v[i] = ('node', kd, keys if kd == 'm' else [], ch)
        elif r < 0.49:
            ops.append('clear %d %s' % (i, path_tok(p)))
            if i < k:
                sh.v[i], _ = sh.upd(p, lambda v: ('n',), sh.v[i])
        elif r < 0.53:
            ops.append('swap %d %d' % (i, j))
            if i < k:
                sh.v[i], sh.v[j] = sh.v[j], sh.v[i]
        elif r < 0.57:
            ops.append('copynew %d %d' % (i, j))
            if i < k and i != j:
                sh.v[i] = sh.v[j]
        elif r < 0.62:
            # the %f text of a double near DBL_MAX followed by an exponent suffix would be a decimal string beyond the binary64
            # range (strtod overflows to inf; outside the reference parse_dbl, like BIG_EXP): no exponent suffix there
            huge = tgt is not None and ((tgt[0] == 's' and dbl_huge(tgt[1])) or (tgt[0] == 'str' and tgt[1] == '?huge'))
            if rng.random() < 0.4:
                ops.append('strtouch %d %s' % (i, path_tok(p)))
            else:
                ops.append('strapp %d %s %s' % (i, path_tok(p), hx(rng.choice([a for a in APPS if 'e' not in a] if huge else APPS))))
            if i < k:
                sh.v[i], _ = sh.upd(p, lambda v: v if v[0] == 'str' else ('str', '?huge' if huge else '?'), sh.v[i])
        elif r < 0.71 and aliasing and i < k:
            # assignment from a reference into a payload, mostly into the assigned Variant's own payload
            if rng.random() < 0.7:
                j = i
            jj = j if j < k else 0
            if jj == i and rng.random() < 0.6:
                # a descendant of (or the same node as) the destination
                sub = sh.read(p, sh.v[i])
                rest = []
                v = sub
                while v is not None and v[0] == 'node' and v[3] and len(rest) < 3 and rng.random() < 0.8:
                    i2 = rng.randrange(len(v[3]))
                    rest.append((v[1], ('=', v[2][i2]) if v[1] == 'm' and rng.random() < 0.6 else ('#', i2)))
                    v = v[3][i2]
                sp = (p + rest) if sub is not None else sh.rand_path(rng, jj, p_stop=0.3)
            else:
                sp = sh.rand_path(rng, jj, p_stop=0.3, invalid=invalid)
            src = sh.read(sp, sh.v[jj])
            if src is not None and src[0] == 'str' and rng.random() < 0.9 or rng.random() < 0.15:
                ops.append('assignstr %d %s %d %s' % (i, path_tok(p), j, path_tok(sp)))
                if src is not None and src[0] == 'str':
                    v1, ok = sh.upd(p, lambda v: v, sh.v[i])
                    sh.v[i] = v1
                    if ok:
                        sh.v[i], _ = sh.upd(p, lambda v: src, sh.v[i])
            else:
                kd = src[1] if (src is not None and src[0] == 'node' and rng.random() < 0.85) else rng.choice('mla')
                ops.append('assignnode %d %s %d %s %s' % (i, path_tok(p), j, path_tok(sp), kd))
                v1, ok = sh.upd(p, lambda v: v, sh.v[i])
                sh.v[i] = v1
                if ok:
                    x = sh.read(sp, sh.v[jj])
                    if x is not None:
                        keys, ch = sh.vopen(kd, x)
                        nv = ('node', kd, keys, ch)
                        sh.v[i], _ = sh.upd(p, lambda v: nv, sh.v[i])
        else:
            tk = kind_of(tgt) if tgt is not None else None
            kd = tk if (tk and rng.random() < 0.88) else rng.choice('mla')
            n_ch = len(tgt[3]) if tk else 0
            r2 = rng.random()
            if r2 < 0.5:
                pos = 9999 if kd == 'a' else rng.choice([0, 9999, 9999, rng.randrange(0, n_ch + 1)])
                key = rng.choice(KEYS) if kd == 'm' else ''
                c = ('ins', pos, key)
            elif r2 < 0.7:
                c = ('rem', rng.choice([0, max(0, n_ch - 1), rng.randrange(0, n_ch + 1)]))
            elif r2 < 0.8:
                c = ('remkey', rng.choice(KEYS))
            elif r2 < 0.9:
                c = ('touch',)
            else:
                c = ('clr',)
            sp = sh.rand_path(rng, j, p_stop=0.5, invalid=invalid)
            ops.append('cont %d %s %s %s %d %s' % (i, path_tok(p), kd, cop_tok(c), j, path_tok(sp)))
            if i < k:
                v1, ok = sh.upd(p, sh.cont(kd, ('touch',), None), sh.v[i])
                sh.v[i] = v1
                if ok:
                    if c[0] == 'ins':
                        x = sh.read(sp, sh.v[j])
                        if x is not None:
                            sh.v[i], _ = sh.upd(p, sh.cont(kd, c, x), sh.v[i])
                    else:
                        sh.v[i], _ = sh.upd(p, sh.cont(kd, c, None), sh.v[i])
    return ops



# ----------------------------------------------------------------------------------------------
# the copy-on-write case splits of the proofs (VariantRefine.open_mut_ok, VariantStep.mcop_ok / mupd_ok):
#   payload of the target  x  who else holds it  x  root / nested position (outer and inner sharing)
#   x  which operation opens it for writing (accessor kind matching or not, mutation, reassignment)
# ----------------------------------------------------------------------------------------------
PAYLOADS = {
    'null': [],
    'int': ['sets %v - i5'],
    'dbl': ['sets %v - d3_-1'],
    'str': ['setstr %v - 6162'],
    'list': ['setnode %v - l -:2,-:2'],
    'array': ['setnode %v - a -:2,-:2'],
    'map': ['setnode %v - m 61:2,62:2'],
    'list2': ['setnode %v - l -:2', 'setnode %v - l -:%v,-:2', 'cont %v - l ins:9999:- %v l#0'],   # [[z],z,[z]] sharing its own child block
    # containers holding an exclusively owned container of the same kind (the argument of `v = v.toList().front().toList()`)
    'listlist': ['setnode %v - l -:2,-:2', 'setnode %v - l -:%v,-:2'],                           # [[z,z],z]
    'arrarr': ['setnode %v - a -:2', 'setnode %v - a -:%v,-:2'],                                 # [[z],z] (arrays)
    'mapmap': ['setnode %v - m 62:2', 'setnode %v - m 61:%v,62:2'],                              # {a:{b:z},b:z}
}
SHARERS = {
    'none': [],
    'copy': ['copynew 1 0'],
    'assign': ['assign 1 - 0 -'],
    'held-twice': ['setnode 1 - l -:0,-:0'],
    'held-in-map': ['setnode 1 - m 6b:0', 'setnode 1 - a -:1'],
}
# nested position: variable 0 = [P, z]; P may also be held by variable 1 (inner shared) and the outer list may be shared too
NESTINGS = {
    'root': None,
    'in-ex-out-ex': ['setnode 0 - l -:1,-:2', 'clear 1 -'],
    'in-sh-out-ex': ['setnode 0 - l -:1,-:2'],
    'in-ex-out-sh': ['setnode 0 - l -:1,-:2', 'copynew 1 0'],
    'in-sh-out-sh': ['setnode 0 - l -:1,-:2', 'setnode 3 - l -:0,-:1'],
}


def write_ops(tp):
    ops = []
    for kd in 'lam':
        ops += ['cont 0 %s %s touch 2 -' % (tp, kd), 'cont 0 %s %s ins:9999:6b 2 -' % (tp, kd),
                'cont 0 %s %s ins:%d:61 2 -' % (tp, kd, 9999 if kd == 'a' else 0),       # Array has no insert-at: append only
                'cont 0 %s %s rem:0 2 -' % (tp, kd), 'cont 0 %s %s rem:1 2 -' % (tp, kd), 'cont 0 %s %s clr 2 -' % (tp, kd),
                'cont 0 %s %s ins:9999:6b 1 -' % (tp, kd)]
    ops += ['cont 0 %s m remkey:61 2 -' % tp, 'cont 0 %s m remkey:7a 2 -' % tp]
    ops += ['strtouch 0 %s' % tp, 'strapp 0 %s 78' % tp, 'strapp 0 %s -' % tp]
    ops += ['sets 0 %s %s' % (tp, a) for a in ['n', 'b1', 'i7', 'u7', 'I7', 'U7', 'd1_0']]
    ops += ['setstr 0 %s 71' % tp, 'setstr 0 %s -' % tp, 'setnode 0 %s l -:2' % tp, 'setnode 0 %s m 61:0' % tp, 'setnode 0 %s a -' % tp,
            'clear 0 %s' % tp, 'assign 0 %s 2 -' % tp, 'assign 0 %s 1 -' % tp, 'assign 1 - 0 %s' % tp]
    # assignment from a reference into a payload (operator=(const String&/List&/Array&/HashMap&)): from another
    # variable, from the destination itself, from a descendant, from an ancestor
    for kd in 'lam':
        ops += ['assignnode 0 %s 1 - %s' % (tp, kd), 'assignnode 0 %s 0 %s %s' % (tp, tp, kd)]
    ops += ['assignstr 0 %s 2 -' % tp, 'assignstr 0 %s 0 %s' % (tp, tp), 'assignstr 0 %s 1 -' % tp]
    if tp == '-':
        ops += ['assignnode 0 - 0 l#0 l', 'assignnode 0 - 0 l#2 l', 'assignnode 0 - 0 m=61 m', 'assignnode 0 - 0 a#0 a',
                'assignnode 0 - 0 l#0 a', 'assignnode 0 - 0 m=61 l', 'assignstr 0 - 0 l#0', 'assignstr 0 - 0 l#1',
                'assignstr 0 - 0 m=61', 'assignstr 0 - 0 m=62', 'assignstr 0 - 0 a#1', 'assignstr 0 - 0 l#0/l#0',
                'assignstr 0 - 0 m=61/m=62', 'assignstr 0 l#1 0 l#0/l#0', 'assignnode 0 l#1 0 l#0 l']
    else:
        for kd in 'lam':
            ops += ['assignnode 0 - 0 %s %s' % (tp, kd), 'assignnode 0 %s 0 - %s' % (tp, kd),
                    'assignnode 0 %s 0 %s/%s#0 %s' % (tp, tp, kd, kd)]
        ops += ['assignstr 0 - 0 %s' % tp, 'assignstr 0 %s 0 %s/l#0' % (tp, tp), 'assignstr 0 %s 0 %s/m=62' % (tp, tp),
                'assignstr 0 - 0 l#1', 'assignstr 0 %s 0 l#1' % tp, 'assignstr 0 - 0 %s/l#0' % tp]
    if tp == '-':
        ops += ['assign 0 - 0 l#0', 'assign 0 - 0 m=61', 'assign 0 - 0 a#1', 'swap 0 1', 'swap 0 0', 'copynew 0 2', 'copynew 0 1',
                'sets 0 l#0 i7', 'strapp 0 l#1 78', 'strapp 0 m=62 78', 'strapp 0 a#0 78', 'cont 0 l#0 l ins:0:- 0 l#1']
    else:
        ops += ['assign 0 - 0 %s' % tp, 'assign 0 %s 0 l#1' % tp, 'sets 0 %s/l#0 i7' % tp, 'strapp 0 %s/l#0 78' % tp,
                'strapp 0 %s/m=61 78' % tp, 'cont 0 %s/l#0 l ins:0:- 2 -' % tp]
    return ops


PROBES = ['sets 2 - i9', 'strapp 1 - 79', 'clear 1 -', 'cont 1 - l ins:0:- 2 -', 'clear 0 -']


def cowsplit_cases():
    cases = []
    for pn, pl in PAYLOADS.items():
        for nn, nest in NESTINGS.items():
            if nest is None:
                for sn, sh in SHARERS.items():
                    pre = ['setstr 2 - 7a'] + [l.replace('%v', '0') for l in pl] + sh
                    for w in write_ops('-'):
                        cases.append(['@4'] + pre + [w] + PROBES)
            else:
                pre = ['setstr 2 - 7a'] + [l.replace('%v', '1') for l in pl] + nest
                for w in write_ops('l#0'):
                    cases.append(['@4'] + pre + [w] + PROBES)
    return cases


# ----------------------------------------------------------------------------------------------
# infinities, negative zero (and NaN): outside the Coq value model (doubles there are exact dyadics).  Infinities and -0
# are inside the property ("floating values other than NaN").  Cases whose operands include dinf / d-inf / d-0 / dnan
# are answered in one of two ways instead of directly by the extracted Spec/Model:
#  (a) root-level scalar histories (set / construct / assign / swap / copy / clear of whole variables): the small
#      python oracle below - what IEEE and printf("%f") prescribe for the special values is written out here,
#      everything about the ordinary operands (their coercions) is taken from the extracted Spec.  NaN only here;
#      the property excludes NaN, so the expected (spec) observation of a variable holding NaN and every == with
#      it is `?`; what IEEE says is kept on the model side (correspondence only).
#  (b) every other history (special doubles inside lists / arrays / maps, at any depth, copied, compared,
#      reassigned; round 5): the extracted Spec/Model is run on the case with each infinity replaced by a
#      finite stand-in that no generator produces (+-9007199254740989 * 2^12, above 2^64) and -0 by 0, and the stand-in is
#      renamed in the answer.  This is exact because no operation branches on a scalar's value and the stand-in
#      agrees with the infinity on everything observed except its name and its %f text: toBool true, every
#      float -> integer cast undefined, equal to itself and to nothing else that is generated (strings reading as
#      "inf" are excluded by BAD_STR).  -0 agrees with 0 on everything observed except its name in a dump and, for a
#      root-level variable, toDouble() and the %f text ("-0.000000"); these are patched where a second run with a
#      marked stand-in shows the -0 has travelled.  strtouch / strapp (which would turn the stand-in's text into a string payload) are not part
#      of these cases.
# ----------------------------------------------------------------------------------------------
SPECIALS = {          # token: (dump, isNull, toBool, toInt.., toDouble token, toString, float)
    'dinf': ('dinf', '0', '1', 'ub', 'ub', 'ub', 'ub', 'dinf', 'inf', float('inf')),
    'd-inf': ('d-inf', '0', '1', 'ub', 'ub', 'ub', 'ub', 'd-inf', '-inf', float('-inf')),
    'd-0': ('d-0', '0', '0', '0', '0', '0', '0', 'd-0', '-0.000000', -0.0),     # the sign shows in the dump, toDouble() and %f
    'dnan': ('dnan', '0', '1', 'ub', 'ub', 'ub', 'ub', 'dnan', 'nan', float('nan')),
}
SPECIAL_RE = re.compile(r'(^| )d(inf|-inf|-0|nan)( |$)')
COMPANIONS = ['n', 'b0', 'b1', 'i0', 'i1', 'i-1', 'i2147483647', 'u0', 'u4294967295', 'I0', 'I-9223372036854775808', 'U0',
              'U18446744073709551615', 'd0_0', 'd1_0', 'd-1_0', 'd1_-1', 'd1_64', 'd-1_70', 'd1_-30',
              'd1_-1074', 'd-1_-1074', 'd1_-1022', 'd1_-150', 'd-1_-149', 'd1_127', 'd1_128', 'd-1_128',
              'd9007199254740991_971', 'd-9007199254740991_971']
TYPECODE = {'n': 0, 'b': 1, 'd': 2, 'i': 3, 'u': 4, 'I': 5, 'U': 6}
STANDIN_M = 9007199254740989
STANDIN = {'dinf': 'd%d_12' % STANDIN_M, 'd-inf': 'd-%d_12' % STANDIN_M}      # 3.7e19 > 2^64: every integer cast undefined
STANDIN_TEXT = hexs(('%d.000000' % (STANDIN_M * 2 ** 12)).encode())
NEGZERO_MARK = 'd-3_-1074'
ROOT_OPS = ('sets', 'csets', 'assign', 'copynew', 'swap', 'clear')


def is_special_case(case):
    return any(SPECIAL_RE.search(l) for l in case)


def is_root_scalar_case(case):
    """inside the language of SpecialOracle (a)"""
    for l in case:
        if l.startswith('@'):
            continue
        t = l.split()
        if t[0] not in ROOT_OPS:
            return False
        if t[0] in ('sets', 'clear') and t[2] != '-':
            return False
        if t[0] == 'assign' and (len(t) != 5 or t[2] != '-' or t[4] != '-'):
            return False
    return True


def dbl_tok_value(tok):
    import math
    if tok in ('dinf', 'd-inf', 'dnan'):
        return float(tok[1:])
    if tok == 'd-0':
        return -0.0
    m, e = tok[1:].split('_')
    return math.ldexp(float(int(m)), int(e))       # exact: |m| < 2^53, result inside the binary64 range


class SpecialOracle:
    """value model of root-level scalar histories with special doubles"""

    def __init__(self, coercions_of):
        self.coercions_of = coercions_of      # ordinary token -> 'null,b,i,u,I,U,dtok,strhex' (from the extracted Spec)

    def co(self, tok):
        if tok in SPECIALS:
            sp = SPECIALS[tok]
            return list(sp[1:8]) + [hexs(sp[8].encode())]
        return self.coercions_of(tok).split(',')

    def dump(self, tok):
        return SPECIALS[tok][0] if tok in SPECIALS else tok

    def dval(self, tok):
        return SPECIALS[tok][9] if tok in SPECIALS else dbl_tok_value(tok)

    def eq(self, a, b):
        """Variant::operator== with lhs a: the lhs alternative decides, the rhs is coerced"""
        cb = self.co(b)
        k = a[0]
        if k == 'n':
            return 't' if b == 'n' else 'f'
        if k == 'b':
            return 't' if a[1] == cb[1] else 'f'
        if k == 'd':
            return 't' if self.dval(a) == dbl_tok_value(cb[6]) else 'f'
        x = cb[{'i': 2, 'u': 3, 'I': 4, 'U': 5}[k]]
        if x == 'ub':
            return 'u'
        return 't' if int(a[1:]) == int(x) else 'f'

    def run(self, case, with_shape):
        cfg = case[0][1:].split() if case and case[0].startswith('@') else []
        k = int(cfg[0]) if cfg else 3
        v = ['n'] * k
        out = []
        for l in (case[1:] if case and case[0].startswith('@') else case):
            t = l.split()
            res = 'done'
            try:
                if t[0] == 'sets' and t[2] == '-':
                    v[int(t[1])] = t[3]
                elif t[0] == 'csets':
                    v[int(t[1])] = t[2]
                elif t[0] == 'assign' and t[2] == '-' and t[4] == '-':
                    v[int(t[1])] = v[int(t[3])]
                elif t[0] == 'copynew':
                    if t[1] == t[2]:
                        res = 'badvar'
                    else:
                        v[int(t[1])] = v[int(t[2])]
                elif t[0] == 'swap':
                    i, j = int(t[1]), int(t[2])
                    v[i], v[j] = v[j], v[i]
                elif t[0] == 'clear' and t[2] == '-':
                    v[int(t[1])] = 'n'
                else:
                    res = '?outside-the-special-oracle'
            except IndexError:
                res = 'badvar'
            # the property excludes NaN: on the spec side nothing is expected of a variable holding it, nor of an == with it;
            # the model side keeps what IEEE prescribes (correspondence only)
            open_ = (lambda x: x == 'dnan') if not with_shape else (lambda x: False)
            line = '%s | %s | %s | %s' % (res, ' '.join('?' if open_(x) else '%d:%s' % (TYPECODE[x[0]], self.dump(x)) for x in v),
                                          ' '.join('?' if open_(x) else ','.join(self.co(x)) for x in v),
                                          ''.join('?' if (open_(a) or open_(b)) else self.eq(a, b) for a in v for b in v))
            if with_shape:
                line += ' | ' + ' '.join('.' for _ in v) + ' live=0'
            out.append(line)
        out.append('end leak=0')
        return out


def standin_case(case, negzero):
    out = []
    for l in case:
        t = l.split(' ')
        if t[0] in ('sets', 'csets'):
            x = t[-1]
            if x in STANDIN:
                t[-1] = STANDIN[x]
            elif x == 'd-0':
                t[-1] = negzero
        out.append(' '.join(t))
    return out


def standin_rename(line):
    line = line.replace(STANDIN['d-inf'], 'd-inf').replace(STANDIN['dinf'], 'dinf')
    return line.replace(STANDIN_TEXT, hexs(b'inf'))


def standin_patch_negzero(line_a, line_b):
    """line_a: answer with -0 run as 0; line_b: answer with -0 run as NEGZERO_MARK (same shape: no operation branches on
    a scalar).  Where the marked value has travelled there is a -0: the dumps are taken from line_b with the mark renamed,
    and a root-level variable holding it reports toDouble() -0 and the %f text "-0.000000"; everything else (the other
    coercions, the == matrix, the heap shape) is that of 0."""
    sa, sb = line_a.split(' | '), line_b.split(' | ')
    if len(sa) < 3 or len(sb) < 3:
        return line_a
    dumps_b = sb[1].split(' ')
    co = sa[2].split(' ')
    for i, d in enumerate(dumps_b):
        if d == '2:' + NEGZERO_MARK and i < len(co):
            f = co[i].split(',')
            f[-1] = hexs(b'-0.000000')
            f[-2] = 'd-0'
            co[i] = ','.join(f)
    sa[1] = re.sub(r'(?<![0-9_])%s(?![0-9])' % re.escape(NEGZERO_MARK), 'd-0', sb[1])
    sa[2] = ' '.join(co)
    return ' | '.join(sa)


def outside_lines(case, with_shape):
    n = len([l for l in case if not l.startswith('@')])
    return ['?outside-the-special-oracle'] * n + ['end leak=0']


def special_cases(rng, thorough):
    toks = list(SPECIALS) + COMPANIONS
    cases = []
    n = 0
    for a in toks:
        for b in toks:
            if a not in SPECIALS and b not in SPECIALS:
                continue
            n += 1
            c = ['@3', ('csets 0 %s' % a) if n % 2 else ('sets 0 - %s' % a), ('csets 1 %s' % b) if n % 3 == 0 else ('sets 1 - %s' % b),
                 'assign 2 - 0 -', 'swap 0 1', 'copynew 1 2', 'sets 2 - %s' % b, 'clear 0 -']
            cases.append(c)
    return cases


NESTED_SPECIALS = ['dinf', 'd-inf', 'd-0']


def special_nested_cases(rng, thorough):
    """infinities and -0 inside containers (every kind, two levels), copied, compared with each other / with their copy /
    with ordinary scalars and strings at the same position, then written through the mutable accessors; plus random
    nested histories whose scalars are special with probability 1/3"""
    cases = []
    others = ['d0_0', 'd1_0', 'i0', 'I-1', 'b1', 'n', 'd1_1023', 'd-1_-1074', 'U18446744073709551615']
    n = 0
    for a in NESTED_SPECIALS:
        for b in NESTED_SPECIALS + others:
            for kd in 'lam':
                n += 1
                items = {'l': '-:2,-:3', 'a': '-:2,-:3', 'm': '61:2,6b:3'}[kd]
                first = {'l': 'l#0', 'a': 'a#0', 'm': 'm=61'}[kd]
                second = {'l': 'l#1', 'a': 'a#1', 'm': 'm#1'}[kd]
                c = ['@4', 'sets 2 - %s' % a, ('csets 3 %s' % b) if n % 2 else ('sets 3 - %s' % b),
                     'setnode 0 - %s %s' % (kd, items),                   # 0 = [a, b]
                     ('copynew 1 0' if n % 3 else 'assign 1 - 0 -'),      # shares the payload
                     'sets 1 %s %s' % (second, a),                        # copy-on-write: 1 = [a, a], 0 unchanged
                     'assign 3 - 0 %s' % first,                           # the special value read out of the container
                     'cont 0 - %s ins:9999:7a 1 %s' % (kd, second),        # 0 = [a, b, a]
                     'setnode 2 - l -:0,-:1',                             # two levels: [[a,b,a],[a,a]]
                     'assign 1 - 2 l#0',                                  # 1 == 0 again, by value, through another path
                     'sets 2 l#1/%s %s' % (first, b), 'swap 0 2', 'clear 1 -']
                cases.append(c)
    strs = ['0', '-0.000000', '0.000000', '', 'abc', '1e22']      # string vs special (BAD_STR keeps text reading as inf out)
    for a in NESTED_SPECIALS:
        for st in strs:
            if str_ok(st):
                cases.append(['@3', 'sets 0 - %s' % a, 'setstr 1 - %s' % hx(st), 'setnode 2 - l -:0,-:1', 'assign 0 - 2 -',
                              'assign 1 - 2 l#1', 'cont 2 - l rem:0 0 -', 'assign 1 - 0 l#0'])
    for _ in range(400 if thorough else 110):
        k = rng.choice([2, 3, 4])
        cases.append(['@%d' % k] + history(rng, k, rng.randrange(6, 22), nested=0.6, invalid=0.02, special=0.34))
    return [c for c in cases if is_special_case(c)]


OPEN_WITNESS = 'corpus/C07/open/self-containing.ops'


def open_witness_cases():
    cases, cur = [], None
    path = os.path.join(os.path.dirname(os.path.abspath(__file__)), '..', OPEN_WITNESS)
    for line in open(path).read().split('\n'):
        if line.startswith('case'):
            cur = []
        elif line == 'end':
            if cur is not None:
                cases.append(cur)
            cur = None
        elif cur is not None and line and not line.startswith('#'):
            cur.append(line)
    return cases


def maporder_cases():
    cases = []
    # variable 2 = "z", 3 = 7; 0 and 1 = maps
    pre = ['@4', 'setstr 2 - 7a', 'sets 3 - i7']
    builds = {
        'ab': ['setnode %v - m 61:2,62:3'],
        'ba': ['setnode %v - m 62:3,61:2'],                                        # same entries, other order
        'ba-front': ['setnode %v - m 62:3', 'cont %v - m ins:0:61 2 -'],            # a inserted in front of b: order a, b
        'ab-reins': ['setnode %v - m 61:2,62:3', 'cont %v - m remkey:61 2 -', 'cont %v - m ins:9999:61 2 -'],   # order b, a
        'ab-swapvals': ['setnode %v - m 61:3,62:2'],                               # same keys, other values
        'ba-swapvals': ['setnode %v - m 62:2,61:3'],
        'ac': ['setnode %v - m 61:2,63:3'],                                        # another key set
        'a': ['setnode %v - m 61:2'],
        'abc': ['setnode %v - m 61:2,62:3,63:2'], 'cab': ['setnode %v - m 63:2,61:2,62:3'], 'bca': ['setnode %v - m 62:3,63:2,61:2'],
        'a0b': ['setnode %v - m 6100:2,61:3'], 'ba0': ['setnode %v - m 61:3,6100:2'],
    }
    names = list(builds)
    for x in names:
        for y in names:
            if x >= y:
                continue
            b = [l.replace('%v', '0') for l in builds[x]] + [l.replace('%v', '1') for l in builds[y]]
            cases.append(pre + b)
            # nested: as list items, and as values of an outer map; then a copy of one side compared with the other
            cases.append(pre + b + ['setnode 2 - l -:0,-:3', 'setnode 3 - l -:1,-:3', 'copynew 0 2', 'assign 1 - 3 l#0'])
            cases.append(pre + b + ['setnode 2 - m 6b:0', 'setnode 3 - m 6b:1', 'setnode 0 - a -:2', 'setnode 1 - a -:3'])
    return cases


def deep_cases():
    """nesting depth 6 / 10 / 15 (the harness holds paths of 16 steps) and a copy-on-write step that has to clone every
    level on the way down; 3-6 variables (audit 2, F7: the other streams stop at paths of length 4)"""
    cases = []
    kinds = {'l': ('l#0', '-:0'), 'a': ('a#0', '-:0'), 'm': ('m=6b', '6b:0'), 'x': None}
    for kd in 'lamx':
        for depth in (6, 10, 15):
            if kd == 'x':      # the kinds alternate along the path
                seq = [('l', 'a', 'm')[n % 3] for n in range(depth)]
            else:
                seq = [kd] * depth
            # built from the inside out: the outermost container is the one added last
            build = ['setstr 0 - 7a'] + ['setnode 0 - %s %s' % (k, kinds[k][1]) for k in reversed(seq)]
            steps = [kinds[k][0] for k in seq]
            leaf, inner, half = '/'.join(steps), '/'.join(steps[:-1]), '/'.join(steps[:depth // 2])
            kin = seq[-1]
            for sn, share in enumerate(([], ['copynew 1 0'], ['assign 1 - 0 %s' % half], ['copynew 1 0', 'assign 2 - 0 %s' % inner])):
                for w in ['strapp 0 %s 78' % leaf, 'sets 0 %s d-1_-1074' % leaf, 'cont 0 %s %s ins:9999:6b61 2 -' % (inner, kin),
                          'cont 0 %s %s rem:0 2 -' % (inner, kin), 'assign 0 %s 1 -' % leaf, 'assignstr 2 - 0 %s' % leaf,
                          'clear 0 %s' % inner, 'setnode 0 %s m 61:1,62:2' % leaf, 'assignnode 0 %s 0 %s %s' % (half, inner, kin),
                          'assign 3 - 0 %s' % half]:
                    cases.append(['@%d' % (4 + sn % 3)] + build + share + [w, 'strapp 1 %s 79' % half, 'cont 2 - %s clr 0 -' % kin, 'clear 0 -'])
    return cases


def eqwrap_cases():
    """values that are equal only through the cast == applies to its RIGHT operand (or only in one order)"""
    rng_of = {'i': (-2 ** 31, 2 ** 31), 'u': (0, 2 ** 32), 'I': (-2 ** 63, 2 ** 63), 'U': (0, 2 ** 64)}
    bases = [0, 1, 5, -1, -5, 2147483647, -2147483648, 2147483648, 4294967295, 4294967291, 4294967296, 4294967301,
             -4294967291, -4294967296, 9223372036854775807, -9223372036854775808, 9223372036854775808, 18446744073709551615,
             18446744073709551611, 9007199254740993, -9007199254740993]
    def variants(z):
        out = set()
        for k in (0, 1, -1, 2):
            for m in (2 ** 32, 2 ** 64, 2 ** 31, 2 ** 63):
                out.add(z + k * m)
        return out
    cases = []
    seen = set()
    for z in bases:
        toks = []
        for v in sorted(variants(z)):
            for t, (lo, hi) in rng_of.items():
                if lo <= v < hi:
                    toks.append('%s%d' % (t, v))
        # groups of four different tokens; neighbours and tokens 2, 5, 9 places apart (other type / other multiple) meet
        n = len(toks)
        for off in (2, 5, 9):
            for i in range(0, n, 2):
                g = tuple(sorted({toks[i], toks[(i + off) % n], toks[(i + 1) % n], toks[(i + 1 + off) % n]}))
                if len(g) < 2 or g in seen:
                    continue
                seen.add(g)
                cases.append(['@%d' % len(g)] + ['sets %d - %s' % (j, x) for j, x in enumerate(g)])
    # bool / double / string against integers that are non-zero only above bit 31, or equal only after rounding
    extra = [('b1', 'I4294967296', 'U9223372036854775808', 'i0'), ('b0', 'I4294967296', 'u0', 'U18446744073709551615'),
             (dbl(1, 53), 'I9007199254740993', 'U9007199254740993', 'I9007199254740992'),
             (dbl(1, 63), 'U9223372036854775808', 'I9223372036854775807', 'U9223372036854775809'),
             (dbl(1, 64), 'U18446744073709551615', 'I-1', 'i-1'), (dbl(-1, 31), 'i-2147483648', 'u2147483648', 'I-2147483648'),
             (dbl(3, -1), 'i1', 'u1', 'b1'), (dbl(-3, -1), 'i-1', 'I-1', 'U18446744073709551615')]
    for g in extra:
        cases.append(['@4'] + ['sets %d - %s' % (j, x) for j, x in enumerate(g)])
    strs = ['4294967301', '-1', '18446744073709551615', '-4294967291', '9223372036854775808', '5', '1.0', '4294967296.5', ' 5', '05']
    for st in strs:
        for g in (('i5', 'I4294967301', 'u5'), ('i-1', 'U18446744073709551615', 'u4294967295'), ('I-1', 'u1', 'b1'),
                  (dbl(1, 32), 'I9223372036854775807', 'i2147483647')):
            cases.append(['@4', 'setstr 0 - %s' % hx(st)] + ['sets %d - %s' % (j + 1, x) for j, x in enumerate(g)])
    return cases


class C07(Check):
    id = 'C07'
    comp = 'Variant'
    extracted = ['coq/Variant/model.mli', 'coq/Variant/model.ml', 'ocaml/zconv.ml', 'ocaml/variant_driver.ml']
    harness_sources = ['harness/variant.cpp']
    level_text = ('Theorems in Coq, for every history of assignments, copies, swaps, clears and path mutations through the mutable '
                  'accessors over any number of Variant variables and arbitrary nested value trees IN WHICH NO OPERATION STORES INTO A '
                  'PAYLOAD A VARIANT CONTAINING THAT PAYLOAD (hypothesis `admissible` / `self_containing = false` in every history '
                  'statement; the code builds a reference cycle there - open finding - and the model is not the code there): the model '
                  'of the lazy-copy representation (heap of reference-counted blocks with nested handles) never follows a handle to a '
                  'released block, keeps ref = number of handles (variables + handles inside live payloads), writes a payload in place '
                  'only when it has no other referrer, frees everything when the variables die, and refines the value model: after every '
                  'operation every variable reports (getType, ==, deep dump) exactly what VariantSpec says, what was assigned (scalar, '
                  'string, container, or a Variant/String/container taken by reference from any node of any variable, including the '
                  'assigned Variant itself) is read back, an operation on x changes no other variable, a copy compares equal to its '
                  'source; the accessors\' switch(data->type) with its C casts and operator== with its choice of the converted operand, '
                  'transcribed in the model independently of the Spec, compute the Spec\'s coercions; laws of these coercions (in-range '
                  'conversions preserve the value, C wrap-around, int<->double exact, decimal strings parse back). Where the property '
                  'text is silent - the integral conversion of a decimal string whose value the target type cannot hold, == of two maps '
                  'holding the same keys in another insertion order, and every comparison that consults one of these - the expected '
                  'observation of the property oracle is open (`?`; VariantSpec.str_fits / veq_pinned, delimited by '
                  'text_decides_equality_with_a_copy, conversion_open_only_for_out_of_range_strings, in_range_decimal_strings_are_decided, '
                  'text_decides_plain_comparisons, permuted_maps_left_open); the code\'s choice there is kept in the model and compared by '
                  'the correspondence only. The model is tied to the code by running the extracted model, the extracted spec and the '
                  'ASan/UBSan/LSan build of the working tree on the same histories; observations (getType, isNull, deep dump), the == matrix, '
                  'all coercions and the canonical heap shape (sharing structure and every reference count) are compared after every op.')
    level_note = ('Trusted: Coq kernel, VariantSpec.v (value model and reference coercions), extraction + OCaml driver, harness, generators. '
                  'Doubles are exact dyadic rationals in Coq (any exponent; the generators now reach subnormals, the ends of the float '
                  'range and DBL_MAX); infinities and -0 (inside the property, which excludes only NaN) are not covered by a theorem but by '
                  'two correspondence streams: dblspecial (root-level scalar histories: set/construct/assign/swap/copy, every coercion, '
                  '==; hand-written oracle) and dblnested (the same values as items of lists/arrays/maps at any depth, copied, read out, '
                  'overwritten through the mutable accessors, compared: the extracted Spec/Model run with a finite stand-in above 2^64 for '
                  'each infinity and 0 for -0, renamed afterwards - exact because no operation branches on a scalar and the stand-in '
                  'differs from the infinity in nothing that is observed but its name and %f text; not applicable to toString() through '
                  'the mutable accessor, which is not run on special values). The sign of a stored zero is observed (dump, toDouble, %f). '
                  'NaN (excluded by the property) is run at root level only: the property oracle expects nothing of a variable holding it, '
                  'IEEE behaviour is compared on the model side. Float->integer casts that are undefined in C++ are not observed. '
                  'Decimal strings whose value lies outside the normal binary64 range (exponents of 3+ digits; the %f text of a double '
                  'near DBL_MAX followed by an appended exponent) are not generated: the reference strtod has no overflow / subnormal range. '
                  'Validated by the correspondence run only: (a) that the reference functions shared by Model and Spec - glibc '
                  'strtol/strtoul/strtod, printf %d/%u/%lld/%llu/%f, int64->double rounding, String::toBool - are what libc and String do '
                  '(every alternative is run against every other; stream eqwrap for values that differ by multiples of 2^32/2^64). The '
                  'switch(data->type) of every accessor and of operator==, with its C casts and the choice of the converted operand, IS '
                  'modelled separately (VariantModel m_tag/u_*/c_int/c_dbl_int/m_to_*/meq, printed by the model driver) and proved equal '
                  'to the Spec\'s coercions (accessors_report_value, accessor_switches_compute_coercions, equality_is_spec_equality, '
                  'equality_converts_right_operand, string_equality_decided_by_scalar_side); '
                  '(b) that an '
                  'in-place write of an exclusively owned payload equals the model\'s retire-and-reallocate (the heap shape dump compares '
                  'sharing and counts, not addresses); (c) the converting constructors Variant(bool|...|String|List|Array|HashMap), which '
                  'the drivers map to the assignment of the same value to the root (ops csets/csetstr/csetnode). '
                  'Where the property text is silent: (1) OPEN in the property oracle, code\'s choice kept in the model only '
                  '(a change there ends in `no-failing-input-found`, never in a failing input): map equality compares entries in '
                  'insertion order (two maps with the same entries inserted in different orders are unequal in the code; stream maporder); '
                  'a decimal string whose value the target integral type cannot hold (including a negative one read as unsigned) converts '
                  'to the strtol/strtoul saturation value, then wraps to 32 bits - nothing in the repository documents this case and '
                  'atoi/atoll leave it undefined; (2) still FOLLOWING THE CODE in the Spec (documented choices, not theorems of the '
                  'property): string-vs-scalar equality coerces the string to the scalar\'s type, so == is neither symmetric nor transitive '
                  'across alternatives ("1.0" == 1 and 1 == "1" but "1.0" != "1"); text after a decimal prefix is ignored ("12abc" reads as '
                  '12), a NUL byte ends the text the conversions read while ==, the dump and toString() see the whole counted string; a '
                  'mutable accessor of the wrong kind on the way along a path replaces the value '
                  'there by an empty container even when the operation then reports NoPath. '
                  'Excluded by hypothesis (skipped by harness, model and spec, result `excluded`): operations that store into a payload a '
                  'Variant containing that same payload - v.toList().append(v), v.toList().front() = v, f = cv.toList() with f two or more '
                  'levels below v or an item of v that already is a list; the exclusion is decided on values, so it also drops the harmless '
                  'sub-case of the last form where f\'s list payload is shared and gets replaced instead of written in place. '
                  'Sequential use only (Atomic increments/decrements are plain arithmetic in the model).')
    technique = ('machine-checked proof in Coq (invariant + refinement by induction over histories) about a hand-written Gallina model of '
                 'the copy-on-write heap; model tied to the code by an extracted-model / extracted-spec / implementation correspondence check')
    rule = ('cases = histories over 2-6 Variant variables (paths up to 15 steps in stream deep, up to 4 elsewhere) in the op language of VariantSpec.op (set scalar/string/container at a path, '
            'assign/copy/swap/clear, assign a String/container taken by reference from a node of any variable - mostly a descendant of '
            'the destination itself, mutable accessor + insert/remove/clear at a path, toString + append) plus the converting '
            'constructors; string values, appended suffixes and map keys include NUL bytes; doubles include subnormals, the ends of the '
            'float range and DBL_MAX; streams: every alternative against others for coercions and == (assignment operator or constructor); '
            'groups of four integral/bool/double/string values congruent modulo 2^32 or 2^64 (eqwrap: both orders of every pair in the == matrix); '
            'infinities, -0 and NaN against each other and ordinary scalars incl. the extreme doubles (hand-written oracle); infinities '
            'and -0 inside containers of every kind, two levels, and in random nested histories (stand-in runs of the extracted '
            'Spec/Model); pairs of maps with equal / permuted / different key sequences at the root and nested; containers nested 6 / 10 / 15 levels '
            'with a write at the bottom under three sharing patterns (deep); the copy-on-write case split (payload kind '
            'incl. containers holding an unshared container of their own kind x sharer x root/nested with inner/outer sharing x write '
            'operation incl. assignment from self / descendant / ancestor / other variable, accessor kind matching or not, followed by '
            'probes that mutate/release the sharers); random root-level, nested and malformed histories; all histories of length <= 3 '
            'over a 26-op alphabet (thorough). A case is non-trivial when some payload is shared (ref >= 2) at some point or at least '
            'two different alternatives are assigned; distinct = distinct op text')
    assumptions = ['doubles are finite exact dyadic rationals m*2^e in the Coq model; NaN excluded by the property; infinities and -0 only '
                   'checked by correspondence (streams dblspecial: hand-written oracle; dblnested: stand-in runs of the extracted Spec/Model)',
                   'the text decides nothing about the integral value of a decimal string outside the target type, nor about == of maps '
                   'with the same keys in another insertion order: open in the property oracle, code\'s choice compared with the model only',
                   'float -> integer conversions whose truncated value is not representable are undefined in C++ and not observed',
                   'no operation stores into a payload a Variant that contains that payload (self_containing = false; open finding)',
                   'sequential histories (no concurrent access to one payload)']

    _crashes_seen = 0

    def run_impl(self, cases, tag='impl'):
        """as Check.run_impl with LeakSanitizer on.  Every crash restarts the harness (and costs an ASan report), so a tree on
        which most cases crash is not run to the end (round 5): a stream is run in pieces of 100 cases and stops after 150
        crashes; once 300 crashes have been seen in this run every further stream stops after its first 40 cases.  The cases
        not run are dropped by vf.py (`! notrun`); the crashes seen are failing inputs already."""
        from vf import run_exe_on_cases, BUILD
        # leak_check_at_exit=0 instead of LSAN_OPTIONS=exitcode=0: the latter also made an ASan report exit with status 0,
        # which vf.py takes for a complete run (the crashing case and every later case of the stream lost their output)
        env = {'ASAN_OPTIONS': 'detect_leaks=1:leak_check_at_exit=0:abort_on_error=0:allocator_may_return_null=1:max_allocation_size_mb=2048',
               'LSAN_OPTIONS': 'print_suppressions=0'}
        rundir = os.path.join(BUILD, self.id, 'run')
        res, crashes, i, total = [], {}, 0, 0
        counted = tag.startswith('impl_')
        while i < len(cases):
            step = 100 if (counted and C07._crashes_seen <= 300) else 40
            chunk = cases[i:i + step]
            if total > 150 or (counted and C07._crashes_seen > 300 and i > 0):
                res += [['! notrun'] for _ in chunk]
            else:
                r, c = run_exe_on_cases(self.exes['impl'], chunk, rundir, tag, is_impl=True,
                                        per_case_timeout=self.per_case_timeout, env=env)
                res += r
                for k, v in c.items():
                    crashes[i + k] = v
                total += len(c)
                if counted:
                    C07._crashes_seen += len(c)
            i += step
        return res, crashes

    # ---- special doubles: judged by SpecialOracle instead of the extracted Spec/Model ----
    _co_cache = None

    def _coercions_of(self, tok):
        if self._co_cache is None:
            res = Check.run_spec(self, [['@1', 'sets 0 - %s' % t] for t in COMPANIONS], tag='spec_companions')
            C07._co_cache = {t: r[0].split(' | ')[2] for t, r in zip(COMPANIONS, res)}
        if tok not in self._co_cache:      # an ordinary operand outside the companion list (random histories, shrinking)
            res = Check.run_spec(self, [['@1', 'sets 0 - %s' % tok]], tag='spec_companions')
            C07._co_cache[tok] = res[0][0].split(' | ')[2]
        return self._co_cache[tok]

    def _with_special(self, cases, tag, base, with_shape):
        idx = [i for i, c in enumerate(cases) if is_special_case(c)]
        if not idx:
            return base(self, cases, tag=tag)
        orc = SpecialOracle(self._coercions_of)
        sidx = set(idx)
        # (a) root-level scalar histories: python oracle; (b) the rest (no NaN, no strtouch/strapp): stand-in runs
        kind = {}
        for i in idx:
            c = cases[i]
            if is_root_scalar_case(c):
                kind[i] = 'a'
            elif any(re.search(r'(^| )dnan( |$)', l) or l.startswith(('strtouch', 'strapp')) for l in c):
                kind[i] = 'x'
            else:
                kind[i] = 'b'
        rest = [c for i, c in enumerate(cases) if i not in sidx]
        bidx = [i for i in idx if kind[i] == 'b']
        run_a = [standin_case(cases[i], 'd0_0') for i in bidx]
        nz = [i for i in bidx if any(re.search(r'(^| )d-0( |$)', l) for l in cases[i])]
        run_b = [standin_case(cases[i], NEGZERO_MARK) for i in nz]
        res = base(self, rest + run_a + run_b, tag=tag) if (rest or run_a) else []
        rr = iter(res[:len(rest)])
        ans_a = dict(zip(bidx, res[len(rest):len(rest) + len(run_a)]))
        ans_b = dict(zip(nz, res[len(rest) + len(run_a):]))
        out = []
        for i, c in enumerate(cases):
            if i not in sidx:
                out.append(next(rr))
            elif kind[i] == 'a':
                out.append(orc.run(c, with_shape))
            elif kind[i] == 'x':
                out.append(outside_lines(c, with_shape))
            else:
                la = ans_a[i]
                if i in ans_b and len(ans_b[i]) == len(la):
                    la = [standin_patch_negzero(x, y) for x, y in zip(la, ans_b[i])]
                out.append([standin_rename(x) for x in la])
        return out

    def run_spec(self, cases, tag='spec'):
        return self._with_special(cases, tag, Check.run_spec, False)

    def run_model(self, cases, tag='model'):
        return self._with_special(cases, tag, Check.run_model, True)

    # ---- the property oracle: the Spec's expected observation, in which `?` stands for what the text leaves open - a whole
    #      token, one comma-separated field of a coercion token, or one character of the == matrix ----
    @staticmethod
    def spec_line_matches(spec, impl):
        if spec == impl:
            return True
        ss, ii = spec.split(' | '), impl.split(' | ')
        if len(ss) > len(ii):
            return False
        for n, (s_, i_) in enumerate(zip(ss, ii)):
            if s_ == i_:
                continue
            st, it = s_.split(' '), i_.split(' ')
            if len(st) != len(it):
                return False
            for a, b in zip(st, it):
                if a == b or a == '?':
                    continue
                if '?' not in a:
                    return False
                if n == 2:
                    fa, fb = a.split(','), b.split(',')
                    if len(fa) != len(fb) or any(x != y and x != '?' for x, y in zip(fa, fb)):
                        return False
                elif n == 3:
                    if len(a) != len(b) or any(x != y and x != '?' for x, y in zip(a, b)):
                        return False
                else:
                    return False
        return True

    def judge(self, cases, impl_obs, spec_obs):
        fails = []
        for i, (s_, o) in enumerate(zip(spec_obs, impl_obs)):
            k = None
            for j in range(max(len(s_), len(o))):
                if j >= len(s_) or j >= len(o) or not self.spec_line_matches(s_[j], o[j]):
                    k = j
                    break
            if k is not None:
                exp = s_[k] if k < len(s_) else '<nothing>'
                got = o[k] if k < len(o) else '<nothing>'
                fails.append((i, k, 'spec expects `%s`, implementation gives `%s`' % (exp, got)))
        return fails

    def nontrivial(self, case, obs):
        shared = any(re.search(r':r([2-9]|\d\d)', l.split(' | ')[-1]) for l in obs if ' | ' in l)
        kinds = ({l.split()[3][0] for l in case if l.startswith('sets ')} | {l.split()[2][0] for l in case if l.startswith('csets ')}
                 | {'s' for l in case if l.startswith(('setstr ', 'csetstr '))})
        return shared or len(kinds) >= 2

    def streams(self, tier, rng):
        thorough = tier == 'thorough'
        out = []
        sc = scalars(rng)
        strs = [s for s in STRS if str_ok(s)]
        # 1. coercions and == between every pair of alternatives (scalar x scalar, scalar x string)
        cases = []
        allv = [('sets', s) for s in sc] + [('setstr', hx(s)) for s in strs]
        if thorough:
            pairs = [(a, b) for a in allv for b in allv]
        else:
            pairs = [(a, rng.choice(allv)) for a in allv for _ in range(3)]
        def setop(x, i, ctor):
            # the assignment operator, or the converting constructor, of the same alternative
            return ('c%s %d %s' % (x[0], i, x[1])) if ctor else ('%s %d - %s' % (x[0], i, x[1]))
        for n, (a, b) in enumerate(pairs):
            cases.append(['@2', setop(a, 0, n % 2 == 1), setop(b, 1, n % 3 == 1)])
        out.append(Stream('coerce', cases, exhaustive=thorough,
                          note='every alternative (boundary scalars, %d strings) against %s' % (len(strs), 'every other' if thorough else '3 random others')))
        # 1c. which operand == converts, and every integral conversion on values that differ only by a multiple of 2^32 / 2^64
        #     (the case split of VariantModel.meq / m_to_*: the left operand's tag selects the case, the right operand is cast)
        out.append(Stream('eqwrap', eqwrap_cases(), exhaustive=True,
                          note='4 variables of different integral / bool / double / string alternatives holding values congruent modulo '
                               '2^32 or 2^64 (or equal only after rounding to double): the == matrix shows both orders of every pair'))
        # 1a. infinities and negative zero (outside the Coq model; python oracle, see SpecialOracle)
        out.append(Stream('dblspecial', special_cases(rng, thorough), exhaustive=True,
                          note='dinf / d-inf / d-0 against each other and %d ordinary scalars: set or construct, assign, swap, copy, ==, '
                               'every coercion; expected values from a hand-written oracle' % len(COMPANIONS)))
        # 1a'. the same special values inside containers (stand-in runs of the extracted Spec/Model, see above)
        out.append(Stream('dblnested', special_nested_cases(rng, thorough),
                          note='dinf / d-inf / d-0 as items of lists, arrays and maps (two levels), copied, read out, written through '
                               'the mutable accessors, compared with copies, ordinary scalars and strings; random nested histories '
                               'with a third of the scalars special'))
        # 1a''. two maps holding the same entries in different insertion order (the text is silent on their ==)
        out.append(Stream('maporder', maporder_cases(), exhaustive=True,
                          note='maps with equal / permuted / different key sequences and equal / different values, at the root, as '
                               'list items and as map values, built by assignment, by insert-at-front and by remove + re-insert'))
        # 1a'''. deep nesting
        out.append(Stream('deep', deep_cases(), exhaustive=True,
                          note='containers nested 6 / 10 / 15 levels (one kind or kinds alternating), unshared / copied / lower half held '
                               'by another variable, then one write at the bottom (string append, scalar, insert, remove, assignment '
                               'from another variable or from the own payload) and probes on the sharers'))
        # 1b. the copy-on-write case split (all of it in the thorough tier, a third in the quick tier)
        cw = cowsplit_cases()
        if not thorough:
            cw = [c for c in cw if rng.random() < 0.25]
        out.append(Stream('cowsplit', cw, exhaustive=thorough,
                          note='payload kind x sharer x root/nested (inner/outer shared) x write operation, then probes on the sharers'))
        # 2. copy-on-write histories, one level
        cases = [['@3'] + history(rng, 3, rng.randrange(4, 16), nested=0.15) for _ in range(1500 if thorough else 250)]
        out.append(Stream('cow1', cases, note='histories over 3 variables, mostly root-level'))
        # 3. nested path mutations
        cases = [['@%d' % k] + history(rng, k, rng.randrange(8, 30), nested=0.65) for k in [rng.choice([2, 3, 4]) for _ in range(2500 if thorough else 350)]]
        out.append(Stream('nested', cases, note='path mutations through nested containers'))
        # 4. malformed / boundary: many invalid paths, variables, kinds
        cases = [['@2'] + history(rng, 2, rng.randrange(4, 14), nested=0.5, invalid=0.3) for _ in range(600 if thorough else 120)]
        out.append(Stream('malformed', cases, note='30% of steps/variables invalid'))
        # 6. OPEN finding: an operation that stores into a payload a Variant containing that payload builds a reference
        #    cycle in the code.  The witness (corpus/C07/open/self-containing.ops, unguarded `assign!`/`cont!`) is run only
        #    when known_findings.json lists it as open (the run then prints KNOWN-FINDING); everywhere else such operations
        #    are excluded by the hypothesis self_containing = false.
        if any(k.get('status') == 'open' and k.get('witness') == OPEN_WITNESS for k in self.known_findings()):
            out.append(Stream('selfcontaining', open_witness_cases(), note='open finding: payload stored into itself'))
        if thorough:
            # 5. every history of length <= 3 over a small op alphabet (2 variables)
            alpha = ['sets 0 - i1', 'setstr 0 - 61', 'setnode 0 - l -:0,-:1', 'setnode 1 - m 61:0', 'setnode 0 - a -:1',
                     'assign 1 - 0 -', 'assign 0 - 1 -', 'assign 0 - 0 l#0', 'assign 1 l#0 0 -', 'assign 0 l#1 0 l#0',
                     'cont 0 - l ins:9999:- 1 -', 'cont 1 - l ins:0:- 1 l#0', 'cont 1 - m ins:9999:62 0 -', 'cont 0 - a ins:9999:- 0 a#0',
                     'cont 0 l#0 l touch 0 -', 'cont 1 - l rem:0 0 -', 'strapp 1 l#0 78', 'clear 0 -', 'swap 0 1', 'copynew 1 0',
                     'cont 1 m=61 l ins:0:- 0 -', 'sets 1 l#0/l#0 b1',
                     'assignnode 0 - 0 l#0 l', 'assignstr 0 - 0 l#0', 'assignnode 1 - 1 m=61 l', 'assignstr 1 l#0 0 l#1']
            cases = [['@2'] + list(t) for n in (1, 2, 3) for t in itertools.product(alpha, repeat=n)]
            out.append(Stream('exhaustive3', cases, exhaustive=True, note='all histories of length <= 3 over %d ops' % len(alpha)))
        return out


CHECK = C07
