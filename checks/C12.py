import itertools, os, sys
from vf import Check, Stream, TieBroken, run_sharded, run_exe_on_cases, first_diff, BUILD
sys.path.insert(0, os.path.join(os.path.dirname(os.path.abspath(__file__)), '..', 'gen'))
import tables_callback

# every arity 0..8 (number of signal arguments) gets the exhaustive streams, at the quick sizes in the quick tier and at the
# deep sizes in the thorough tier; an arity whose template differs from the common one (translator tie) is searched first
DEEP_ARITIES = list(range(9))


def with_arity(cases, ar, extra=''):
    """the same programs with the signals' arities set: `ar` = digit string, one digit per signal index, last repeats;
    `extra` = further configuration tokens (object kinds `k<digits>` / `j<digits>`)"""
    return [[c[0] + ' a' + ar + (' ' + extra if extra else '')] + c[1:] if c and c[0].startswith('@') else c for c in cases]


# object kinds (harness/callback.cpp): listener kind 1 = object of a class with Li as a NON-FIRST base connected through
# Li's slot pointers (template parameters W != Y), 2 = the same object connected through slot pointers cast to the
# derived class (member pointers with a non-zero this-adjustment); emitter kind 1 = object of a class with Em as a
# non-first base handed over as pointer to the derived class (V != X).  One digit per listener / emitter, last repeats.
KINDS = ['k1 j1', 'k2 j0', 'k01 j10', 'k12 j01', 'k21 j1', 'k10 j0']


def act(rng, ne, nl, nsg, nslot, p_emit=0.2, p_destroy=0.12):
    r = rng.random()
    if r < p_emit:
        return 'e %d %d' % (rng.randrange(ne), rng.randrange(nsg))
    if r < p_emit + p_destroy:
        return rng.choice(['xl %d' % rng.randrange(nl), 'xl %d' % rng.randrange(nl), 'xe %d' % rng.randrange(ne)])
    k = 'c' if rng.random() < 0.5 else 'd'
    return '%s %d %d %d %d' % (k, rng.randrange(ne), rng.randrange(nsg), rng.randrange(nl), rng.randrange(nslot))


# the alphabet of the exhaustive stream: what slot 0 of listener 0 may do while (E0, signal 0) is emitting
ALPHA = ['c 0 0 0 0', 'd 0 0 0 0', 'c 0 0 1 1', 'd 0 0 1 1', 'c 0 0 0 2', 'd 0 0 0 2',
         'e 0 0', 'xl 0', 'xl 1', 'xe 0', 'c 1 0 1 1', 'e 1 0']
POST = ['e 0 0', 'd 0 0 0 0', 'e 0 0', 'xl 0', 'e 0 0', 'e 1 0', 'xl 1', 'e 0 0', 'xe 0', 'xe 1']
# emitters die first: ~Emitter has to clear the listeners' entries, ~Listener then finds nothing to unlink
POST_EF = ['e 0 0', 'd 0 0 0 0', 'e 0 0', 'xe 0', 'e 0 0', 'e 1 0', 'xl 0', 'e 1 0', 'xe 1', 'xl 1']
# what slot 0.0 may do in the three-signal programs
ALPHA3 = ['c 0 2 1 1', 'd 0 2 1 1', 'e 0 2', 'e 0 1', 'c 0 1 0 2', 'd 0 0 1 1', 'xe 0', 'xl 1', 'c 1 2 0 0', 'e 1 2']


class C12(Check):
    id = 'C12'
    comp = 'Callback'
    extracted = ['coq/Callback/model.mli', 'coq/Callback/model.ml', 'ocaml/zconv.ml', 'ocaml/callback_driver.ml']
    harness_sources = ['harness/callback.cpp']
    per_case_timeout = 3       # a case runs in milliseconds; a hanging emission costs this much
    technique = ('machine-checked proof in Coq about a hand-written Gallina model; model tied to the code by an '
                 'extracted-model vs implementation correspondence check')
    level_text = ('Coq theorems (26, closed under the global context) about the Gallina model of Callback (slot lists with '
                  'connected/connecting/disconnected states, dirty flag, activation chain with invalidation, both search loops, '
                  'both destructor loops, a liveness flag on every object) and the reference object (live connections with serial '
                  'numbers, watermark of the outermost emission, one cursor per emission), for ALL histories of '
                  'connect/disconnect/emit/destroy, all slot behaviours WITH MEMORY (universally quantified functions of the invocation '
                  'log of the operation in progress and of the logs of all earlier top-level operations: a slot may act differently at '
                  'its second invocation, count, react to other slots; a script may connect, disconnect, re-emit, destroy listeners and '
                  'emitters, itself included), every nesting depth limit and every fuel; which of several IDENTICAL connections a '
                  'disconnect cancels is left open by the property text, so the reference object takes it as a policy parameter: the '
                  'theorems about the reference object alone hold for every policy (C12_reference_*, C12_fuel_irrelevant_reference, '
                  'C12_disconnect_any_choice_removes_one: any choice removes exactly one matching connection and nothing else), the '
                  'refinement theorems are stated for the policy of the code, the oldest (C12_code_policy_is_oldest): '
                  '(1) refinement relation R holds initially and after every top-level operation and whenever a slot returns '
                  '(C12_refinement_init, C12_step_refines, C12_nested_refines); R implies both sides\' bookkeeping equals the live '
                  'connections: emitter side = connection list in order, listener side = same multiplicities, receivers alive, '
                  'nothing refers to a destroyed object (C12_emitter_side_exact, C12_listener_side_exact, '
                  'C12_related_states_are_consistent, C12_bookkeeping_after_every_history); (2) the model\'s invocation log of every '
                  'history equals the reference object\'s and the model never touches a destroyed object '
                  '(C12_logs_equal_reference, C12_never_touches_dead_object, C12_invoked_slot_is_live; the reference turn rule is '
                  'characterised by C12_turn_sound/oldest/none_complete); (3) after the outermost emission no '
                  'disconnected/connecting entry, activation or dirty flag is left (NoResidue in '
                  'C12_bookkeeping_after_every_history); fuel: every history completes from some fuel on and finished runs do not '
                  'depend on fuel (C12_enough_fuel_exists, C12_fuel_irrelevant_*); (4) node-level safety of the representation: no node is '
                  'unlinked from a signal\'s slot list while an emission of that signal is in progress - each of the seven library '
                  'primitives only appends or re-marks entries then, except ~Emitter of that emitter and the end of the outermost '
                  'emission (C12_no_unlink_while_emitting), and whatever a slot does, on return the activation chain has its length '
                  'and every old node its place (C12_slot_keeps_nodes, C12_emission_keeps_nodes), which is what makes the model\'s '
                  '"iterator = index" stand for the C++ list iterators. The model is tied to the code by running the '
                  'extracted model (a tracing interpreter proved equal to the proved one, C12_trace_erasure), the extracted '
                  'reference object and the ASan/UBSan build of the working tree on the same scripts and comparing invocation '
                  'logs, both sides\' lists, dirty/activation flags after every top-level operation and the emitting signal\'s slot '
                  'list with states, dirty flag and invalidated flags of the activation chain at every slot entry and exit; signals of '
                  'every arity 0..8 are driven (all nine emit/connect/disconnect templates execute, arguments echoed and checked by '
                  'the slots), emitter and listener classes carry a first base so that the Listener/Emitter sub-objects sit at a '
                  'non-zero offset, and on every run the nine hand-copied emit, connect, disconnect and MemberFuncPtr<N> definitions '
                  'of Callback.hpp are re-read and compared token by token with the one template the model mirrors written out for '
                  'each arity (gen/tables_callback.py; a difference is reported naming the overload and the streams of that arity '
                  'are searched first for a failing input); the untyped struct MemberFuncPtr (converting constructor copying sizeof(ptr) '
                  'bytes, ==, <, >) is compared with its expected text as well. The typed front ends are also instantiated with '
                  'template parameters V != X and W != Y: listeners that are objects of a class with the slot\'s class as a NON-FIRST base '
                  '(data in both bases) connected through the base\'s slot pointers or through slot pointers cast to the derived class '
                  '(member pointers with a non-zero this-adjustment), emitters handed over as pointer to a derived class; every slot '
                  'checks the identity fields of the sub-object it runs on. The property oracle (judge) accepts every behaviour of '
                  'the reference object under SOME choice among identical connections (the driver explores the whole choice tree of '
                  'a case); the exact policy of the code is compared in the model correspondence only.')
    level_note = ('Trusted: Coq kernel, the reference object (CallbackSpec.v: the property text as an executable object), extraction + '
                  'OCaml driver, harness, generators. Validated by correspondence only (not proved): that CallbackModel.v mirrors '
                  'Callback.hpp/Callback.cpp; the iterator position inside emit() is not observable from the harness (only its '
                  'effect, the invocation log). Follows the code, not the text: of several identical connections the MODEL cancels '
                  'the oldest (the reference object and the judge accept any one; a tree that cancels another one is reported as '
                  'no-failing-input-found through the correspondence). Modelled as input: slot behaviours (functions of the '
                  'invocation history; the harness realises them as scripts with per-slot invocation counters, `def l s @k action`) '
                  'and the client-side depth limit maxd '
                  '(emissions nested deeper are skipped by the client on both sides; without it a self-re-emitting slot recurses '
                  'forever in the library as well). Clients never hand a destroyed emitter/listener to the library (such script '
                  'actions are skipped on both sides). Maps keyed by pointer are modelled as maps keyed by object id; the '
                  'destructor loops are modelled in id order (their iterations touch disjoint data). Objects are not re-created at '
                  'the address of a destroyed one. Latent defect of the code that the model encodes as behaviour and the check cannot '
                  'exhibit: Callback::disconnect on a listener that has no map entry for the emitter (Callback.cpp:147-148) '
                  'dereferences slotData.end(); this is harmless only because Map keeps a default-constructed List in its end item, '
                  'so the loop over it is empty; no sanitizer reports it and no observation differs, so it is not a violation of '
                  'the property text and is modelled as a no-op (exercised by the edge stream); a guard `if(it2 == end()) return;` '
                  'would remove the reliance on that Map internal. The nine emit/connect/disconnect templates: all are executed '
                  '(arities 0..8) and textually tied to one template by the translator; the argument types used are int and long by '
                  'value only (no references, no class-type arguments with copy constructors). (The library calls the slot through a pointer of the EMITTER\'s class type cast from void*, which '
                  'UBSan\'s vptr check would flag for polymorphic EMITTER classes independently of this property; the harness emitter '
                  'classes are not polymorphic, the listener classes are: slot 3 of every arity is a virtual member function, whose '
                  'member pointer holds a vtable offset). '
                  'Bounds of the generated programs: <= 3 emitters / listeners, <= 3 signals per emitter, nesting depth <= 4, '
                  '<= 200 slot invocations per program; a case whose tree of choices among identical connections exceeds 96 runs '
                  'and matches no explored leaf is not judged (none occurs in the streams).')
    rule = ('cases = programs over 2-3 emitters x 2-3 listeners x up to 4 slots x 1-2 signals (each signal index with a chosen '
            'number of arguments 0..8; the exhaustive streams exh/dcd/nest are generated once per arity, nest with two different '
            'arities on one emitter; an arity flagged by the translator tie is run first) whose slots run scripted actions '
            '(connect/disconnect/emit/destroy listener/destroy emitter, also of themselves), nesting depth <= 4; stream exh = all '
            'action sequences of length <= 2 (quick) / <= 3 (thorough) over a 12-action alphabet executed by a slot inside one '
            'emission, under 2 surrounding configurations, followed by re-emission and destruction of every object (programs whose emission tree exceeds 200 slot invocations are dropped, here and in nest/edge/random); stream dcd = '
            'all words of length <= 4 / <= 6 over {disconnect, connect} x {own slot, pending slot} inside one emission, with and '
            'without a nested re-emission (case split of unlink_slot: k-th disconnect skips k-1 entries already marked); stream '
            'nest = recursive re-emission to the depth limit + a second signal of the same emitter + a slot pending in every '
            'nested emission, actor words of length <= 2 / <= 3 over a 12-action alphabet (destroy listener / emitter / '
            'disconnect / connect / emit) run innermost first, 2 slot orders, 2 depth limits (case splits of emit_end, '
            'invalidated and both destructors); stream random = random scripts and top-level histories; stream edge = actions on '
            'destroyed objects, unknown signals, disconnect of never-connected slots, duplicate connections; stream mi (per arity) = '
            'exh length 1 + dcd length <= 3 + nest length 1 with listeners / emitters that are non-first bases of the connected '
            'object (6 kind assignments, two per program); stream mem = slot 0.0 does A at its first and B at every later '
            'invocation, all 144 pairs (case split of a slot with memory: first call vs later calls, nested vs top level); stream '
            'dup = top-level words of length <= 5 with at least two identical connections and a disconnect of them, with and '
            'without a slot that disconnects / re-connects it while emitting; stream sig3 = three signals of three arities on '
            'one emitter, words of length <= 2 over a 10-action alphabet, listeners-first and emitters-first destruction (mem, dup, '
            'sig3: arity by program index in the quick tier, every arity in the thorough tier); random scripts carry invocation '
            'guards and random object kinds. A case is '
            'non-trivial when at least one slot with a non-empty script was invoked (re-entrancy actually exercised); distinct = '
            'distinct op text')
    assumptions = ['clients never pass a destroyed emitter or listener to connect/disconnect/emit (skipped in scripts)',
                   'no object is created at the address of a destroyed one while stale map keys exist',
                   'pointer-keyed maps modelled as id-keyed maps; destructor loops in id order (iterations are independent)',
                   'slot behaviours return finite scripts (as functions of the invocation history); the client bounds the nesting depth of emissions (maxd)',
                   'which of several identical connections a disconnect cancels is not part of the property (any one is accepted)']

    suspects = []          # arities whose templates differ from the common template (set by gen_tables)

    def gen_tables(self):
        """translator tie: the nine emit / connect / disconnect / MemberFuncPtr<N> copies of Callback.hpp are re-read and
        compared with the one template the model mirrors, written out for each arity (gen/tables_callback.py)"""
        diffs, summary = tables_callback.compare_templates()
        self.suspects = sorted({n for (_, n, _) in diffs if n is not None})
        if diffs:
            raise TieBroken('%d of the hand-copied templates in Callback.hpp differ from the template CallbackModel.v mirrors: %s'
                            % (len(diffs), ' ;; '.join(m for (_, _, m) in diffs[:4])))
        return [summary]

    crash_units = 0            # harness restarts of this run (a watchdog timeout counts 15)

    def run_impl(self, cases, tag='impl'):
        """as Check.run_impl, in pieces of 100 cases: a stream is abandoned after ~150 harness crashes and the whole run after
        ~900 (a watchdog timeout counts as 15), the cases not run are marked and dropped - a tree on which every case
        crashes or hangs costs minutes, not hours; sanitizer reports are not symbolised (the kind is read from the summary)"""
        rundir = os.path.join(BUILD, self.id, 'run')
        env = {'ASAN_OPTIONS': 'detect_leaks=0:abort_on_error=0:allocator_may_return_null=1:max_allocation_size_mb=2048:symbolize=0'}
        if tag.startswith('shr'):
            return run_exe_on_cases(self.exes['impl'], cases, rundir, tag, is_impl=True, per_case_timeout=self.per_case_timeout, env=env)
        res, crashes, here = [], {}, 0
        for i in range(0, len(cases), 100):
            chunk = cases[i:i + 100]
            if here >= 150 or self.crash_units >= 900:
                res += [['! notrun'] for _ in chunk]
                continue
            r, c = run_exe_on_cases(self.exes['impl'], chunk, rundir, tag, is_impl=True, per_case_timeout=self.per_case_timeout, env=env)
            res += r
            for k, v in c.items():
                crashes[i + k] = v
            w = sum(15 if v[0] == 'timeout' else 1 for v in c.values())
            here += w
            self.crash_units += w
        return res, crashes

    def shrink(self, case, pred, budget=400):
        return Check.shrink(self, case, pred, budget=min(budget, 100))

    def judge(self, cases, impl_obs, spec_obs):
        """The reference object fixes everything except WHICH of several identical connections a disconnect cancels (the
        property text is silent there).  A case that differs from the reference run under the code's policy (the oldest)
        is therefore compared with every behaviour the reference object allows: the driver's `specall` mode explores the
        whole tree of such choices (cut at 96 runs; a case whose tree is cut and has no matching leaf is not judged)."""
        first = []
        for i, (sp, o) in enumerate(zip(spec_obs, impl_obs)):
            k = first_diff(sp, o)
            if k is not None:
                first.append((i, k))
        if not first:
            return []
        sub = [cases[i] for i, _ in first]
        alls = []
        for j in range(0, len(sub), 200):
            alls += run_exe_on_cases(self.exes['model'], sub[j:j + 200], os.path.join(BUILD, self.id, 'run'), 'specall', args=['specall'])[0]
        fails = []
        for (i, k), lines in zip(first, alls):
            leaves, cut = {}, False
            for l in lines:
                if l == '~cap':
                    cut = True
                    continue
                tag, _, rest = l.partition(' ')
                leaves.setdefault(tag, []).append(rest)
            if any(first_diff(lv, impl_obs[i]) is None for lv in leaves.values()):
                continue            # one of the permitted behaviours: only the choice among identical connections differs
            if cut:
                continue
            sp, o = spec_obs[i], impl_obs[i]
            exp = sp[k] if k < len(sp) else '<nothing>'
            got = o[k] if k < len(o) else '<nothing>'
            if got.startswith('!'):
                head = '[crash / abort in the library or a slot run on the wrong object: %s]' % got.split(' | ')[0]
            elif exp.split(' | ')[0] != got.split(' | ')[0]:
                head = '[the slots invoked differ from the reference object]'
            else:
                head = '[the bookkeeping (emitter / listener side lists) differs from the live connections]'
            more = '' if len(leaves) <= 1 else ' (nor any of the %d behaviours allowed by the choice among identical connections)' % len(leaves)
            fails.append((i, k, head.ljust(84, '.') + ' spec expects `%s`, implementation gives `%s`%s' % (exp, got, more)))
        fails.sort(key=lambda f: len(cases[f[0]]))
        return fails

    def nontrivial(self, case, obs):
        scripted = set()
        for l in case:
            t = l.split()
            if t[0] == 'def':
                scripted.add('>%s.%s' % (t[1], t[2]))
        for o in obs:
            head = o.split(' | ')[0]
            for tok in head.split(' '):
                k = tok.find('>')
                if k >= 0 and tok[k:] in scripted:
                    return True
        return False

    def exh_cases(self, maxlen):
        cases = []
        for variant in range(2):
            for n in range(1, maxlen + 1):
                for seq in itertools.product(ALPHA, repeat=n):
                    c = ['@2 2 1 3']
                    c += ['def 0 0 ' + a for a in seq]
                    if variant == 0:
                        c += ['def 0 2 d 0 0 1 1']
                        c += ['c 0 0 0 0', 'c 0 0 1 1', 'c 1 0 0 2']
                    else:
                        c += ['def 1 1 d 0 0 0 0', 'def 1 1 c 0 0 0 0', 'def 0 2 e 0 0']
                        c += ['c 0 0 1 1', 'c 0 0 0 0', 'c 0 0 0 2', 'c 1 0 0 0']
                    c += POST
                    cases.append(c)
        return cases

    def mem_cases(self):
        """slots with memory: slot 0.0 does A at its first invocation and B at every later one, for every pair (A, B) of the
        12-action alphabet, in the two surrounding configurations of exh; the programs emit several times (top level and
        nested), half of them destroy the emitters before the listeners; a second slot acts only at its second invocation"""
        cases = []
        for variant in range(2):
            for a in ALPHA:
                for b in ALPHA:
                    c = ['@2 2 1 3', 'def 0 0 @1 ' + a, 'def 0 0 @2+ ' + b]
                    if variant == 0:
                        c += ['def 0 2 @2 d 0 0 1 1', 'def 1 1 @2 e 0 0']
                        c += ['c 0 0 0 0', 'c 0 0 1 1', 'c 1 0 0 2', 'c 0 0 0 2']
                    else:
                        c += ['def 1 1 @1 d 0 0 0 0', 'def 1 1 @2 c 0 0 0 0', 'def 0 2 @1 e 0 0', 'def 0 2 @3+ xl 1']
                        c += ['c 0 0 1 1', 'c 0 0 0 0', 'c 0 0 0 2', 'c 1 0 0 0']
                    c += ['e 0 0', 'e 0 0', 'c 0 0 0 0'] + (POST if (len(cases) // 2) % 2 == 0 else POST_EF)
                    cases.append(c)
        return cases

    def dup_cases(self):
        """identical connections: every top-level word of length <= 5 over {connect a, connect b, disconnect a, disconnect b,
        emit} with at least two `connect a` and one `disconnect a`, a = slot 0.0, b = slot 1.1; in half of the programs slot
        1.1 disconnects a and connects it again while the signal is emitting (entries marked, not removed).  The reference
        object leaves open WHICH of the identical connections goes: these programs keep the rest of the clause pinned
        (exactly one goes, on both sides; the others keep their order)."""
        letters = ['c 0 0 0 0', 'c 0 0 1 1', 'd 0 0 0 0', 'd 0 0 1 1', 'e 0 0']
        cases = []
        for n in range(3, 6):
            for w in itertools.product(letters, repeat=n):
                if w.count('c 0 0 0 0') < 2 or 'd 0 0 0 0' not in w or w.index('d 0 0 0 0') < 2:
                    continue
                for variant in range(2):
                    c = ['@2 2 1 2']
                    if variant:
                        c += ['def 1 1 d 0 0 0 0', 'def 1 1 @2 c 0 0 0 0']
                    c += list(w) + ['e 0 0', 'd 0 0 0 0', 'e 0 0', 'xl 0', 'e 0 0']
                    cases.append(c)
        return cases

    def sig3_cases(self):
        """three signals on one emitter (three entries in the emitter's map, three activations of different emit templates
        at once), slot 0.0 runs every word of length <= 2 over a 10-action alphabet; listeners-first and emitters-first
        destruction at the end"""
        cases = []
        for n in range(1, 3):
            for w in itertools.product(ALPHA3, repeat=n):
                for ef in (0, 1):
                    c = ['@2 2 3 3'] + ['def 0 0 ' + a for a in w] + ['def 0 2 e 0 0', 'def 1 1 @2 e 0 1']
                    c += ['c 0 0 0 0', 'c 0 0 1 1', 'c 0 1 1 1', 'c 0 2 1 1', 'c 0 2 0 2', 'c 1 2 1 1', 'c 0 1 0 0']
                    c += ['e 0 0', 'e 0 2', 'e 0 1']
                    c += ['xe 0', 'e 1 2', 'xl 0', 'e 1 2', 'xe 1', 'xl 1'] if ef else ['xl 0', 'e 0 2', 'e 1 2', 'xl 1', 'e 0 1', 'xe 0', 'xe 1']
                    cases.append(c)
        return cases

    def dcd_cases(self, maxlen):
        """case split of unlink_slot / connect inside an emission: every word over {disconnect, connect} x {own slot,
        a pending slot} executed by slot 0.0 while (E0, signal 0) is emitting - entries marked disconnected stay in
        the list, so the k-th disconnect has to skip k-1 dead duplicates; then listeners die and E0 emits again"""
        letters = ['d 0 0 0 0', 'c 0 0 0 0', 'd 0 0 1 1', 'c 0 0 1 1']
        cases = []
        for n in range(2, maxlen + 1):
            for seq in itertools.product(letters, repeat=n):
                if not any(a[0] == 'd' for a in seq) or not any(a[0] == 'c' for a in seq):
                    continue
                for nested in (0, 1):
                    c = ['@2 2 1 3'] + ['def 0 0 ' + a for a in seq]
                    if nested:
                        c += ['def 1 2 e 0 0']          # a later slot re-emits: the marks survive a nested activation
                    c += ['c 0 0 0 0', 'c 0 0 1 1']
                    if nested:
                        c += ['c 0 0 1 2']
                    c += ['e 0 0', 'e 0 0', 'xl 0', 'e 0 0', 'xl 1', 'e 0 0', 'xe 0']
                    cases.append(c)
        return cases

    def nest_cases(self, maxlen):
        """case splits of emit_end / invalidated / the destructors: slot 0.0 re-emits the same signal down to the
        depth limit, slot 0.3 emits another signal of the same emitter, slot 1.1 is pending in every one of these
        emissions; an actor slot (before or after the pending one) runs every word over an alphabet of
        disconnect / connect / destroy listener / destroy emitter / emit at the innermost level first"""
        alpha = ['d 0 0 1 1', 'c 0 0 1 1', 'xl 1', 'xl 0', 'xe 0', 'xe 1', 'e 0 0', 'e 0 1', 'e 1 0',
                 'd 0 1 1 1', 'c 0 1 1 1', 'd 0 0 0 3']
        cases = []
        for n in range(1, maxlen + 1):
            for seq in itertools.product(alpha, repeat=n):
                for order in (0, 1):
                    for maxd in (2, 3):
                        c = ['@2 2 2 %d' % maxd, 'def 0 0 e 0 0', 'def 0 3 e 0 1', 'def 1 0 e 1 0']
                        c += ['def 0 2 ' + a for a in seq]
                        c += ['c 0 0 0 0']
                        c += ['c 0 0 0 2', 'c 0 0 1 1'] if order == 0 else ['c 0 0 1 1', 'c 0 0 0 2']
                        c += ['c 0 0 0 3', 'c 0 1 1 1', 'c 0 1 0 2', 'c 1 0 1 1', 'c 1 0 1 0', 'c 1 0 0 2']
                        c += ['e 0 0', 'e 0 1', 'e 1 0', 'e 0 0', 'xl 0', 'e 0 0', 'e 1 0', 'xl 1', 'xe 0', 'xe 1']
                        cases.append(c)
        return cases

    def random_case(self, rng):
        ne, nl = rng.choice([2, 2, 3]), rng.choice([2, 3, 3])
        nsg = rng.choice([1, 1, 2])
        nslot = rng.choice([2, 3, 4])       # slot 3 is a virtual member function in the harness
        maxd = rng.choice([2, 3, 3, 4])
        c = ['@%d %d %d %d' % (ne, nl, nsg, maxd)]
        emits_left = 3 if maxd >= 4 else 4
        for l in range(nl):
            for s in range(nslot):
                for _ in range(rng.choice([0, 0, 1, 2, 3])):
                    a = act(rng, ne, nl, nsg, nslot, p_emit=0.22 if emits_left > 0 else 0.0)
                    if a.startswith('e '):
                        emits_left -= 1
                    g = rng.choice(['', '', '', '@1 ', '@2 ', '@2+ ', '@3+ '])
                    c.append('def %d %d %s%s' % (l, s, g, a))
        # top level: mostly connects first, then a mix
        for _ in range(rng.randrange(3, 8)):
            c.append('c %d %d %d %d' % (rng.randrange(ne), rng.randrange(nsg), rng.randrange(nl), rng.randrange(nslot)))
        for _ in range(rng.randrange(3, 10)):
            r = rng.random()
            if r < 0.5:
                c.append('e %d %d' % (rng.randrange(ne), rng.randrange(nsg)))
            else:
                c.append(act(rng, ne, nl, nsg, nslot, p_emit=0.0, p_destroy=0.2))
        for e in range(ne):
            for sg in range(nsg):
                c.append('e %d %d' % (e, sg))
        for l in range(nl):
            c.append('xl %d' % l)
            c.append('e %d 0' % rng.randrange(ne))
        return c

    def edge_cases(self, rng):
        cases = []
        base = ['@2 2 2 3']
        cases.append(base + ['e 0 0', 'd 0 0 0 0', 'c 0 0 0 0', 'd 0 1 0 0', 'd 0 0 1 0', 'd 1 0 0 0', 'e 0 0', 'e 0 1'])
        cases.append(base + ['c 0 0 0 0', 'c 0 0 0 0', 'c 0 0 0 0', 'e 0 0', 'd 0 0 0 0', 'e 0 0', 'd 0 0 0 0', 'd 0 0 0 0', 'd 0 0 0 0', 'e 0 0'])
        cases.append(base + ['c 0 0 0 0', 'xe 0', 'e 0 0', 'c 0 0 0 0', 'd 0 0 0 0', 'xl 0', 'xl 0', 'xe 0', 'c 1 0 0 0', 'e 1 0'])
        cases.append(base + ['c 0 5 0 0', 'e 0 5', 'c 7 0 0 0', 'c 0 0 9 0', 'e 9 0', 'xl 9', 'xe 9', 'd 0 5 0 0'])
        cases.append(base + ['c 0 0 0 0', 'c 1 0 0 0', 'xe 0', 'xl 0', 'e 1 0', 'c 1 1 1 1', 'xl 1', 'xe 1'])
        cases.append(base + ['def 0 0 xl 0', 'c 0 0 0 0', 'c 0 0 0 1', 'c 0 0 1 0', 'e 0 0', 'e 0 0'])
        cases.append(base + ['def 0 0 xe 0', 'c 0 0 0 0', 'c 0 0 0 1', 'c 0 0 1 0', 'e 0 0', 'e 0 0', 'xl 0', 'xl 1'])
        cases.append(base + ['def 0 0 e 0 0', 'def 0 1 xe 0', 'c 0 0 0 0', 'c 0 0 0 1', 'c 0 0 1 0', 'e 0 0', 'xl 0'])
        cases.append(base + ['def 0 0 c 0 0 1 1', 'def 0 0 e 0 0', 'def 1 1 d 0 0 0 0', 'c 0 0 0 0', 'e 0 0', 'e 0 0', 'e 0 0'])
        cases.append(base + ['def 0 0 d 0 0 0 0', 'def 0 0 c 0 0 0 0', 'def 0 0 xl 0', 'c 0 0 0 0', 'c 0 0 1 1', 'e 0 0', 'e 0 0'])
        for _ in range(40):
            c = ['@2 2 2 2']
            for _ in range(rng.randrange(6, 16)):
                r = rng.random()
                if r < 0.15:
                    c.append(rng.choice(['c 3 0 0 0', 'e 0 2', 'xl 2', 'xe 2', 'd 0 2 0 0', 'c 0 0 2 0', 'd 2 0 0 0']))
                else:
                    c.append(act(rng, 2, 2, 2, 2, p_emit=0.25, p_destroy=0.15))
            cases.append(c)
        return cases

    def small_enough(self, cases):
        """drop generated programs whose emission tree explodes (more than 200 slot invocations):
        decided by the reference object, before anything is compared"""
        res = run_sharded(self.exes['model'], cases, os.path.join(BUILD, self.id, 'run'), 'cost', ['cost'])
        return [c for c, r in zip(cases, res) if r == ['ok']]

    def streams(self, tier, rng):
        thorough = tier == 'thorough'
        out = []
        # chunks of <= 300 cases: on a broken tree nearly every case of these streams ends in a sanitizer report, and the
        # runner gives up on a stream after 400 restarts
        def chunks(name, cases, note):
            k = 300
            parts = [cases[i:i + k] for i in range(0, len(cases), k)]
            return [Stream(name if len(parts) == 1 else '%s-%d' % (name, j + 1), part, exhaustive=True, note=note) for j, part in enumerate(parts)]
        deep = sorted(set(DEEP_ARITIES) | set(self.suspects)) if thorough else []
        sizes = {}        # (stream, size) -> programs (the reference object's cost filter does not depend on the arity)
        def base(kind, size):
            if (kind, size) not in sizes:
                gen = {'exh': self.exh_cases, 'dcd': self.dcd_cases, 'nest': self.nest_cases}[kind]
                cs = gen(size)
                sizes[(kind, size)] = cs if kind == 'dcd' else self.small_enough(cs)
            return sizes[(kind, size)]
        # suspected arities first: a failing input is searched where the tie says the text differs
        order = list(self.suspects) + [a for a in range(9) if a not in self.suspects]
        for ar in order:
            d = ar in deep
            el, dl, nl = (3, 6, 3) if d else (2, 4, 2)
            tag = 'a%d' % ar
            out += chunks('exh-' + tag, with_arity(base('exh', el), str(ar)),
                          'signals with %d arguments: all action sequences of length <= %d over a 12-action alphabet inside one emission, 2 surrounding configurations (programs with more than 200 slot invocations are dropped)' % (ar, el))
            out += chunks('dcd-' + tag, with_arity(base('dcd', dl), str(ar)),
                          'signals with %d arguments: all words of length <= %d over {disconnect, connect} x {own slot, pending slot} inside one emission, with and without a nested re-emission' % (ar, dl))
            # the two signals of the nest programs get different arities (ar and ar+4 mod 9; the second stream of the
            # pair swaps them), so one emitter carries activations of two different emit templates at once
            out += chunks('nest-' + tag, with_arity(base('nest', nl), '%d%d' % (ar, (ar + 4) % 9)),
                          'signal 0 with %d, signal 1 with %d arguments: recursive re-emission to the depth limit + second signal of the same emitter + pending slot; actor words of length <= %d over a 12-action alphabet, 2 slot orders, 2 depth limits' % (ar, (ar + 4) % 9, nl))
            # multiple inheritance: the same families of programs (at the quick sizes minus one) with listeners / emitters whose
            # Li / Em part is a non-first base (W != Y, V != X, cast slot pointers), two kind assignments per program
            mi = base('exh', 1) + base('dcd', 3) + base('nest', 1)
            mic = []
            for i, c in enumerate(mi):
                for kk in (KINDS[(i + ar) % len(KINDS)], KINDS[(i + ar + 3) % len(KINDS)]):
                    mic += with_arity([c], str(ar) if c[0].split()[2] == '1' else '%d%d' % (ar, (ar + 4) % 9), kk)
            out += chunks('mi-' + tag, mic,
                          'signals with %d arguments, listeners / emitters that are non-first bases of the connected object (template parameters W != Y, V != X; slot pointers cast to the derived class): exh length 1, dcd length <= 3, nest length 1, two kind assignments each' % ar)
        # slots with memory, identical connections, three signals: every program with one arity (all nine in the thorough tier)
        for name, gen, note in (('mem', self.mem_cases, 'slots with memory (`def l s @k action`): slot 0.0 does A at its first and B at every later invocation, all 144 pairs over the 12-action alphabet, 2 surrounding configurations, listeners-first / emitters-first destruction'),
                                ('dup', self.dup_cases, 'identical connections: top-level words of length <= 5 over {connect a, connect b, disconnect a, disconnect b, emit} with >= 2 connect a and a disconnect a, with and without a slot that disconnects / re-connects a while emitting'),
                                ('sig3', self.sig3_cases, 'three signals on one emitter with three different arities, words of length <= 2 over a 10-action alphabet, listeners-first / emitters-first destruction')):
            cs = gen() if name == 'dup' else self.small_enough(gen())
            ars = range(9) if thorough else [None]
            for a0 in ars:
                part = []
                for i, c in enumerate(cs):
                    ar = (i % 9) if a0 is None else a0
                    arr = '%d%d%d' % (ar, (ar + 3) % 9, (ar + 6) % 9) if name == 'sig3' else str(ar)
                    part += with_arity([c], arr, KINDS[i % len(KINDS)] if i % 3 == 2 else '')
                out += chunks(name if a0 is None else '%s-a%d' % (name, a0), part, note)
        def rand_ar():
            pool = self.suspects * 3 + list(range(9))
            return ''.join(str(rng.choice(pool)) for _ in range(3))
        def rand_kinds():
            if rng.random() < 0.4:
                return ''
            return 'k' + ''.join(rng.choice('012') for _ in range(3)) + ' j' + ''.join(rng.choice('01') for _ in range(3))
        ec = self.edge_cases(rng)
        ec = ec[:10] + self.small_enough(ec[10:])
        ec = [c for a in ['0'] + [rand_ar() for _ in range(3)] for c in with_arity(ec, a, rand_kinds() if a != '0' else '')]
        out.append(Stream('edge', ec, note='destroyed objects, unknown signals, never-connected slots, duplicates; arities 0 and 3 random assignments'))
        rc = self.small_enough([self.random_case(rng) for _ in range(6000 if thorough else 1200)])
        rc = [with_arity([c], rand_ar(), rand_kinds())[0] for c in rc]
        out.append(Stream('random', rc, note='random scripts, every signal index with a random arity 0..8; programs with more than 200 slot invocations are dropped'))
        return out


CHECK = C12
