import itertools, os
from vf import Check, Stream, run_sharded, BUILD


def act(rng, ne, nl, nsg, nslot, p_emit=0.2, p_destroy=0.12):
    r = rng.random()
    if r < p_emit:
        return 'e %d %d' % (rng.randrange(ne), rng.randrange(nsg))
    if r < p_emit + p_destroy:
        return rng.choice(['xl %d' % rng.randrange(nl), 'xl %d' % rng.randrange(nl), 'xe %d' % rng.randrange(ne)])
    k = 'c' if rng.random() < 0.5 else 'd'
    return '%s %d %d %d %d' % (k, rng.randrange(ne), rng.randrange(nsg), rng.randrange(nl), rng.randrange(nslot))


# the alphabet of the exhaustive stream: what slot 0 of listener 0 may do while (E0, signal 0) is emitting
ALPHA = ['c 0 0 0 0', 'd 0 0 0 0', 'c 0 0 1 1', 'd 0 0 1 1', 'c 0 0 0 2', 'd 0 0 0 2',
         'e 0 0', 'xl 0', 'xl 1', 'xe 0', 'c 1 0 1 1', 'e 1 0']
POST = ['e 0 0', 'd 0 0 0 0', 'e 0 0', 'xl 0', 'e 0 0', 'e 1 0', 'xl 1', 'e 0 0', 'xe 0', 'xe 1']


class C12(Check):
    id = 'C12'
    comp = 'Callback'
    extracted = ['coq/Callback/model.mli', 'coq/Callback/model.ml', 'ocaml/zconv.ml', 'ocaml/callback_driver.ml']
    harness_sources = ['harness/callback.cpp']
    per_case_timeout = 10
    technique = ('machine-checked proof in Coq about a hand-written Gallina model; model tied to the code by an '
                 'extracted-model vs implementation correspondence check')
    level_text = ('Theorems in Coq, for every script of slot behaviours, every nesting and every fuel: the model of Callback '
                  '(slot lists with connected/connecting/disconnected states, dirty flag, activation chain with invalidation, '
                  'both destructor loops; the code after fixes/C12) run in lock step with the reference object (live connections '
                  'with sequence numbers, watermark of the outermost emission, one cursor per emission) never touches a destroyed '
                  'object, produces exactly the same invocation log, and ends in a state where both sides\' bookkeeping equals the '
                  'live connection list. The model is tied to the code by running extracted model, extracted spec and the '
                  'ASan/UBSan build of the working tree on the same scripts (invocation logs, both sides\' lists, dirty/activation flags).')
    level_note = ('Trusted: Coq kernel, the reference object (CallbackSpec.v), extraction + OCaml driver, harness, generators. '
                  'Clients never hand a destroyed emitter/listener to the library (such script actions are skipped on both sides). '
                  'Maps keyed by pointer are modelled as maps keyed by object id; the destructor loops are modelled in id order '
                  '(their iterations touch disjoint data). Objects are not re-created at the address of a destroyed one. '
                  'The theorems are about the model; the tie to the code is differential.')
    rule = ('cases = programs over 2-3 emitters x 2-3 listeners x up to 4 slots x 1-2 signals whose slots run scripted actions '
            '(connect/disconnect/emit/destroy listener/destroy emitter, also of themselves), nesting depth <= 4; stream exh = all '
            'action sequences of length <= 2 (quick) / <= 3 (thorough) over a 12-action alphabet executed by a slot inside one '
            'emission, under 2 surrounding configurations, followed by re-emission and destruction of every object; stream random = '
            'random scripts and top-level histories; stream edge = actions on destroyed objects, unknown signals, disconnect of '
            'never-connected slots, duplicate connections. A case is non-trivial when at least one slot with a non-empty script was '
            'invoked (re-entrancy actually exercised); distinct = distinct op text')
    assumptions = ['clients never pass a destroyed emitter or listener to connect/disconnect/emit (skipped in scripts)',
                   'no object is created at the address of a destroyed one while stale map keys exist',
                   'pointer-keyed maps modelled as id-keyed maps; destructor loops in id order (iterations are independent)']

    def nontrivial(self, case, obs):
        scripted = set()
        for l in case:
            t = l.split()
            if t[0] == 'def':
                scripted.add('>%s.%s' % (t[1], t[2]))
        for o in obs:
            head = o.split(' | ')[0]
            for tok in head.split(' '):
                k = tok.find('>')
                if k >= 0 and tok[k:] in scripted:
                    return True
        return False

    def exh_cases(self, maxlen):
        cases = []
        for variant in range(2):
            for n in range(1, maxlen + 1):
                for seq in itertools.product(ALPHA, repeat=n):
                    c = ['@2 2 1 3']
                    c += ['def 0 0 ' + a for a in seq]
                    if variant == 0:
                        c += ['def 0 2 d 0 0 1 1']
                        c += ['c 0 0 0 0', 'c 0 0 1 1', 'c 1 0 0 2']
                    else:
                        c += ['def 1 1 d 0 0 0 0', 'def 1 1 c 0 0 0 0', 'def 0 2 e 0 0']
                        c += ['c 0 0 1 1', 'c 0 0 0 0', 'c 0 0 0 2', 'c 1 0 0 0']
                    c += POST
                    cases.append(c)
        return cases

    def dcd_cases(self, maxlen):
        """case split of unlink_slot / connect inside an emission: every word over {disconnect, connect} x {own slot,
        a pending slot} executed by slot 0.0 while (E0, signal 0) is emitting - entries marked disconnected stay in
        the list, so the k-th disconnect has to skip k-1 dead duplicates; then listeners die and E0 emits again"""
        letters = ['d 0 0 0 0', 'c 0 0 0 0', 'd 0 0 1 1', 'c 0 0 1 1']
        cases = []
        for n in range(2, maxlen + 1):
            for seq in itertools.product(letters, repeat=n):
                if not any(a[0] == 'd' for a in seq) or not any(a[0] == 'c' for a in seq):
                    continue
                for nested in (0, 1):
                    c = ['@2 2 1 3'] + ['def 0 0 ' + a for a in seq]
                    if nested:
                        c += ['def 1 2 e 0 0']          # a later slot re-emits: the marks survive a nested activation
                    c += ['c 0 0 0 0', 'c 0 0 1 1']
                    if nested:
                        c += ['c 0 0 1 2']
                    c += ['e 0 0', 'e 0 0', 'xl 0', 'e 0 0', 'xl 1', 'e 0 0', 'xe 0']
                    cases.append(c)
        return cases

    def nest_cases(self, maxlen):
        """case splits of emit_end / invalidated / the destructors: slot 0.0 re-emits the same signal down to the
        depth limit, slot 0.3 emits another signal of the same emitter, slot 1.1 is pending in every one of these
        emissions; an actor slot (before or after the pending one) runs every word over an alphabet of
        disconnect / connect / destroy listener / destroy emitter / emit at the innermost level first"""
        alpha = ['d 0 0 1 1', 'c 0 0 1 1', 'xl 1', 'xl 0', 'xe 0', 'xe 1', 'e 0 0', 'e 0 1', 'e 1 0',
                 'd 0 1 1 1', 'c 0 1 1 1', 'd 0 0 0 3']
        cases = []
        for n in range(1, maxlen + 1):
            for seq in itertools.product(alpha, repeat=n):
                for order in (0, 1):
                    for maxd in (2, 3):
                        c = ['@2 2 2 %d' % maxd, 'def 0 0 e 0 0', 'def 0 3 e 0 1', 'def 1 0 e 1 0']
                        c += ['def 0 2 ' + a for a in seq]
                        c += ['c 0 0 0 0']
                        c += ['c 0 0 0 2', 'c 0 0 1 1'] if order == 0 else ['c 0 0 1 1', 'c 0 0 0 2']
                        c += ['c 0 0 0 3', 'c 0 1 1 1', 'c 0 1 0 2', 'c 1 0 1 1', 'c 1 0 1 0', 'c 1 0 0 2']
                        c += ['e 0 0', 'e 0 1', 'e 1 0', 'e 0 0', 'xl 0', 'e 0 0', 'e 1 0', 'xl 1', 'xe 0', 'xe 1']
                        cases.append(c)
        return cases

    def random_case(self, rng):
        ne, nl = rng.choice([2, 2, 3]), rng.choice([2, 3, 3])
        nsg = rng.choice([1, 1, 2])
        nslot = rng.choice([2, 3])
        maxd = rng.choice([2, 3, 3, 4])
        c = ['@%d %d %d %d' % (ne, nl, nsg, maxd)]
        emits_left = 3 if maxd >= 4 else 4
        for l in range(nl):
            for s in range(nslot):
                for _ in range(rng.choice([0, 0, 1, 2, 3])):
                    a = act(rng, ne, nl, nsg, nslot, p_emit=0.22 if emits_left > 0 else 0.0)
                    if a.startswith('e '):
                        emits_left -= 1
                    c.append('def %d %d %s' % (l, s, a))
        # top level: mostly connects first, then a mix
        for _ in range(rng.randrange(3, 8)):
            c.append('c %d %d %d %d' % (rng.randrange(ne), rng.randrange(nsg), rng.randrange(nl), rng.randrange(nslot)))
        for _ in range(rng.randrange(3, 10)):
            r = rng.random()
            if r < 0.5:
                c.append('e %d %d' % (rng.randrange(ne), rng.randrange(nsg)))
            else:
                c.append(act(rng, ne, nl, nsg, nslot, p_emit=0.0, p_destroy=0.2))
        for e in range(ne):
            for sg in range(nsg):
                c.append('e %d %d' % (e, sg))
        for l in range(nl):
            c.append('xl %d' % l)
            c.append('e %d 0' % rng.randrange(ne))
        return c

    def edge_cases(self, rng):
        cases = []
        base = ['@2 2 2 3']
        cases.append(base + ['e 0 0', 'd 0 0 0 0', 'c 0 0 0 0', 'd 0 1 0 0', 'd 0 0 1 0', 'd 1 0 0 0', 'e 0 0', 'e 0 1'])
        cases.append(base + ['c 0 0 0 0', 'c 0 0 0 0', 'c 0 0 0 0', 'e 0 0', 'd 0 0 0 0', 'e 0 0', 'd 0 0 0 0', 'd 0 0 0 0', 'd 0 0 0 0', 'e 0 0'])
        cases.append(base + ['c 0 0 0 0', 'xe 0', 'e 0 0', 'c 0 0 0 0', 'd 0 0 0 0', 'xl 0', 'xl 0', 'xe 0', 'c 1 0 0 0', 'e 1 0'])
        cases.append(base + ['c 0 5 0 0', 'e 0 5', 'c 7 0 0 0', 'c 0 0 9 0', 'e 9 0', 'xl 9', 'xe 9', 'd 0 5 0 0'])
        cases.append(base + ['c 0 0 0 0', 'c 1 0 0 0', 'xe 0', 'xl 0', 'e 1 0', 'c 1 1 1 1', 'xl 1', 'xe 1'])
        cases.append(base + ['def 0 0 xl 0', 'c 0 0 0 0', 'c 0 0 0 1', 'c 0 0 1 0', 'e 0 0', 'e 0 0'])
        cases.append(base + ['def 0 0 xe 0', 'c 0 0 0 0', 'c 0 0 0 1', 'c 0 0 1 0', 'e 0 0', 'e 0 0', 'xl 0', 'xl 1'])
        cases.append(base + ['def 0 0 e 0 0', 'def 0 1 xe 0', 'c 0 0 0 0', 'c 0 0 0 1', 'c 0 0 1 0', 'e 0 0', 'xl 0'])
        cases.append(base + ['def 0 0 c 0 0 1 1', 'def 0 0 e 0 0', 'def 1 1 d 0 0 0 0', 'c 0 0 0 0', 'e 0 0', 'e 0 0', 'e 0 0'])
        cases.append(base + ['def 0 0 d 0 0 0 0', 'def 0 0 c 0 0 0 0', 'def 0 0 xl 0', 'c 0 0 0 0', 'c 0 0 1 1', 'e 0 0', 'e 0 0'])
        for _ in range(40):
            c = ['@2 2 2 2']
            for _ in range(rng.randrange(6, 16)):
                r = rng.random()
                if r < 0.15:
                    c.append(rng.choice(['c 3 0 0 0', 'e 0 2', 'xl 2', 'xe 2', 'd 0 2 0 0', 'c 0 0 2 0', 'd 2 0 0 0']))
                else:
                    c.append(act(rng, 2, 2, 2, 2, p_emit=0.25, p_destroy=0.15))
            cases.append(c)
        return cases

    def small_enough(self, cases):
        """drop generated programs whose emission tree explodes (more than 200 slot invocations):
        decided by the reference object, before anything is compared"""
        res = run_sharded(self.exes['model'], cases, os.path.join(BUILD, self.id, 'run'), 'cost', ['cost'])
        return [c for c, r in zip(cases, res) if r == ['ok']]

    def streams(self, tier, rng):
        thorough = tier == 'thorough'
        out = []
        out.append(Stream('exh', self.exh_cases(3 if thorough else 2), exhaustive=True,
                          note='all action sequences of length <= %d over a 12-action alphabet inside one emission, 2 surrounding configurations' % (3 if thorough else 2)))
        out.append(Stream('dcd', self.dcd_cases(6 if thorough else 5), exhaustive=True,
                          note='all words of length <= %d over {disconnect, connect} x {own slot, pending slot} inside one emission, with and without a nested re-emission' % (6 if thorough else 5)))
        out.append(Stream('nest', self.small_enough(self.nest_cases(3 if thorough else 2)), exhaustive=True,
                          note='recursive re-emission to the depth limit + second signal of the same emitter + pending slot; actor words of length <= %d over a 12-action alphabet, 2 slot orders, 2 depth limits' % (3 if thorough else 2)))
        ec = self.edge_cases(rng)
        out.append(Stream('edge', ec[:10] + self.small_enough(ec[10:]), note='destroyed objects, unknown signals, never-connected slots, duplicates'))
        out.append(Stream('random', self.small_enough([self.random_case(rng) for _ in range(6000 if thorough else 1200)]),
                          note='random scripts; programs with more than 200 slot invocations are dropped'))
        return out


CHECK = C12
