import os, sys, hashlib, re, json
from vf import Check, Stream, TieBroken, VERIF, BUILD, REPO, sh, log, first_diff
sys.path.insert(0, os.path.join(os.path.dirname(os.path.abspath(__file__)), '..', 'gen'))
import tables_future

QUICK_MUL = 22  # stream sizes of the quick tier (thorough: eight times as many)
NF = 8  # futures a generated case uses at most (harness/driver allow 64)


def cfg_line(kind='wl', cmin=0, cmax=3, q=4, ncl=1, scale=1, lazy=0, perturb=0, seed=1):
    return '@%s %d %d %d %d %d %d %d %d' % (kind, cmin, cmax, q, ncl, scale, lazy, perturb, seed)


def gen_script(rng, ncl, nops, nf=NF, work3=0.06, pauses=0.1, long_pause=0.0, works=(0, 0, 1, 2), destroy=0.04):
    """Random admissible client scripts.  Every future belongs to one client (f mod ncl).
    A call with work 3 (its function polls isAborting()) is started by any client; until that client has
    called abort() on it, it only aborts, queries and pauses (FutureSpec.valid_script: then the function
    terminates for every pool size and queue capacity)."""
    ops = []
    futs = {c: [f for f in range(nf) if f % ncl == c] for c in range(ncl)}
    pending3 = set()      # futures whose current call waits for abort
    pend = {}             # client -> its future whose call waits for abort
    arg = rng.randrange(1000)
    for _ in range(nops):
        c = rng.randrange(ncl)
        if not futs[c]:
            continue
        f = rng.choice(futs[c])
        r = rng.random()
        if c in pend:
            # only abort, check, or pause are admissible for this client until the abort has been requested
            g = pend[c]
            if r < 0.5:
                ops.append('c %d abort %d' % (c, g))
                pending3.discard(g)
                del pend[c]
            elif r < 0.6:
                ops.append('c %d abort %d' % (c, f))
                if f == g:
                    pending3.discard(g)
                    del pend[c]
            elif r < 0.8:
                ops.append('c %d check %d' % (c, rng.choice([f, g])))
            else:
                ops.append('c %d pause %d' % (c, rng.randrange(3)))
            continue
        if r < 0.42:
            arg += 1 + rng.randrange(5)
            w = 3 if rng.random() < work3 else rng.choice(works)
            verb = 'start' if rng.random() < 0.8 else rng.choice(START_VARIANTS)
            ops.append('c %d %s %d %d %d' % (c, verb, f, arg * (1 if rng.random() < 0.9 else -1), w))
            if w == 3:
                pending3.add(f)
                pend[c] = f
        elif r < 0.58:
            ops.append('c %d join %d' % (c, f))
        elif r < 0.72:
            ops.append('c %d get %d' % (c, f))
        elif r < 0.84:
            ops.append('c %d check %d' % (c, f))
        elif r < 0.90:
            ops.append('c %d abort %d' % (c, f))
        elif r < 0.90 + destroy:
            ops.append('c %d destroy %d' % (c, f))     # delete (the destructor joins) + new
        else:
            if rng.random() < long_pause:
                ops.append('c %d pause %d' % (c, rng.choice([20, 40, 80])))
            elif rng.random() < pauses * 5:
                ops.append('c %d pause %d' % (c, rng.randrange(4)))
    for f in sorted(pending3):
        ops.append('c %d abort %d' % (f % ncl, f))
    return ops


# Targeted-delay profiles: `gate rule` lines (harness/future.cpp, "gates") with the action `sleep`:
# a thread of the given role sleeps <us> microseconds, with probability <permille>/1000, at a point
# identified by (pre|post|wake|bcast, object, operand, result).  Model and spec read them as pauses.
PROFILES = {
    # worker before FastSignal::reset()'s swap / between the swap and the inner Signal::reset();
    # client before it counts the pushed job
    'sleepwake': ['w pre enq 0 * 1000000 sleep 300 250', 'w post enq 0 1 1000000 sleep 300 350',
                  '* pre pushed * * 1000000 sleep 150 200'],
    # worker before the swap of Future::_state (after the call) and after the broadcast of a
    # Future's signal (the end of Future<void>::set())
    'handshake': ['w pre fut * * 1000000 sleep 250 500', 'w bcast fut * * 1000000 sleep 250 500'],
    # queue: between claiming a ticket (CAS on _head/_tail) and publishing the slot
    'publish': ['* pre nhead * * 1000000 sleep 120 300', '* pre ntail * * 1000000 sleep 120 300',
                '* post tail * * 1000000 sleep 60 150', '* post head * * 1000000 sleep 60 150'],
    # worker in front of the pthread_cond_broadcast of a Future's Signal (inside Signal::set())
    'lifetime': ['w prebc fut * * 1000000 sleep 250 700'],
    # POSIX allows pthread_cond_wait to return without a signal: one wait in four does, on every
    # condition variable (the Futures' and the pool's); the worker is slow to publish the completion
    # the started function is slow to begin (so that what the client does next - destroy, start - comes first)
    'resultslot': ['w job fut * * 1000000 sleep 300 600'],
    'spurious': ['* cwait * * * 1000000 spurious 250', 'w pre fut * * 1000000 sleep 150 500'],
}


def profile_lines(name):
    return ['c 0 gate rule %d %s' % (i, r) for i, r in enumerate(PROFILES[name])]


STRING_VARIANTS = ['start', 'starts', 'startf3', 'startf4', 'startm2', 'startm3']   # what harness/future.cpp has for Future<String>
START_VARIANTS = ['start', 'startf0', 'startf1', 'startf3', 'startf4', 'startf5', 'startm0', 'startm1', 'startm2', 'startm3', 'startm4']


def gen_variants(rng, ncl, ncalls):
    """Every overload of Future<A>::start and Future<void>::start (free functions of arity 0-5, member
    functions of arity 0-4) on Future<int64> slots 0-7 and Future<void> slots 8-15, and the overloads the
    harness has for Future<String> (slots 56-59: String / const String& parameters, int arguments for int64
    parameters); results and echoes taken right away.  The same calls for model and spec."""
    ops = []
    a = rng.randrange(1000)
    for _ in range(ncalls):
        c = rng.randrange(ncl)
        f = rng.choice([f for f in list(range(16)) + [56, 57, 58, 59] if f % ncl == c])
        a += 1 + rng.randrange(9)
        arg = a if rng.random() < 0.85 else -a
        ops.append('c %d %s %d %d %d' % (c, rng.choice(START_VARIANTS if f < 56 else STRING_VARIANTS), f, arg, rng.choice([0, 0, 0, 1, 2])))
        k = rng.randrange(5)
        if k == 0 and (f < 8 or f >= 56):
            ops += ['c %d get %d' % (c, f)]
        elif k == 1:
            ops += ['c %d join %d' % (c, f), 'c %d check %d' % (c, f)]
        elif k == 2:
            ops += ['c %d abort %d' % (c, f), 'c %d join %d' % (c, f), 'c %d check %d' % (c, f)]
        elif k == 3:
            ops += ['c %d destroy %d' % (c, f)]
        # else: left running; the next start on the slot, or the end of the case, joins it
    return ops


def gen_reuse(rng, ncl, ncalls):
    """One Future object used again and again: start, take the result, start again, take the result -
    the second result must be the second call's (distinct arguments), also after an abort and with
    the join done by the next start."""
    ops = []
    a = rng.randrange(1000)
    fs = {c: [f for f in range(4) if f % ncl == c] for c in range(ncl)}
    for _ in range(ncalls):
        c = rng.randrange(ncl)
        f = rng.choice(fs[c])
        for rep_ in range(rng.choice([2, 2, 3, 4])):
            a += 1 + rng.randrange(9)
            ops.append('c %d %s %d %d %d' % (c, rng.choice(['start', 'start', 'startf3', 'startm2']), f, a, rng.choice([0, 0, 1])))
            k = rng.randrange(8)
            if k <= 2:
                ops.append('c %d get %d' % (c, f))
            elif k == 3:
                ops += ['c %d join %d' % (c, f), 'c %d get %d' % (c, f)]
            elif k == 4:
                ops += ['c %d join %d' % (c, f), 'c %d check %d' % (c, f), 'c %d get %d' % (c, f)]
            elif k == 6:     # after an abort: the result is still the call's, the next start clears the request
                ops += ['c %d abort %d' % (c, f), 'c %d get %d' % (c, f), 'c %d check %d' % (c, f)]
            elif k == 7:
                ops += ['c %d abort %d' % (c, f)]          # the next start joins the aborted call
            # k == 5: the next start joins
        ops.append('c %d get %d' % (c, f))
    return ops


def gen_nested(rng, ncl, ncalls):
    """Started functions that start another future themselves (work = 4 + child slot, child slots
    16..): "started from any threads".  Used with a queue that cannot fill (see the open finding)."""
    ops = []
    a = rng.randrange(1000)
    child = 16
    for _ in range(ncalls):
        c = rng.randrange(ncl)
        f = rng.choice([f for f in range(NF) if f % ncl == c])
        a += 1 + rng.randrange(9)
        if rng.random() < 0.6 and child < 40:
            ops.append('c %d start %d %d %d' % (c, f, a, 4 + child))
            child += 1
        else:
            ops.append('c %d start %d %d %d' % (c, f, a, rng.choice([0, 1])))
        k = rng.randrange(4)
        if k == 0:
            ops.append('c %d get %d' % (c, f))
        elif k == 1:
            ops.append('c %d join %d' % (c, f))
    return ops


PIN_FILES = ['src/Future.cpp', 'include/nstd/Future.hpp']


def pin_of(rel):
    """sha256 of the token sequence of a source file of the tree under test (comments and white space removed)"""
    return hashlib.sha256(' '.join(tables_future._read(rel)).encode('latin-1', 'replace')).hexdigest()


OPEN_NESTED = 'corpus/C10/open/nested-start-full-queue.ops'


def gen_lifetime(rng, ncl, ncalls, nf=NF):
    """start, wait for the result, destroy the Future at once (delete + new): `Future<T>* f = new …;
    f->start(…); x = *f; delete f;` or a Future on the stack of a function that returns."""
    ops = []
    a = rng.randrange(1000)
    for _ in range(ncalls):
        c = rng.randrange(ncl)
        f = rng.choice([f for f in range(nf) if f % ncl == c])
        a += 1 + rng.randrange(7)
        ops.append('c %d start %d %d %d' % (c, f, a, rng.choice([0, 0, 1])))
        k = rng.randrange(4)
        if k == 0:
            ops += ['c %d get %d' % (c, f), 'c %d destroy %d' % (c, f)]
        elif k == 1:
            ops += ['c %d join %d' % (c, f), 'c %d destroy %d' % (c, f)]
        elif k == 2:
            ops += ['c %d destroy %d' % (c, f)]                      # the destructor does the join
        else:
            ops += ['c %d join %d' % (c, f), 'c %d get %d' % (c, f), 'c %d check %d' % (c, f), 'c %d destroy %d' % (c, f), 'c %d check %d' % (c, f)]
    return ops


def gen_strings(rng, ncl, ncalls):
    """Future<String> (slots 56-63): a result type with a destructor and heap storage.  The result slot is
    written by the worker and destroyed by ~Future<A> - after its join().  `destroy` right after `start`
    (the destructor does the only join) on an object whose result slot already holds a heap value, and
    after a first `get`; String and converted (int -> int64) arguments."""
    ops = []
    a = rng.randrange(1000)
    for _ in range(ncalls):
        c = rng.randrange(ncl)
        f = rng.choice([f for f in range(56, 64) if f % ncl == c])
        a += 1 + rng.randrange(7)
        st = lambda w: 'c %d %s %d %d %d' % (c, rng.choice(STRING_VARIANTS), f, a if rng.random() < 0.9 else -a, w)
        k = rng.randrange(6)
        if k <= 1:
            ops += [st(rng.choice([0, 1])), 'c %d get %d' % (c, f)]
            a += 1
            ops += [st(rng.choice([1, 2, 2])), 'c %d destroy %d' % (c, f)]
        elif k == 2:
            ops += [st(rng.choice([0, 1, 2])), 'c %d destroy %d' % (c, f)]
        elif k == 3:
            ops += [st(rng.choice([0, 1])), 'c %d join %d' % (c, f), 'c %d check %d' % (c, f), 'c %d get %d' % (c, f)]
            a += 1
            ops += [st(rng.choice([0, 2])), 'c %d get %d' % (c, f)]
        elif k == 4:
            ops += [st(rng.choice([0, 1])), 'c %d get %d' % (c, f), 'c %d destroy %d' % (c, f), 'c %d check %d' % (c, f)]
        else:
            ops += [st(rng.choice([1, 2])), 'c %d abort %d' % (c, f), 'c %d join %d' % (c, f), 'c %d check %d' % (c, f),
                    'c %d get %d' % (c, f), 'c %d destroy %d' % (c, f)]
    return ops


def gen_handshake(rng, ncl, ncalls, nf=NF):
    """start / join / check / get in close succession: what a caller sees right after join() returned."""
    ops = []
    a = rng.randrange(1000)
    for _ in range(ncalls):
        c = rng.randrange(ncl)
        fs = [f for f in range(nf) if f % ncl == c]
        f = rng.choice(fs)
        a += 1 + rng.randrange(7)
        ops.append('c %d start %d %d %d' % (c, f, a, rng.choice([0, 0, 1])))
        k = rng.randrange(5)
        if k == 0:
            ops += ['c %d join %d' % (c, f), 'c %d check %d' % (c, f)]
        elif k == 1:
            ops += ['c %d get %d' % (c, f)]
        elif k == 2:
            ops += ['c %d join %d' % (c, f), 'c %d get %d' % (c, f), 'c %d check %d' % (c, f)]
        elif k == 3:
            ops += ['c %d get %d' % (c, f), 'c %d check %d' % (c, f)]
        else:
            ops += ['c %d abort %d' % (c, f), 'c %d join %d' % (c, f), 'c %d check %d' % (c, f)]
    return ops


class C10(Check):
    id = 'C10'
    comp = 'Future'
    extracted = ['coq/Future/model.mli', 'coq/Future/model.ml', 'ocaml/zconv.ml', 'ocaml/future_driver.ml']
    harness_sources = ['harness/future.cpp']
    harness_link_flags = ['-Wl,--wrap=pthread_cond_wait,--wrap=pthread_cond_broadcast']
    per_case_timeout = 20
    retry_timeouts = False   # real threads: a hang observed once is evidence and may not repeat
    # NOTE (harness agent): the texts below describe the tie between model and code only; the proof
    # part (theorems, what is modelled/proved) is to be completed by the owner of coq/Future.
    level_text = ('Theorems in Coq, for every schedule (list of thread moves) and every well-formed configuration (queue capacity, '
                  'pool bounds, lazy pool creation, any number of client threads, futures and script operations, any started '
                  'function; well-formed = capacity >= 1, every future used by ONE client thread, started functions do not start '
                  'futures themselves) of an executable interleaving model of src/Future.cpp + Future.hpp + Signal::set (threads = '
                  'program counters over the atomic steps of the code: MPMC ring push/pop with per-slot sequence numbers, FastSignal '
                  'set/reset/wait split at the atomic operation and the inner Signal, worker loop, ThreadPool::run with back-pressure, '
                  'growing and shrinking, lazy pool creation under the spin lock, Future start/join/abort/set/result/destructor): an '
                  'inductive invariant (ring ticket invariant composed with "who holds which call" clauses and a trace property) gives: '
                  'each started call is executed at most once; when join()/the destructor/the result conversion returns the call '
                  'has been executed exactly once with the arguments given and has completed; the converted result is the '
                  "function's return value, also for a conversion after an earlier join() (the value of the LATEST start); when the "
                  'DESTRUCTOR returns no worker holds the call record or stands inside the completion handshake any more (proved for '
                  'Signal::set as repaired by fixes/C10/04, refuted by a machine-checked witness for Signal::set as it was: unlock, then '
                  'broadcast on a possibly destroyed condition variable - a genuine defect, repaired); the RESULT SLOT (member `result` of '
                  'Future<A>, destroyed by ~Future<A> after its join()) dies only after the latest started call has run, once, and has '
                  'stored its return value (result_slot_outlives_execution, no hypothesis on Signal::set; the model has ONE join in the '
                  'destructor - a ~Future<A> without its join() is outside the model and is seen by the harness only: Future<String> '
                  'slots under ASan); after join the state is aborted '
                  'only if abort() was requested since the start and finished otherwise; no ring slot is handed to two consumers or '
                  'producers, a pop returns the job pushed under its ticket, queued jobs are not lost. LIVENESS ("every join eventually '
                  'returns"): PROVED IN PART. (A) DEADLOCK FREEDOM IS A THEOREM (no_reachable_deadlock): for every schedule and every '
                  'well-formed configuration of the repaired code (any number of clients, futures, script operations and workers, any '
                  'queue capacity >= 1, _minThreads >= 0, _maxThreads >= 2 - the constructor raises it to 3 -, no started function that '
                  'polls isAborting() or starts a future) no reachable state has every thread blocked while a client script is '
                  'unfinished - EVERY thread: the theorem does NOT cover a client that waits in join() while some other thread keeps '
                  'moving (the spinning idle worker below is such a thread), and "from every reachable state some continuation '
                  'finishes all clients" (no reachable trap) is NOT a theorem; what the invariant says about a waiting join is only '
                  'the clause quoted below (its call is queued, being pushed, or held by a worker that is not blocked); it follows from a second inductive invariant (wakeup_invariant_all_schedules): the wake-up bookkeeping of '
                  'the two FastSignals that the repairs fixes/C10/01-03 establish, the accounting of _threadCount / _pushedJobs / '
                  '_processedJobs against live workers, queued null jobs and clients about to start a worker, and "the call of a started, '
                  'unfinished future is in its owner\'s push loop, queued, or held by a worker that is not blocked"; hence while a client '
                  'is unfinished some thread can take a step that changes the state (some_thread_can_move), and a state changes no more '
                  'exactly when every thread is blocked (join_liveness_partial). (B) NOT PROVED: that under a fair scheduler every join '
                  'returns after finitely many moves. Proved towards it: while a client is unfinished every window of moves that schedules '
                  'each existing thread at least once contains a state-changing move (fair_window_has_effective_move, '
                  'fair_progress_partial). Missing: a rank that the moves that matter decrease; it is NOT the number of state-changing '
                  'moves - state_changing_moves_unbounded is a machine-checked reachable state of the repaired code in which an idle '
                  'worker spins (pop - reset - pop - wait, 7 state-changing moves back to the same state, because set() racing with '
                  'reset() left _state == 0 with the inner Signal set; no join waits for it). This part is validated by sampled fair runs '
                  'of the model and by real-thread runs only. The clause is refuted by machine-checked witnesses (a) for '
                  'the sleep/wake handshake as it was before fixes/C10/01-03 (three genuine lost-wake-up defects, repaired) and (b) for '
                  'the code as it is now when started functions start futures themselves ("started from any threads": workers block in '
                  'start() on a full queue that only workers drain - OPEN finding). The model is tied to the code by running the '
                  'same client scripts on the extracted model/spec and on an ASan/UBSan build of the working tree with real threads under '
                  'injected delays, spurious wake-ups and gated replays of model schedules.')
    level_note = ('PROVED (Properties_C10.v, 28 theorems, all closed under the global context): model_invariant_all_schedules, '
                  'each_call_runs_at_most_once, joined_call_ran_exactly_once, run_uses_given_arguments, starts_unique, '
                  'result_is_return_value, result_after_join (OGet of a future that is not joinable = return value of the latest start), '
                  'destructor_waits_for_worker (c_sigfix = true: every EvDestroy is clean = no thread stands at PopRead/PopRelease/KWSet/'
                  'KWRearm/WCall/WStore/WRdAbort/WSwap/WSigSet/WBcast for that future), destructor_waits_refuted_original (c_sigfix = '
                  'false: a schedule ends with the worker in front of the broadcast and the Future destroyed), result_slot_outlives_execution '
                  '(trace = newer ++ EvDestroy c f _ :: older and the latest start of f in older is its n-th with argument a => runs older '
                  'f n = 1 and EvStore f n (fn a) is in older; for c_sigfix true and false), aborted_only_if_requested, '
                  'ring_ticket_invariant, ring_no_two_consumers, ring_no_two_producers, ring_pop_reads_pushed, ring_no_job_lost, '
                  'join_liveness_partial (forall t clk, step leaves s unchanged <-> all_blocked s; all_blocked is permanent), '
                  'deadlock_is_permanent, join_liveness_refuted_original (OLD handshake, c_fixed = false, 170-move witness), '
                  'join_liveness_refuted_nested_start (code as it is now, c_nested = true: three started functions that each start another '
                  'future, queue capacity 1, 115-move witness ends with the three workers in the back-pressure loop of ThreadPool::run and '
                  'the client in join(); no started function waits for abort() or a future). Hypothesis of all safety theorems: wf_cfg = '
                  'capacity >= 1, every future named in a script exists and is used by ONE client thread (two threads operating one Future '
                  'object concurrently is outside the statement), c_nested = false (started functions that start futures are outside the '
                  'safety theorems; they are covered by the correspondence runs - stream nested - and by the refutation above). '
                  'LIVENESS, part (A), PROVED for all schedules and all configurations with wf_cfg, c_fixed = c_sigfix = true (c_sigfix is '
                  'not needed by the argument - WBcast is one more non-blocking step of a worker - but the 20 clauses of LInv classify '
                  'program counters and have no class for WBcast; the hypothesis is the tree as it is, it was not removed), '
                  'terminating_scripts (no start with work = 3, the function that polls isAborting()), 0 <= c_min, 2 <= c_max: '
                  'wakeup_invariant_all_schedules (LInv, FutureLiveDefs.v: 20 clauses, each an arithmetic statement over the number of '
                  'threads whose program counter lies in a class - lock holders = lock word; _threadCount = live workers that have not '
                  'taken a null job + contexts about to be started - queued null jobs + pending decrements, and the first three terms are '
                  '>= 0; _pushedJobs + claimed-but-uncounted = _processedJobs + queued calls + held calls; for every queued call: a worker '
                  'is left after the null jobs AHEAD of it in the queue, or a client stands between its push and the worker-count '
                  'decision with values that force it to start one; FastSignal: _state set => flag set or somebody inside set()/reset() '
                  'past the _state access (fixes/C10/02); queue non-empty => enqueued _state set or a pending setter (producer past its '
                  'claim, shrink push = fixes/C10/03, worker after a successful SECOND pop = fixes/C10/01) or a worker re-examining the '
                  'queue after its reset with an up-to-date or still valid head; a producer in the full-queue path => queue non-empty or '
                  'dequeued _state set or a reader about to set it or a producer re-examining after its reset; two ring clauses (a claimed '
                  'ticket is published or being written; the slot of a future ticket is free or its previous lap is queued or being read); '
                  'phase of a future => where its call is; join waits only on a joinable future; per-thread typing), '
                  'all_blocked_means_clients_done (GInv + LInv + every thread blocked => no client unfinished), no_reachable_deadlock '
                  '(deadlocked cfg (fst (exec cfg sched)) = false), some_thread_can_move (client unfinished => exists a thread that is not '
                  'blocked and whose step changes the state). The hypotheses 0 <= c_min and 2 <= c_max are facts of the code (usize; the '
                  'constructor sets _maxThreads >= 3) and are needed: Example deadlock_without_workers (c_max = 0). Every candidate clause was '
                  'first evaluated on all states of explicit-state searches and random runs of the extracted model (a scratch mode of the '
                  'driver: 1 client/capacity 1 exhausted at 3.2M states, 2 and 3 clients 6M and 4M states, random runs with 4 clients 20M '
                  'states, no violation; the same evaluation flags the FastSignal clause on the handshake as it was) before it was proved. '
                  'NOT PROVED, part (B): termination under fairness (every thread that is not blocked moves eventually => every join '
                  'returns after finitely many moves). Proved towards it: effective_moves counts the moves of a schedule made by threads '
                  'that are not blocked; each changes the state (effective_move_changes_the_state); fair_window_has_effective_move (reachable '
                  'state, a client unfinished, a window in which every thread index below the current thread count occurs => the window '
                  'contains an effective move) and fair_progress_partial (n consecutive such windows with a client still unfinished at the '
                  'end => at least n effective moves). The missing half is a rank that decreases along the moves that matter. It cannot be '
                  'a function of the state that decreases at every effective move: state_changing_moves_unbounded (witness replayed by '
                  'vm_compute: 1 client, pool 0..3, queue 4, 59 moves, then worker 2 alone makes 7 effective moves and the state is the same '
                  'again - FastSignal::set of the producer (testAndSet(_state) ... _signal.set()) interleaved with reset() of a worker leaves '
                  '_state == 0 with the inner Signal set, wait() then returns at once and reset() does nothing: an idle worker busy-spins '
                  'until the next set()/reset() pair; harmless for join, so no finding, but it burns a core). A proof of (B) needs the '
                  'helpful-thread form of the argument (some thread whose moves lower the rank is enabled and stays enabled; CAS retries are '
                  'paid by the claim that made them fail, pop-reset-pop-wait / push-reset-push-wait iterations by the set() that ended the '
                  'wait; spinning workers leave the rank alone); not formalised. It is validated '
                  'only by sampling: (1) every model run of the check follows a pseudo-random schedule that picks among the threads able '
                  'to move (a fair scheduler with probability one) and ends with all clients finished within the step budget (a run that '
                  'does not would print `! timeout`); (2) the real-thread runs below. The exhaustive explicit-state searches '
                  '(ocaml/future_driver.ml search: 1 client, 3 workers, windows of 4 script operations, queue capacity 4, 9.3M states, and '
                  '1, 15.5M states; 2 clients, 3 futures, capacity 1, the whole run, 7.0M states) look for reachable deadlocks only - what '
                  'they found absent in those bounds is now the theorem; the same search finds the deadlocks of the old '
'handshake and a random-schedule hunt finds the nested-start deadlock; (2) the real-thread runs below. Fairness of the OS '
                  'scheduler is not modelled. Modelling abstractions: sequential consistency (visibility on real hardware is not modelled); '
                  'Signal (mutex+condvar+flag) is an atomic flag with a wait that passes iff set (its own correctness, including spurious '
                  'wake-ups, is C11) - only the position of the broadcast in Signal::set relative to the unlock is modelled (WBcast); '
                  '`delete` of a Future = destructor (join) + EvDestroy, the object created afterwards is another future index (memory '
                  're-use is not modelled); Time::ticks is a scheduler-chosen bit; the Thread object list (_threads/_terminated), '
                  '~ThreadPool and deletion of the call record are not modelled (observation, no part of the property: ~ThreadPool pushes one '
                  'null job per worker context, also for contexts of workers that have retired and were not yet removed by a later start(); '
                  'with a queue smaller than the number of such stale contexts the destructor waits for room for ever - impossible with the '
                  'library\'s own capacity 256, reachable with the capacity-1 pools of the cases: under CPU load 1 shrink case in ~1500 ended '
                  'with two stale contexts; the harness therefore removes terminated contexts with the library\'s own clean-up loop before it '
                  'deletes the pool); a Thread::start that fails leaves _threadCount incremented '
                  '(the pool then believes in a worker that does not exist; not modelled, Thread::start never fails in the runs); counters are '
                  'unbounded. OPEN FINDING (proposed known_findings entry, witness corpus/C10/open/nested-start-full-queue.ops): a started '
                  'function that starts another future blocks in start() for ever when the queue is full and every worker is inside such a '
                  'function; a repair (workers must not wait in the back-pressure loop: run the job inline, or an unbounded hand-off for '
                  'worker-side starts) changes the design of ThreadPool::run. '
                  'SPEC (FutureSpec.v, the oracle of the runs; no theorem connects it with the model): after a join the expected state is F when '
                  'abort() was not requested since the start and `FA` (exactly one of isFinished()/isAborted(), the text does not say '
                  'which) when it was - also for a function that returned because it saw isAborting(); that the code reports A there is a '
                  'model-only fact (correspondence, reported as no-failing-input-found when it changes). Admissible scripts: between the '
                  'start of a call that polls isAborting() and the abort() of that future its owner only aborts, queries and pauses - then '
                  'the premise "the started functions terminate" holds for every pool size >= 1 and queue capacity >= 1 (a start(), join, '
                  'conversion or destructor in between can wait for a worker that the polling function occupies; the earlier rule "at '
                  'most two pending because the pool has three workers" used a fact of the code). Lines of the spec that are DELIBERATE '
                  'STRENGTHENINGS of the text (a text-harmless edit that changes them is reported with an input): `ab` = isAborting() is '
                  'true exactly from abort() to the next start(); `st I` for a Future that was never started (also the new object after '
                  'destroy); `pool pushed n` = one run() per start; `quiet 1` = after the last join the ring is empty and every job '
                  'counted; `tc_ok` = worker count <= _maxThreads. '
                  'Tie between model/spec and the C++ (validated by correspondence only, not proved): the harness includes the '
                  'working tree\'s src/Future.cpp, installs a ThreadPool(min,max,queue) per case and runs the client scripts as real '
                  'threads; every __sync builtin in Future.cpp (force-included harness/future_points.h) calls a hook before and after, '
                  'pthread_cond_wait/pthread_cond_broadcast of libnstd are wrapped (ld --wrap). The hooks inject (a) pseudo-random '
                  'yields/sleeps per (case seed, thread), (b) targeted delays at named points (profiles sleepwake/handshake/publish/'
                  'lifetime), (c) spurious returns of pthread_cond_wait (profile spurious), (d) gated replays (corpus/C10: a thread is held '
                  'at a point until another thread has passed another point; every gate wait is bounded, so a gate cannot hang a case). '
                  'Every Future the harness creates is registered with its address range from `new` until `delete` has returned; a '
                  'pthread_cond_broadcast of libnstd on a condition variable outside the pool\'s two signals and outside every live Future '
                  'is counted (`lifetime late n`; ASan cannot see it because glibc is not instrumented). Started functions: free functions '
                  'of arity 0-5 and member functions of arity 0-4 on Future<int64> and Future<void> (every one of the 22 overloads of start), '
                  'with argument echo; member functions also check that they run on the object given to start() (`this`), not on a copy; '
                  'a third slot family Future<String> (slots 56-63: the result has a destructor and heap storage, so a worker that assigns '
                  'the result after ~Future<A> destroyed it is an ASan report; free functions of arity 2-4 and member functions of arity '
                  '2-3 with a const String& parameter (`starts`), parameters of a heap-owning type that converts from and to int64 (by value and by '
                  'const reference) and int arguments for int64 parameters: P != D in the call records); in addition gen/tables_future.py re-reads Future.hpp and Call.hpp on every run and compares the 22 start '
                  'overloads, the 2 proc templates and the 22 call records token by token with the single template written out per arity '
                  '(TieBroken names the overload that differs), and compares the token text of src/Future.cpp and Future.hpp with a pin taken '
                  'when the model was last read against them (coq/Future/source.pin): an edit of push/pop/FastSignal/the worker loop/run/'
                  'startProc/set/join/~Future is at least a broken tie (no-failing-input-found) even when no sampled interleaving shows it. '
                  'The observations compared are schedule-independent facts only: execution counter and argument echo per call, '
                  'converted results, join-after-completion stamps, isFinished/isAborted after join, number of run() calls, worker count '
                  '<= max, quiescence after the last join (ring empty, processed == pushed), no broadcast on a destroyed Future, no '
                  'deadlock within a 20 s watchdog (its report `deadlock phase=… queue… enq.state…` is an observation, so a hang is a spec '
                  'mismatch; a hang is relabelled as the OPEN finding only when the report shows the queue full (tail - head == capacity), '
                  'EVERY worker of the pool inside the start() call of a started function (counted by the harness) and the dequeued signal '
                  'clear - any other hang of a case with nested starts is a violation), ASan/UBSan clean. Real threads explore only the interleavings the scheduler and the injected delays produce; '
                  'the interleaving model is not replayed step by step against the code except for the gated schedules: ring tickets, '
                  'FastSignal state and spawn/shrink decisions of the model are never compared with the code\'s. Once two cases of a run '
                  'have hung the remaining cases run under a 6 s watchdog and after eight hangs or 150 crashes they are not run (the run has failed by then).')
    technique = ('differential correspondence of the extracted model/spec with an ASan/UBSan build of the real code run by real '
                 'threads with injected yields/sleeps at the __sync points, targeted delays, spurious condition-variable wake-ups, a live-'
                 'object ledger for Futures checked at every pthread_cond_broadcast, and four gated (partial-order) replays of model schedules')
    rule = ('cases = client scripts (start through any overload/join/get/check/abort/destroy/pause per client thread, every future owned by '
            'one client) on a pool (min 0-3, max 3-6, queue capacity 1-64, 1-4 clients, clock scale, lazy creation); streams: single client, '
            'several clients, full queue (capacity 1-2, more slow calls than workers), shrink (scaled clock, idle workers retire), lazy pool '
            'creation raced, targeted-delay profiles (worker sleep/wake handshake, completion handshake with join/check/get right after, '
            'queue slot publication), lifetime (Future deleted right after its result was taken, worker delayed before the broadcast), '
            'variants (all start overloads, Future<int64>, Future<void>, Future<String>), reuse (start-get-start-get on one object, also after abort(), half of the cases '
            'with delayed completion or spurious wake-ups), burst (16 futures, 24-48 starts, several workers popping from a full queue), '
            'nested (started functions start futures, queue never full), strings (Future<String>: start, get, start, delete at once; '
            'String and converted arguments; started function delayed); corpus = four gated replays (lost wake-up by a late reset + null '
            'job; FastSignal set/reset race; shrink null job on a queue of capacity 1; late broadcast on a destroyed Future); a case is '
            'non-trivial when it starts >= 3 calls and uses >= 2 client threads or starts >= 5 calls; distinct = distinct op text')
    assumptions = ['the interleavings of the real code are sampled (scheduler + injected delays + spurious wake-ups + four gated schedules), not enumerated',
                   'a case that does not end within the 20 s watchdog counts as a deadlock (cases take milliseconds)',
                   'gate op lines are scheduling directives for the harness only; model and spec read them as pause',
                   'the safety theorems assume that started functions do not start futures themselves and that one thread operates a Future object',
                   'liveness of the code as it is now: absence of deadlock is a theorem about the model (all schedules, all configurations); termination under a fair scheduler (no livelock) is searched in bounded model configurations and sampled on the real code, not proved']

    def gen_tables(self):
        """translator tie: the 22 hand-copied `start` overloads and 2 `proc` templates of Future.hpp and the 22 call records
        of Call.hpp are re-read and compared token by token with the one template the model mirrors (gen/tables_future.py)"""
        diffs, summary = tables_future.compare_templates()
        if diffs:
            raise TieBroken('%d of the hand-copied templates of Future.hpp / Call.hpp differ from the template FutureModel.v mirrors: %s'
                            % (len(diffs), ' ;; '.join(m for (_, m) in diffs[:4])))
        # text pin: FutureModel.v was written by reading src/Future.cpp and Future.hpp (push, pop, FastSignal, the worker loop,
        # ThreadPool::run, startProc, set, join, ~Future); nothing but the sampled runs ties these functions to the model, so an
        # edit of either file (comments and white space apart) is at least a broken tie: the owner re-reads the model
        pins = dict(l.split() for l in open(os.path.join(VERIF, 'coq', 'Future', 'source.pin')).read().split('\n') if l and not l.startswith('#'))
        changed = [rel for rel in PIN_FILES if pin_of(rel) != pins.get(rel)]
        if changed:
            raise TieBroken('%s differ(s) from the text FutureModel.v was read against (coq/Future/source.pin): the interleaving model '
                            'must be re-read against the edited functions and the pin renewed' % ', '.join(changed))
        return [summary, 'text pin of %s unchanged' % ' and '.join(PIN_FILES)]

    @property
    def harness_flags(self):
        hp = os.path.join(VERIF, 'harness', 'future_points.h')
        h = hashlib.sha256(open(hp, 'rb').read()).hexdigest()[:12]
        return ['-include', hp, '-DVP_HEADER_HASH=0x' + h]

    def shrink(self, case, pred, budget=400):
        """A gated replay (corpus witness) is a hand-made schedule: every line matters, and every
        candidate that still hangs costs a full watchdog period.  It is reported as it is."""
        if any(' gate rule ' in l and ' sleep ' not in l and ' spurious ' not in l for l in case):
            return case
        return Check.shrink(self, case, pred, budget=min(budget, 60))

    hangs_seen = 0
    crashes_seen = 0
    crash_limit = 150
    short_timeout = 6
    hang_limit = 8
    NOT_RUN = 'not-run (%d cases of this run have hung or crashed already)'

    def run_impl(self, cases, tag='impl'):
        """The standard runner, in chunks (10, 20, 40 … 400 cases; back to 10 after a hang).  Once two
        cases of this run have exceeded the watchdog (the run has failed by then: a hang is a spec
        mismatch) the remaining chunks run under a shorter watchdog, and after `hang_limit` hangs the
        remaining cases are not run at all (their only observation says so, and judge() skips them):
        a tree with a lost wake-up is reported in minutes and not in hours."""
        from vf import run_exe_on_cases
        res, crashes = [], {}
        a, step = 0, 10
        while a < len(cases):
            if self.hangs_seen >= self.hang_limit or self.crashes_seen >= self.crash_limit:
                # a tree on which (nearly) every case hangs or crashes: what has been seen is reported, the rest is not run
                res += [[self.NOT_RUN % (self.hangs_seen + self.crashes_seen)] for _ in cases[a:]]
                break
            to = self.per_case_timeout if self.hangs_seen < 2 else self.short_timeout
            if all(any(' w job fut ' in l for l in c) for c in cases[a:a + step]):
                to = self.short_timeout      # the witness of the open finding is expected to hang: 6 s are enough to see it
            r, c = run_exe_on_cases(self.exes['impl'], cases[a:a + step], os.path.join(BUILD, self.id, 'run'), tag,
                                    is_impl=True, per_case_timeout=to)
            res += r
            hung = False
            for k, v in c.items():
                crashes[a + k] = v
                if v[0] == 'timeout':
                    self.hangs_seen += 1
                    hung = True
                else:
                    self.crashes_seen += 1
            a += step
            step = 10 if hung else min(400, step * 2)
        return res, crashes

    def property_fails(self, case):
        # re-runs for the report and the shrinker: always executed, short watchdog once two cases hung
        saved, savedc = self.hangs_seen, self.crashes_seen
        self.hangs_seen = min(saved, 2)
        self.crashes_seen = 0
        try:
            return Check.property_fails(self, case)
        finally:
            self.hangs_seen, self.crashes_seen = saved, savedc

    def judge(self, cases, impl_obs, spec_obs):
        """Spec comparison; a case that does not come to an end (the harness's watchdog prints the
        pool's state as a `deadlock …` line before the process is killed) gets a reason that says so."""
        fails = []
        # `st FA` of the spec = after a join during whose call abort() was requested: exactly one of
        # isFinished() / isAborted() holds, the text does not say which
        spec2 = []
        for s, o in zip(spec_obs, impl_obs):
            s = list(s)
            for k, l in enumerate(s):
                if ' st FA ' in l and k < len(o):
                    m = re.search(r' st ([FA]) ', o[k])
                    if m:
                        s[k] = l.replace(' st FA ', ' st %s ' % m.group(1))
            spec2.append(s)
        spec_obs = spec2
        for (i, k, reason) in Check.judge(self, cases, impl_obs, spec_obs):
            if impl_obs[i] and impl_obs[i][0].startswith('not-run'):
                continue
            dl = [l for l in impl_obs[i] if l.startswith('deadlock ')]
            nested = any(re.match(r'c \d+ start\w* \d+ -?\d+ ([4-9]|\d\d)$', l) for l in cases[i])
            # the OPEN finding and nothing else: the queue is full (tail - head == capacity), EVERY worker of the
            # pool stands inside the start() call of a started function (the harness counts them), nobody has
            # signalled a pop.  A hang with a worker asleep or idle (an enqueue-side lost wake-up has the same
            # counters otherwise) is reported as a hang.
            m = re.search(r'capacity=(\d+) nested_in_start=(\d+) queue.head=(\d+) queue.tail=(\d+) .* deq.state=0 deq.flag=0 .* threads=(\d+) ', dl[0]) if dl else None
            if (dl and nested and m and int(m.group(4)) - int(m.group(3)) == int(m.group(1))
                    and int(m.group(2)) == int(m.group(5)) and int(m.group(2)) >= 1):
                reason = ('started function blocked in start() on a full queue (open finding): every worker waits in ThreadPool::run for a '
                          'pop that only workers perform; the watchdog reports `%s`' % dl[0])
            elif dl:
                gated = any(' gate rule ' in l and ' sleep ' not in l and ' spurious ' not in l for l in cases[i])
                reason = ('%s never ends (spec: all %d operations of the scripts return); the watchdog reports `%s`'
                          % ('gated replay of a model schedule' if gated else 'case', len(spec_obs[i]), dl[0]))
            fails.append((i, k, reason))
        return fails

    def open_cases(self):
        out = []
        cur = None
        for line in open(os.path.join(VERIF, OPEN_NESTED)).read().split('\n'):
            if line.startswith('case'):
                cur = []
            elif line == 'end':
                if cur is not None:
                    out.append((os.path.basename(OPEN_NESTED), cur))
                cur = None
            elif cur is not None and line and not line.startswith('#'):
                cur.append(line)
        return out

    def nontrivial(self, case, obs):
        starts = sum(1 for l in case if re.match(r'c \d+ start', l))
        clients = len({l.split()[1] for l in case if l.startswith('c ')})
        return starts >= 3 and (clients >= 2 or starts >= 5)

    def streams(self, tier, rng):
        thorough = tier == 'thorough'
        mul = QUICK_MUL * 8 if thorough else QUICK_MUL
        out = []
        sd = lambda: rng.randrange(1, 1 << 30)
        # 1. one client, sequential use (what TestFuture does, plus abort / restart / result reuse)
        cases = []
        for i in range(40 * mul):
            cases.append([cfg_line(cmin=rng.choice([0, 1]), cmax=3, q=rng.choice([1, 2, 4, 8]), ncl=1,
                                   perturb=i % 3, seed=sd())] + gen_script(rng, 1, rng.randrange(4, 30)))
        out.append(Stream('single', cases, note='one client thread'))
        # 2. several clients, small pools, small queues
        cases = []
        for i in range(120 * mul):
            ncl = rng.choice([2, 2, 3, 4])
            cases.append([cfg_line(cmin=rng.choice([0, 0, 1, 2]), cmax=rng.choice([3, 3, 4, 6]), q=rng.choice([1, 2, 2, 4, 16]),
                                   ncl=ncl, perturb=rng.choice([0, 1, 1, 2, 2, 3]), seed=sd())]
                         + gen_script(rng, ncl, rng.randrange(10, 60)))
        out.append(Stream('multi', cases, note='2-4 client threads sharing the pool'))
        # 3. full queue: capacity 1/2, bursts of starts of slow calls, no joins until the end
        cases = []
        for i in range(40 * mul):
            ncl = rng.choice([1, 2, 3])
            ops = []
            a = rng.randrange(100)
            for k in range(rng.randrange(6, NF * 2)):
                f = k % NF
                a += 1
                ops.append('c %d start %d %d %d' % (f % ncl, f, a, rng.choice([1, 2, 2])))
            for f in range(NF):
                if rng.random() < 0.5:
                    ops.append('c %d %s %d' % (f % ncl, rng.choice(['join', 'get']), f))
            cases.append([cfg_line(cmin=0, cmax=3, q=rng.choice([1, 1, 2]), ncl=ncl, perturb=rng.choice([0, 1, 2]), seed=sd())] + ops)
        out.append(Stream('fullq', cases, note='queue capacity 1-2, more slow calls than workers: back-pressure loop'))
        # 4. growing / idling / shrinking: scaled clock, pauses that let workers go idle
        cases = []
        for i in range(30 * mul):
            ncl = rng.choice([1, 1, 2])
            cases.append([cfg_line(cmin=rng.choice([0, 0, 1]), cmax=rng.choice([3, 4]), q=rng.choice([1, 2, 4, 8]), ncl=ncl,
                                   scale=rng.choice([200, 1000, 5000]), perturb=rng.choice([0, 1, 2]), seed=sd())]
                         + gen_script(rng, ncl, rng.randrange(15, 50), pauses=0.3, long_pause=0.5, works=(0, 0, 1)))
        out.append(Stream('shrink', cases, note='clock scaled so that the idle test passes: workers retire and are respawned'))
        # 5. lazy pool creation raced by several clients
        cases = []
        for i in range(20 * mul):
            ncl = rng.choice([2, 3, 4])
            cases.append([cfg_line(ncl=ncl, lazy=1, perturb=rng.choice([0, 1, 2, 3]), seed=sd())]
                         + gen_script(rng, ncl, rng.randrange(6, 30)))
        out.append(Stream('lazy', cases, note='default pool created under the spin lock by racing first starts'))
        # 6. targeted delays at the sleep/wake handshake of the workers
        cases = []
        for i in range(30 * mul):
            ncl = rng.choice([1, 1, 2, 3])
            cases.append([cfg_line(cmin=rng.choice([0, 0, 1]), cmax=rng.choice([3, 3, 4]), q=rng.choice([2, 4, 8]), ncl=ncl,
                                   scale=rng.choice([1, 1000, 5000]), perturb=rng.choice([0, 0, 1]), seed=sd())]
                         + profile_lines('sleepwake')
                         + gen_script(rng, ncl, rng.randrange(8, 40), pauses=0.3, long_pause=0.2, works=(0, 0, 0, 1)))
        out.append(Stream('sleepwake', cases, note='workers delayed before/inside FastSignal::reset(), clients before counting the job'))
        # 7. targeted delays around the completion of a call; the caller looks right after join()
        cases = []
        for i in range(30 * mul):
            ncl = rng.choice([1, 1, 2])
            cases.append([cfg_line(cmin=rng.choice([0, 1]), cmax=3, q=rng.choice([2, 4]), ncl=ncl, perturb=0, seed=sd())]
                         + profile_lines('handshake') + gen_handshake(rng, ncl, rng.randrange(4, 14)))
        out.append(Stream('handshake', cases, note='worker delayed before the state swap and after the signal of Future::set(); join/check/get right after'))
        # 8. targeted delays between claiming and publishing a queue slot, small queues
        cases = []
        for i in range(30 * mul):
            ncl = rng.choice([2, 3, 4])
            cases.append([cfg_line(cmin=rng.choice([0, 2]), cmax=rng.choice([3, 4]), q=rng.choice([1, 2, 2, 4]), ncl=ncl,
                                   perturb=rng.choice([0, 1]), seed=sd())]
                         + profile_lines('publish') + gen_script(rng, ncl, rng.randrange(10, 50), works=(0, 0, 1)))
        out.append(Stream('publish', cases, note='pushers/poppers delayed between ticket claim and slot publication, queue capacity 1-4'))
        # 9. a Future destroyed right after its result has been taken; the completing worker is delayed
        #    inside Signal::set(), in front of the broadcast
        cases = []
        for i in range(20 * mul):
            ncl = rng.choice([1, 1, 2])
            cases.append([cfg_line(cmin=rng.choice([0, 1]), cmax=3, q=rng.choice([2, 4]), ncl=ncl, perturb=0, seed=sd())]
                         + profile_lines('lifetime') + gen_lifetime(rng, ncl, rng.randrange(3, 10)))
        lifetime_stream = Stream('lifetime', cases, note='start, get/join, delete the Future (and create a new one); worker delayed in front of the broadcast of the Future\'s Signal')
        out.append(lifetime_stream)
        # 10. every overload of start (arity 0-5, member functions) on Future<int64> and Future<void>
        cases = []
        for i in range(25 * mul):
            ncl = rng.choice([1, 2, 3])
            cases.append([cfg_line(cmin=rng.choice([0, 1]), cmax=rng.choice([3, 4]), q=rng.choice([1, 2, 4, 8]), ncl=ncl,
                                   perturb=rng.choice([0, 1, 2]), seed=sd())] + gen_variants(rng, ncl, rng.randrange(6, 24)))
        out.append(Stream('variants', cases, note='all start overloads: free functions of arity 0-5, member functions of arity 0-4, Future<int64> and Future<void>'))
        # 11. a Future object used again: the second result is the second call's
        cases = []
        for i in range(25 * mul):
            ncl = rng.choice([1, 1, 2])
            prof = profile_lines(rng.choice(['handshake', 'lifetime', 'spurious', 'spurious'])) if i % 2 else []
            cases.append([cfg_line(cmin=rng.choice([0, 1]), cmax=3, q=rng.choice([1, 2, 4]), ncl=ncl, perturb=0 if prof else rng.choice([0, 1, 2]), seed=sd())]
                         + prof + gen_reuse(rng, ncl, rng.randrange(2, 6)))
        out.append(Stream('reuse', cases, note='start, get, start again on the same Future, get: results of distinct calls; half of the cases with the completion handshake delayed'))
        # 12. many futures, several workers popping from a FULL queue at once, clients blocked in start()
        cases = []
        for i in range(25 * mul):
            ncl = rng.choice([2, 3, 4])
            ops = []
            a = rng.randrange(100)
            nfu = 16
            for k in range(rng.randrange(24, 48)):
                f = rng.randrange(nfu)
                a += 1
                ops.append('c %d %s %d %d %d' % (f % ncl, rng.choice(['start', 'start', 'startf1', 'startm3']), f, a, rng.choice([0, 1, 1, 2])))
            cases.append([cfg_line(cmin=rng.choice([0, 3]), cmax=rng.choice([3, 4, 6]), q=rng.choice([2, 4, 4, 8]), ncl=ncl,
                                   perturb=rng.choice([0, 1, 2]), seed=sd())] + ops)
        out.append(Stream('burst', cases, note='16 futures, 24-48 starts by 2-4 clients, queue capacity 2-8 with 3-6 workers popping at once: every pop must wake a client blocked in start()'))
        # 13. started functions that start futures (queue large enough never to fill)
        cases = []
        for i in range(15 * mul):
            ncl = rng.choice([1, 2])
            cases.append([cfg_line(cmin=rng.choice([0, 1]), cmax=rng.choice([3, 4]), q=64, ncl=ncl, perturb=rng.choice([0, 1, 2]), seed=sd())]
                         + gen_nested(rng, ncl, rng.randrange(4, 14)))
        out.append(Stream('nested', cases, note='started functions start another future themselves; queue capacity 64 (never full)'))
        # 14. Future<String>: the result slot has a destructor and heap storage
        cases = []
        for i in range(15 * mul):
            ncl = rng.choice([1, 1, 2])
            prof = profile_lines(rng.choice(['resultslot', 'resultslot', 'handshake'])) if i % 3 else []
            cases.append([cfg_line(cmin=rng.choice([0, 1]), cmax=3, q=rng.choice([1, 2, 4]), ncl=ncl, perturb=0 if prof else rng.choice([0, 1, 2]), seed=sd())]
                         + prof + gen_strings(rng, ncl, rng.randrange(3, 9)))
        out.append(Stream('strings', cases, note='Future<String>: start, get, start again, delete the Future right away (the destructor joins, then the result slot dies); String / int arguments'))
        # the open finding (a worker blocked in start() on a full queue): its witness runs only while
        # known_findings.json lists it as open, and then prints KNOWN-FINDING
        if any(k.get('status') == 'open' and k.get('witness') == OPEN_NESTED for k in self.known_findings()):
            wc = [c for (f, c) in self.open_cases()]
            out.append(Stream('nested-open', wc, note='open finding: started functions that start futures, full queue'))
        return out

    def extra_checks(self, tier, rng, ctx):
        """Explicit-state SEARCH of the model (never a proof) for a reachable state in which a client is
        unfinished and no thread can move.  The old handshake (C10_ORIGINAL=1) must show its deadlock
        (the search machinery is alive), the model of the code as it is now must not."""
        drv = self.exes.get('model')
        if not drv:
            return
        sdir = os.path.join(VERIF, 'corpus', self.id, 'search')
        jobs = [('window-q4.ops', '7', '900000', {'C10_ORIGINAL': '1'}, True),
                ('window-q4.ops', '5', '700000', {}, False)]
        if tier == 'thorough':
            jobs += [('window-q4.ops', '7', '12000000', {}, False), ('window-q1.ops', '6', '20000000', {}, False)]
        # random-schedule hunt: the model has the deadlock of the open finding (worker-side start on a full queue)
        rc, out, err = sh([drv, 'hunt', os.path.join(sdir, 'nested-q1.ops'), '400'], timeout=300)
        head = ' / '.join(l for l in out.split('\n') if l.startswith('#'))
        log('[C10] model hunt nested-q1.ops (open finding, started functions start futures, capacity 1): %s' % head)
        if rc != 0 or 'deadlock after' not in out:
            p = self.write_replay('no-failing-input-found', 'random-schedule hunt of the model (nested-q1.ops): the deadlock of the open finding must be found: %s' % (head or err[-300:]),
                                  [], {'file': 'nested-q1.ops', 'rc': rc})
            ctx['violations'].append((p, ' no-failing-input-found'))
        if tier == 'thorough':
            # two clients, capacity 1 (audit finding 4)
            jobs += [('window2-q1.ops', '6', '9000000', {}, False)]
        def run_job(job):
            f, window, limit, env, expect = job
            e = dict(os.environ)
            e.update(env)
            return job, sh([drv, 'search', os.path.join(sdir, f), window, limit], timeout=2400, env=e)
        # the searches are independent single-threaded processes: run them side by side
        from concurrent.futures import ThreadPoolExecutor
        with ThreadPoolExecutor(max_workers=4) as ex:
            results = list(ex.map(run_job, jobs))
        for (f, window, limit, env, expect), (rc, out, err) in results:
            found = 'deadlock after' in out
            head = ' / '.join(l for l in out.split('\n') if l.startswith('#'))
            log('[C10] model search %s window=%s %s: %s' % (f, window, 'old handshake' if env else 'current code', head))
            if rc != 0 or found != expect:
                sched = [l for l in out.split('\n') if l.startswith('s ')]
                p = self.write_replay('no-failing-input-found',
                                      'explicit-state search of the model (%s, window %s, %s): %s'
                                      % (f, window, 'old handshake must deadlock' if expect else 'current code must not deadlock', head or err[-300:]),
                                      sched[:400], {'file': f, 'window': window, 'limit': limit, 'rc': rc})
                ctx['violations'].append((p, ' no-failing-input-found'))


CHECK = C10
