import os, sys, hashlib, re, json
from vf import Check, Stream, VERIF, BUILD, REPO, sh, log, first_diff

NF = 8  # futures a generated case uses at most (harness/driver allow 64)


def cfg_line(kind='wl', cmin=0, cmax=3, q=4, ncl=1, scale=1, lazy=0, perturb=0, seed=1):
    return '@%s %d %d %d %d %d %d %d %d' % (kind, cmin, cmax, q, ncl, scale, lazy, perturb, seed)


def gen_script(rng, ncl, nops, nf=NF, work3=0.06, pauses=0.1, long_pause=0.0, works=(0, 0, 1, 2)):
    """Random admissible client scripts.  Every future belongs to one client (f mod ncl).
    A call with work 3 (waits for abort()) is always aborted before anything waits for it."""
    ops = []
    futs = {c: [f for f in range(nf) if f % ncl == c] for c in range(ncl)}
    pending3 = set()      # futures whose current call waits for abort
    arg = rng.randrange(1000)
    for _ in range(nops):
        c = rng.randrange(ncl)
        if not futs[c]:
            continue
        f = rng.choice(futs[c])
        r = rng.random()
        if f in pending3:
            # only abort, check, or pause are admissible until the abort has been requested
            if r < 0.6:
                ops.append('c %d abort %d' % (c, f))
                pending3.discard(f)
            elif r < 0.8:
                ops.append('c %d check %d' % (c, f))
            else:
                ops.append('c %d pause %d' % (c, rng.randrange(3)))
            continue
        if r < 0.42:
            arg += 1 + rng.randrange(5)
            w = 3 if (rng.random() < work3 and c == 0 and len(pending3) < 2) else rng.choice(works)
            ops.append('c %d start %d %d %d' % (c, f, arg * (1 if rng.random() < 0.9 else -1), w))
            if w == 3:
                pending3.add(f)
        elif r < 0.58:
            ops.append('c %d join %d' % (c, f))
        elif r < 0.72:
            ops.append('c %d get %d' % (c, f))
        elif r < 0.84:
            ops.append('c %d check %d' % (c, f))
        elif r < 0.90:
            ops.append('c %d abort %d' % (c, f))
        else:
            if rng.random() < long_pause:
                ops.append('c %d pause %d' % (c, rng.choice([20, 40, 80])))
            elif rng.random() < pauses * 5:
                ops.append('c %d pause %d' % (c, rng.randrange(4)))
    for f in sorted(pending3):
        ops.append('c %d abort %d' % (f % ncl, f))
    return ops


class C10(Check):
    id = 'C10'
    comp = 'Future'
    extracted = ['coq/Future/model.mli', 'coq/Future/model.ml', 'ocaml/zconv.ml', 'ocaml/future_driver.ml']
    harness_sources = ['harness/future.cpp']
    harness_link_flags = ['-Wl,--wrap=pthread_cond_wait,--wrap=pthread_cond_broadcast']
    per_case_timeout = 20
    level_text = ''
    level_note = ''
    technique = ''
    rule = ''
    assumptions = []

    @property
    def harness_flags(self):
        hp = os.path.join(VERIF, 'harness', 'future_points.h')
        h = hashlib.sha256(open(hp, 'rb').read()).hexdigest()[:12]
        return ['-include', hp, '-DVP_HEADER_HASH=0x' + h]

    def shrink(self, case, pred, budget=400):
        """A gated replay (corpus witness) is a hand-made schedule: every line matters, and every
        candidate that still hangs costs a full watchdog period.  It is reported as it is."""
        if any(' gate ' in l for l in case):
            return case
        return Check.shrink(self, case, pred, budget=min(budget, 60))

    hangs_seen = 0
    short_timeout = 6

    def run_impl(self, cases, tag='impl'):
        """The standard runner, in chunks.  Once two cases of this run have exceeded the watchdog (the
        run has failed by then: a hang is a spec mismatch) the remaining chunks run under a shorter
        watchdog, so that a tree with a lost wake-up is reported in minutes and not in hours."""
        from vf import run_exe_on_cases
        res, crashes = [], {}
        step = 200
        for a in range(0, len(cases), step):
            to = self.per_case_timeout if self.hangs_seen < 2 else self.short_timeout
            r, c = run_exe_on_cases(self.exes['impl'], cases[a:a + step], os.path.join(BUILD, self.id, 'run'), tag,
                                    is_impl=True, per_case_timeout=to)
            res += r
            for k, v in c.items():
                crashes[a + k] = v
                if v[0] == 'timeout':
                    self.hangs_seen += 1
        return res, crashes

    def judge(self, cases, impl_obs, spec_obs):
        """Spec comparison; a case that does not come to an end (the harness's watchdog prints the
        pool's state as a `deadlock …` line before the process is killed) gets a reason that says so."""
        fails = []
        for (i, k, reason) in Check.judge(self, cases, impl_obs, spec_obs):
            dl = [l for l in impl_obs[i] if l.startswith('deadlock ')]
            if dl:
                reason = ('spec: every start/join/get of the script returns (%d operations); implementation: '
                          'the case never ends, the watchdog reports `%s`' % (len(spec_obs[i]), dl[0]))
            fails.append((i, k, reason))
        return fails

    def nontrivial(self, case, obs):
        starts = sum(1 for l in case if ' start ' in l)
        clients = len({l.split()[1] for l in case if l.startswith('c ')})
        return starts >= 3 and (clients >= 2 or starts >= 5)

    def streams(self, tier, rng):
        thorough = tier == 'thorough'
        mul = 6 if thorough else 1
        out = []
        sd = lambda: rng.randrange(1, 1 << 30)
        # 1. one client, sequential use (what TestFuture does, plus abort / restart / result reuse)
        cases = []
        for i in range(40 * mul):
            cases.append([cfg_line(cmin=rng.choice([0, 1]), cmax=3, q=rng.choice([1, 2, 4, 8]), ncl=1,
                                   perturb=i % 3, seed=sd())] + gen_script(rng, 1, rng.randrange(4, 30)))
        out.append(Stream('single', cases, note='one client thread'))
        # 2. several clients, small pools, small queues
        cases = []
        for i in range(120 * mul):
            ncl = rng.choice([2, 2, 3, 4])
            cases.append([cfg_line(cmin=rng.choice([0, 0, 1, 2]), cmax=rng.choice([3, 3, 4, 6]), q=rng.choice([1, 2, 2, 4, 16]),
                                   ncl=ncl, perturb=rng.choice([0, 1, 1, 2, 2, 3]), seed=sd())]
                         + gen_script(rng, ncl, rng.randrange(10, 60)))
        out.append(Stream('multi', cases, note='2-4 client threads sharing the pool'))
        # 3. full queue: capacity 1/2, bursts of starts of slow calls, no joins until the end
        cases = []
        for i in range(40 * mul):
            ncl = rng.choice([1, 2, 3])
            ops = []
            a = rng.randrange(100)
            for k in range(rng.randrange(6, NF * 2)):
                f = k % NF
                a += 1
                ops.append('c %d start %d %d %d' % (f % ncl, f, a, rng.choice([1, 2, 2])))
            for f in range(NF):
                if rng.random() < 0.5:
                    ops.append('c %d %s %d' % (f % ncl, rng.choice(['join', 'get']), f))
            cases.append([cfg_line(cmin=0, cmax=3, q=rng.choice([1, 1, 2]), ncl=ncl, perturb=rng.choice([0, 1, 2]), seed=sd())] + ops)
        out.append(Stream('fullq', cases, note='queue capacity 1-2, more slow calls than workers: back-pressure loop'))
        # 4. growing / idling / shrinking: scaled clock, pauses that let workers go idle
        cases = []
        for i in range(30 * mul):
            ncl = rng.choice([1, 1, 2])
            cases.append([cfg_line(cmin=rng.choice([0, 0, 1]), cmax=rng.choice([3, 4]), q=rng.choice([2, 4, 8]), ncl=ncl,
                                   scale=rng.choice([200, 1000, 5000]), perturb=rng.choice([0, 1, 2]), seed=sd())]
                         + gen_script(rng, ncl, rng.randrange(15, 50), pauses=0.3, long_pause=0.5, works=(0, 0, 1)))
        out.append(Stream('shrink', cases, note='clock scaled so that the idle test passes: workers retire and are respawned'))
        # 5. lazy pool creation raced by several clients
        cases = []
        for i in range(20 * mul):
            ncl = rng.choice([2, 3, 4])
            cases.append([cfg_line(ncl=ncl, lazy=1, perturb=rng.choice([0, 1, 2, 3]), seed=sd())]
                         + gen_script(rng, ncl, rng.randrange(6, 30)))
        out.append(Stream('lazy', cases, note='default pool created under the spin lock by racing first starts'))
        return out


CHECK = C10
