import os, re, sys, base64, codecs, resource
import vf
from vf import Check, Stream, hexs
# the extracted reference functions recurse once per list element: 270 000 characters of base64 need more than 8 MB of stack
try:
    _soft, _hard = resource.getrlimit(resource.RLIMIT_STACK)
    _want = 1 << 30
    resource.setrlimit(resource.RLIMIT_STACK, (_want if _hard == resource.RLIM_INFINITY else min(_want, _hard), _hard))
except (ValueError, OSError):
    pass
sys.path.insert(0, os.path.join(os.path.dirname(os.path.abspath(__file__)), '..', 'gen'))
import tables

B64 = b'ABCDEFGHIJKLMNOPQRSTUVWXYZabcdefghijklmnopqrstuvwxyz0123456789+/'


def b64enc(bs):
    """RFC 4648 section 4 written out (the generator's own encoder; python's base64 is used only as a search oracle)."""
    out = bytearray()
    for i in range(0, len(bs), 3):
        g = bs[i:i + 3]
        n = int.from_bytes(g + bytes(3 - len(g)), 'big')
        q = [B64[(n >> 18) & 63], B64[(n >> 12) & 63], B64[(n >> 6) & 63], B64[n & 63]]
        if len(g) == 1:
            q[2] = q[3] = 61
        elif len(g) == 2:
            q[3] = 61
        out += bytes(q)
    return bytes(out)


def chunk(ops, n):
    return [ops[i:i + n] for i in range(0, len(ops), n)]


def product(alpha, n):
    if n == 0:
        yield b''
        return
    for p in product(alpha, n - 1):
        for a in alpha:
            yield p + bytes([a])


INT_TYPES = [('int', -2**31, 2**31 - 1), ('uint', 0, 2**32 - 1), ('int64', -2**63, 2**63 - 1), ('uint64', 0, 2**64 - 1)]

# bytes standing for every class the UTF-8 readers distinguish, with both ends of each class
U8_ALPHA = [0x00, 0x01, 0x41, 0x7e, 0x7f, 0x80, 0x81, 0x8f, 0x90, 0x9f, 0xa0, 0xbe, 0xbf, 0xc0, 0xc1, 0xc2, 0xdf,
            0xe0, 0xe1, 0xec, 0xed, 0xee, 0xef, 0xf0, 0xf1, 0xf3, 0xf4, 0xf5, 0xf7, 0xf8, 0xfb, 0xfc, 0xfd, 0xfe, 0xff]
CP_EDGES = [0, 1, 0x7f, 0x80, 0x7ff, 0x800, 0xfff, 0x1000, 0xd7ff, 0xd800, 0xdbff, 0xdc00, 0xdfff, 0xe000, 0xfffd, 0xfffe,
            0xffff, 0x10000, 0x3ffff, 0x40000, 0xfffff, 0x100000, 0x10ffff]
CP_BEYOND = [0x110000, 0x110001, 0x1fffff, 0x200000, 0x3ffffff, 0x4000000, 0x7fffffff, 0x80000000, 0xfffffffe, 0xffffffff]


class C18(Check):
    id = 'C18'
    comp = 'Codec'
    extracted = ['coq/Codec/model.mli', 'coq/Codec/model.ml', 'ocaml/zconv.ml', 'ocaml/codec_driver.ml']
    harness_sources = ['harness/codec.cpp']
    technique = 'machine-checked proof (Coq 8.16) about an executable model + differential correspondence under ASan/UBSan'
    level_text = ('35 theorems in Coq (Properties_C18.v, all closed under the global context) about an executable model of the codecs. '
                  'UTF-8: for every code point 0 <= cp < 0x110000 (all 1,114,112, by range with lia/bit lemmas, no sweep) toString cp is '
                  'the RFC 3629 layout, fromString(toString cp) = cp and isValid accepts it (utf8_roundtrip, utf8_text_roundtrip for '
                  'sequences); surrogates D800..DFFF are laid out as ordinary 3-byte sequences - the code excludes nothing '
                  '(utf8_surrogates_not_excluded); values >= 0x110000 append nothing (utf8_encoder_total); fromString returns the code '
                  'point of whatever well-formed first sequence the range starts with (utf8_decoder_reads_first_sequence). Bounds: '
                  'fromString and isValid never fail a checked read for any list, isValid equals layout validity, a lead '
                  'byte announcing more than the range holds gives 0 without a further read, length() is the lead-byte table '
                  '(utf8_readers_in_bounds, utf8_from_string_never_fails, utf8_is_valid_never_fails, utf8_from_string_truncated, '
                  'utf8_is_valid_accepts_text); what the reference DEMANDS is narrower where the text is silent: isValid must accept strict '
                  'UTF-8 text (encodings of scalar values, no surrogates) and reject bytes that are not lead byte + announced continuation '
                  'bytes (utf8_is_valid_accepts_strict_text), length() must be the length of the encoding on the 179 bytes some encoding '
                  'starts with - and these are exactly 00..7F, C2..F4 (utf8_length_of_lead_bytes); on the other 77 bytes its value is a model fact. '
                  'Strings that do not own their bytes (String::attach): the String overloads of fromString/isValid, as repaired by '
                  'fixes/C18/02, are the pointer overloads on the window, so the bounds theorems apply to them; as found they went through '
                  'the C-string view, which reads the byte BEHIND the window - out of bounds for every window whose allocation ends there '
                  '(string_overloads_as_found_refuted, string_overloads_as_found_partial); the same for String::fromBase64 on an attached input, '
                  'repaired by fixes/C18/03 (base64_attached_as_found_refuted, base64_attached_as_found_partial). toInt/toUInt/toInt64/toUInt64 on an attached String '
                  'with one readable byte behind the window return what the window alone stands for, whatever that byte and the bytes after it '
                  'are (attached_conversions_see_the_window_only, attached_conversions_equal_owned); without such a byte the view itself is the '
                  'out-of-bounds read (attached_conversions_need_a_readable_byte) - a precondition, see assumptions. Integers: print = the canonical decimal text of the cast argument, parse of the '
                  'canonical text of any in-range value = that value, parse(print v) = v over the full range of int, uint, int64, '
                  'uint64 and = the C cast of v outside (integer_prints_canonical, integer_parses_canonical, '
                  'integer_roundtrips_in_range, integer_roundtrips_cast). The parsers on EVERY byte string (modelled libc): run as checked-read '
                  'machines on the String\'s buffer (bytes ++ terminator) they never fail a read and never look beyond the terminator '
                  '(parsers_total_within_terminator, parsers_never_fail, parsers_ignore_bytes_behind_terminator); every string is leading white '
                  'space ++ optional sign ++ longest digit prefix ++ ignored rest, and toInt64 = the signed value of the prefix clamped to '
                  '[-2^63, 2^63-1], toUInt64 = 2^64-1 if the magnitude exceeds it, else the magnitude (negated modulo 2^64 after a minus sign), '
                  'toInt / toUInt = those results truncated to 32 bit, no digit = 0 (parsers_on_all_strings, parsers_value_of_shape, '
                  'noncanonical_forms_agree); the canonical-text and round-trip theorems are corollaries. fromHex = upper-case hex text for every byte string '
                  '(hex_is_upper_hex). fromBase64 (as repaired) returns bs on rfc4648_encode bs for EVERY byte string bs (induction over '
                  '3-byte groups + three tails; base64_inverts_rfc4648, base64_table_inverts_alphabet) and for every input list stays '
                  'inside its input, its 123-entry table and its output buffer and never reads an unwritten cell (base64_in_bounds); '
                  'the code as found leaves the table on byte 0x80 (base64_as_found_refuted). Tables (base64 decode table, hex digits, '
                  'UTF-8 offsets) are regenerated from the source on every run (element widths included; strict translator). The model is tied to the code by running the extracted '
                  'model, the extracted reference (RFC layouts, canonical decimal text) and the ASan/UBSan build of the working tree on '
                  'the same inputs with exactly sized heap buffers; fromString and isValid are driven through the pointer overloads, the '
                  'String overloads on an owning String and the String overloads on a String attached to an exactly sized block. '
                  'TIERS: exhaustive in BOTH tiers are all byte strings of length <= 2 through the pointer and owning-String overloads of both readers, '
                  'every window of length <= 1 through the attached overloads, length() on all 256 bytes, all base64 strings of length <= 4 over a '
                  '12-symbol alphabet and the 256-value sweeps of one base64 position. Exhaustive in the THOROUGH tier ONLY: all 1,114,112 code points '
                  '(quick: range edges +-2, 0..0x8ff, stride 251, 3000 random ones - a change hitting a few hundred code points away from the edges '
                  'is found in quick only by luck), all byte strings of length 3 (quick: class alphabet), every string over {space + - 0 1 9 x} up to '
                  'length 5 through the four parsers (quick: length 3 + 450 samples). evidence/C18.json is written by whichever tier ran last; its '
                  '"tier" field and the per-stream "exhaustive" flags say which.')
    level_note = ('PARTIAL: libc formatting and parsing (vsnprintf %d %u %lld %llu; atoi, strtoul, atoll, strtoull of glibc on LP64) are '
                  'MODELLED as reference decimal functions (digit loop; white space, sign, longest digit prefix, clamp to 64 bit, cast) - '
                  'the integer theorems are about that model (trusted) and the tie for it is boundary/random differential testing only. '
                  'String memory management (detach/reserve/resize/append) is not modelled here (C06) except the output buffer of '
                  'fromBase64 (capacity = inlen|3 plus terminator, cells unwritten until written). The parsers on non-canonical text (white '
                  'space, +, leading zeros, trailing garbage, overflow clamping) now have theorems about the model of libc; that glibc behaves '
                  'like this model is the trusted part, tied by the exhaustive small-scope stream int_forms (alphabet {space + - 0 1 9 x}, '
                  'length <= 5 in the thorough tier) and the boundary list of int_text; the reference (CodecSpec.ref_value) still leaves '
                  'non-canonical text open, so a difference there is reported as a model/implementation difference. Behaviour validated by '
                  'correspondence only (modelled, no theorem): the value of Unicode::length on bytes that start no encoding (80..C1, F5..FF; the '
                  'reference prints `?`), isValid on text with encoded surrogates, overlong forms or values above U+10FFFF (`?`), fromBase64 results on strings that are not RFC 4648 encodings (only '
                  'bounds-safety is proved for them). isValid is proved equal to layout validity (lead byte + announced number of '
                  'continuation bytes): it accepts overlong forms, surrogates and values above U+10FFFF, which the property text '
                  'leaves open. The theorems are about the model; the tie to the code is differential: all 1,114,112 code points '
                  'and all byte strings of length <= 3 for the readers in the thorough tier (length <= 2 + class-alphabet sweeps in '
                  'quick), 4-character base64 strings with one position over all 256 byte values. LENGTHS reached by the tie: UTF-8 readers on '
                  'mostly-ASCII text of every length 56..73 and around 96, 128, 192, 256, 300, 512 bytes plus 65531..70001 bytes (thorough: 56..139, '
                  'around 1024 and 4096, up to 200003), fromHex up to 65537 bytes (thorough 200000), fromBase64 on encodings of up to 90000 bytes '
                  '(thorough 200000; sizes straddling 2^8 and 2^16 of the input and of the output index), toString(data, size) up to 5000 code points '
                  '(thorough 70000). For inputs longer than 1536 bytes the model column the driver prints is the closed form that a theorem proves '
                  'equal to the model function for every input (is_valid = layout_valid: utf8_is_valid_never_fails; from_hex = upper_hex: '
                  'hex_is_upper_hex; from_base64 of an RFC 4648 encoding = its preimage: base64_decodes_every_rfc4648_text) - the list-indexing model '
                  'itself is worse than quadratic in the length (30000 bytes of base64: 9 minutes); long strings that are not encodings are therefore '
                  'not generated beyond 1536 bytes. Not observed: the bool result of Unicode::append and appending to a non-empty String (the text '
                  'speaks of toString; the harness calls toString(ch) and toString(data, size) only); toDouble/fromDouble; Strings made by the '
                  'literal constructor. Attached Strings are driven with (a) nothing behind the window for the Unicode overloads and (b) at least '
                  'one readable byte behind it for the integer conversions; fromBase64 on attached Strings with both. Trusted: Coq kernel, CodecSpec.v '
                  '(RFC 3629 / RFC 4648 / decimal transcription, guarded by known-answer Examples), extraction + OCaml driver, harness, '
                  'table translator (strict: gen/tables.py refuses whatever it cannot read unambiguously; self-test tools/test_tables.py).')
    rule = ('one case = a batch of independent codec calls (u8rt/u8enc/u8dec/u8valid/u8len/u8sw, hex, b64/b64sw, from*/to*/rt* for the four '
            'integer types; u8sw/b64sw = 256 calls, one byte position running over all values); streams: code points (all of them in '
            'thorough; every range edge +-2, 0..0x8ff, a stride and random ones in quick), all byte strings up to length 2 (length 3 in '
            'thorough; class-alphabet sweeps of lengths 2-4 in quick) for the readers, mostly-valid UTF-8 text with one mutation, '
            'base64 strings up to length 4 over {A Q f z / + 9 = { 00 80 ff}, 4-character base64 strings with one position over all 256 '
            'values, RFC 4648 encodings of random byte strings and mutations of them, integer boundaries (min/max, 0, +-1, 10^k+-1, '
            '2^k+-1) and random values, malformed decimal text, every string over {space + - 0 1 9 x} up to length 5 (thorough; length 3 plus a '
            'sample in quick) through the four parsers (to* print the member function, then the static overload on an exactly sized C string). A case is non-trivial when at least one call takes a multi-byte / '
            'multi-digit / multi-group path (code point >= 0x80, reader input with a byte >= 0x80, any sweep, base64 input of a non-zero '
            'multiple of 4 characters, |integer| >= 10, non-empty hex input); u8rt/u8dec/u8valid print the reader results twice '
            '(pointer overload on an exactly sized heap copy, then the String overload); hex inputs include 63, 64, 65, 300 and '
            '5000 bytes; round 5: u8deca/u8valida <window> <tail> = the String overloads on a String attached to the window of one exactly sized '
            'block window ++ tail, to<type>a <window> <tail> = the member conversions on such a String; streams readers_long (63..513-byte and '
            '65531..70001-byte text, the non-ASCII / truncated / impossible part at the start, in the middle, at the very end), readers_attached, '
            'b64_attached (b64a <window> <tail>: fromBase64 on an attached String), long_inputs (hex, base64, toString(data,size) at sizes around 2^7, 2^8, 2^13, 2^15, 2^16), int_attached (digits, NUL, white space '
            'right behind the window); distinct = distinct op text')
    assumptions = ['glibc on LP64 for the integer conversions: printf %d/%u/%lld/%llu print canonical decimal text; strtol/strtoul/strtoll/'
                   'strtoull skip white space, take an optional sign and the longest digit prefix, clamp to 64 bit (modelled, not proved of libc)',
                   'char is signed 8 bit, uint32 arithmetic wraps modulo 2^32 (x86-64 ABI)',
                   'fromBase64 is modelled after fixes/C18/01-base64-unsigned-compare.patch; on a tree without it base64_in_bounds is false (witness corpus/C18/base64-high-byte.ops)',
                   'the String overloads of Unicode::fromString / isValid are modelled after fixes/C18/02-unicode-string-overloads-attached.patch '
                   '(committed 3e3ed1e) and String::fromBase64 after fixes/C18/03-frombase64-attached-input.patch; on a tree without them they read the byte '
                   'behind an attached window (witness corpus/C18/attached-string-overloads.ops)',
                   'PRECONDITION for toInt/toUInt/toInt64/toUInt64 on a String made by attach(p, n): p[n] is readable. String::operator const char*() looks at '
                   'that byte to decide whether to copy; the property text promises exactness, not bounds-safety, for the integer conversions, and exactness '
                   'holds whatever the byte is (attached_conversions_see_the_window_only). The same precondition is carried by C06 and C02',
                   'RFC 3629 / RFC 4648 / canonical decimal transcription in coq/Codec/CodecSpec.v']

    def gen_tables(self):
        return [tables.gen_codec()]

    # ---- a tree on which (almost) every case ends in a sanitizer report: each report restarts the harness; give up on a
    # stream after 150 of them and report what was seen until then (the cases not run are dropped by vf) ---------------
    CRASH_CAP = 150

    def run_impl(self, cases, tag='impl'):
        rundir = os.path.join(vf.BUILD, self.id, 'run')
        res, crashes, i, total = [], {}, 0, 0
        while i < len(cases):
            size = 400 if total == 0 else 60
            part = cases[i:i + size]
            if total >= self.CRASH_CAP:
                res += [['! notrun'] for _ in part]
            else:
                r, c = vf.run_exe_on_cases(self.exes['impl'], part, rundir, tag, is_impl=True, per_case_timeout=self.per_case_timeout,
                                           env={'ASAN_OPTIONS': 'detect_leaks=0:abort_on_error=0:allocator_may_return_null=1:max_allocation_size_mb=2048'
                                                                + (':symbolize=0' if total > 20 else '')})
                res += r
                for k, v in c.items():
                    crashes[i + k] = v
                total += len(c)
            i += size
        if total >= self.CRASH_CAP:
            vf.log('[C18] stream %s: %d harness crashes, %d cases not run' % (tag, total, sum(1 for o in res if o == ['! notrun'])))
        return res, crashes

    # ---- non-triviality ------------------------------------------------------------------
    def nontrivial(self, case, obs):
        for l in case:
            t = l.split()
            if len(t) < 2:
                continue
            o, a = t[0], t[1]
            if o in ('u8rt', 'u8enc'):
                if int(a) >= 0x80:
                    return True
            elif o == 'u8encn':
                if a != '-' and any(int(x) >= 0x80 for x in a.split(',')):
                    return True
            elif o in ('u8dec', 'u8valid', 'u8deca', 'u8valida'):
                if a != '-' and any(b >= 0x80 for b in bytes.fromhex(a)):
                    return True
            elif o in ('u8sw', 'b64sw'):
                return True
            elif o in ('b64', 'b64raw', 'b64a'):
                if a != '-' and (len(a) // 2) % 4 == 0:
                    return True
            elif o == 'hex':
                if a != '-':
                    return True
            elif o.startswith(('from', 'rt')):
                if abs(int(a)) >= 10:
                    return True
            elif o.startswith('to'):
                if a != '-' and len(a) >= 4:
                    return True
        return False

    # ---- oracle: the default comparison with the reference; the reason starts with the op kind (padded) so
    # that one defect gives one report per kind of call instead of one per output shape -------------
    def judge(self, cases, impl_obs, spec_obs):
        fails = []
        for (i, k, reason) in Check.judge(self, cases, impl_obs, spec_obs):
            op = cases[i][k].split(' ')[0] if k < len(cases[i]) else 'crash'
            where = ''
            if op in ('u8sw', 'b64sw') and k < len(impl_obs[i]) and k < len(spec_obs[i]):
                st, it = spec_obs[i][k].split(' '), impl_obs[i][k].split(' ')
                t = cases[i][k].split(' ')
                for n, (a, b) in enumerate(zip(st, it)):
                    if a != b and a != '?':
                        pre = '' if t[1] == '-' else t[1]
                        suf = '' if t[2] == '-' else t[2]
                        what = ('fromString' if n < 256 else 'isValid') if op == 'u8sw' else 'fromBase64'
                        where = ' [%s on bytes %s%02x%s: reference %s, implementation %s]' % (what, pre, n % 256, suf, a, b)
                        break
            if not where and op in ('hex', 'b64', 'u8encn') and k < len(impl_obs[i]) and k < len(spec_obs[i]):
                a, b = spec_obs[i][k].split(' ')[0], impl_obs[i][k].split(' ')[0]
                if a not in ('?', '!') and b != '!' and len(a) + len(b) > 120:
                    a, b = ('' if a == '-' else a), ('' if b == '-' else b)
                    d = next((j for j in range(0, min(len(a), len(b)), 2) if a[j:j + 2] != b[j:j + 2]), min(len(a), len(b)))
                    where = ' [result of %d bytes expected, %d bytes returned; first difference at byte %d: reference %s, implementation %s]' % (
                        len(a) // 2, len(b) // 2, d // 2, a[d:d + 2] or '<end>', b[d:d + 2] or '<end>')
            reason = re.sub(r'[0-9a-f]{97,}', lambda m: '%s..(%d bytes)' % (m.group(0)[:32], len(m.group(0)) // 2), reason)
            fails.append((i, k, ('%-90s' % ('call %s: the implementation differs from the reference;' % op)) + where + ' ' + reason[:600]))
        fails.sort(key=lambda f: sum(len(l) for l in cases[f[0]]))
        return fails

    # ---- witnesses: after the line-level ddmin of vf, shorten the byte strings of a single remaining call ---------------
    def shrink(self, case, pred, budget=400):
        small = Check.shrink(self, case, pred, budget) if len(case) > 1 else case
        if len(small) != 1:
            return small
        t = small[0].split(' ')
        calls = 0
        for ai in range(1, len(t)):
            if len(t[ai]) < 32 or any(c not in '0123456789abcdef' for c in t[ai]):
                continue
            unit = 8 if t[0].startswith('b64') else 2          # whole 4-character groups for base64 text
            cur = t[ai]
            size = (len(cur) // unit) // 2
            while size >= 1 and calls < 48:
                pos, changed = 0, False
                while pos < len(cur) and calls < 48:
                    cand = cur[:pos] + cur[pos + size * unit:]
                    if cand != cur:
                        t2 = list(t); t2[ai] = cand or '-'
                        calls += 1
                        if pred([' '.join(t2)]):
                            cur, changed = cand, True
                            continue
                    pos += size * unit
                if not changed or size == 1:
                    size //= 2
                else:
                    size = min(size, (len(cur) // unit) // 2) or 1
                    if size == 1 and len(cur) // unit <= 1:
                        break
            t[ai] = cur or '-'
        return [' '.join(t)]

    # ---- generators ----------------------------------------------------------------------
    def utf8_text(self, rng, n):
        cps = []
        for _ in range(n):
            r = rng.random()
            if r < 0.3:
                cps.append(rng.randrange(0, 0x80))
            elif r < 0.5:
                cps.append(rng.randrange(0x80, 0x800))
            elif r < 0.8:
                cps.append(rng.randrange(0x800, 0x10000))
            else:
                cps.append(rng.randrange(0x10000, 0x110000))
        return cps

    @staticmethod
    def enc(cp):
        """RFC 3629 layout (generator side; python's codec refuses surrogates)."""
        if cp < 0x80:
            return bytes([cp])
        if cp < 0x800:
            return bytes([0xc0 | cp >> 6, 0x80 | cp & 63])
        if cp < 0x10000:
            return bytes([0xe0 | cp >> 12, 0x80 | (cp >> 6) & 63, 0x80 | cp & 63])
        return bytes([0xf0 | cp >> 18, 0x80 | (cp >> 12) & 63, 0x80 | (cp >> 6) & 63, 0x80 | cp & 63])

    def streams(self, tier, rng):
        thorough = tier == 'thorough'
        out = []

        # -- code points ----------------------------------------------------------------------
        if thorough:
            cps = list(range(0, 0x110000)) + CP_BEYOND
        else:
            s = set()
            for e in CP_EDGES + CP_BEYOND:
                for d in (-2, -1, 0, 1, 2):
                    if 0 <= e + d <= 0xffffffff:
                        s.add(e + d)
            s.update(range(0, 0x900))                      # all 1- and 2-byte code points and the first 3-byte ones
            s.update(range(0, 0x110000, 251))
            s.update(rng.randrange(0x110000) for _ in range(3000))
            s.update(rng.randrange(0x110000, 2**32) for _ in range(200))
            cps = sorted(s)
        out.append(Stream('codepoints', chunk(['u8rt %d' % c for c in cps], 512), exhaustive=thorough,
                          note='toString, fromString(toString), isValid(toString) per code point; %s' %
                          ('all 1,114,112 code points + values beyond' if thorough else 'range edges +-2, 0..0x8ff, stride 251, random')))

        # -- readers on short byte strings (exhaustive small scope) ------------------------------
        ops = []
        for n in (0, 1, 2):
            for s in product(range(256), n):
                ops.append('u8dec ' + hexs(s))
                ops.append('u8valid ' + hexs(s))
        for b in range(256):
            ops.append('u8len %d' % b)
        out.append(Stream('readers_len2', chunk(ops, 1024), exhaustive=True, note='all byte strings of length <= 2; length() of all 256 bytes'))
        ops = []
        firsts = range(256) if thorough else U8_ALPHA
        for a in firsts:
            for b in U8_ALPHA:
                for c in U8_ALPHA:
                    s = bytes([a, b, c])
                    ops.append('u8dec ' + hexs(s))
                    ops.append('u8valid ' + hexs(s))
        if thorough:
            for s in product(U8_ALPHA, 4):
                if s[0] >= 0xc0:
                    ops.append('u8dec ' + hexs(s))
                    ops.append('u8valid ' + hexs(s))
        out.append(Stream('readers_len3', chunk(ops, 1024),
                          note='length 3: %s first byte x 35-symbol class alphabet^2%s' % ('every' if thorough else 'class alphabet',
                                                                                           '; length 4 over the class alphabet with a lead byte first' if thorough else '')))

        # -- readers: byte sweeps (one op = 256 strings prefix ++ [v] ++ suffix) -----------------------
        h1 = lambda *bs: hexs(bytes(bs))
        ops = []
        if thorough:
            for a in range(256):
                for b in range(256):
                    ops.append('u8sw %s -' % h1(a, b))                      # every byte string of length 3
            for a in range(0xf0, 0xf8):                                      # length 4 behind a 4-byte lead:
                for b in range(256):                                         # second and last byte over all values, third over the classes
                    for c in U8_ALPHA:
                        ops.append('u8sw %s -' % h1(a, b, c))
            for a in range(0xe0, 0xf0):
                for b in U8_ALPHA:
                    for c in U8_ALPHA:
                        ops.append('u8sw %s -' % h1(a, b, c))               # a 3-byte sequence and the byte after it
            for a in (0x41, 0xc2, 0xe0, 0xed, 0xef):
                for b in U8_ALPHA:
                    for c in U8_ALPHA:
                        ops.append('u8sw %s %s' % (h1(a, b), h1(c)))        # length 4, a sequence and what follows it
        else:
            leads = [0x41, 0x80, 0xc2, 0xdf, 0xe0, 0xed, 0xef, 0xf0, 0xf4, 0xf7, 0xf8]
            for a in leads:
                ops.append('u8sw %s -' % h1(a))
                for b in U8_ALPHA:
                    ops.append('u8sw %s -' % h1(a, b))
                    ops.append('u8sw %s %s' % (h1(a), h1(b)))
            for a in (0xf0, 0xf4):
                for b in (0x7f, 0x80, 0xbf, 0xc0):
                    for c in (0x7f, 0x80, 0xbf, 0xc0):
                        ops.append('u8sw %s -' % h1(a, b, c))
                        ops.append('u8sw %s %s' % (h1(a, b), h1(c)))
        out.append(Stream('readers_sweep', chunk(ops, 16), exhaustive=thorough,
                          note=('every byte string of length 3 (65536 sweeps of the last byte); length 4 behind every 4-byte lead: second and last byte over all 256 values, third over the class alphabet; every 3-byte lead x class alphabet^2 x any following byte'
                                if thorough else 'sweeps of one byte (256 values) behind/between class-alphabet bytes: lengths 2, 3 and 4')))

        # -- mostly valid text + one mutation; several code points ------------------------------
        ops = []
        for _ in range(6000 if thorough else 900):
            cps = self.utf8_text(rng, rng.randrange(0, 9))
            ops.append('u8encn ' + (','.join(map(str, cps)) if cps else '-'))
            s = bytearray(b''.join(self.enc(c) for c in cps))
            ops.append('u8valid ' + hexs(s))
            ops.append('u8dec ' + hexs(s))
            if s:
                r = rng.random()
                k = rng.randrange(len(s))
                if r < 0.3:
                    s = s[:k]                               # truncate (often inside a sequence)
                elif r < 0.6:
                    s[k] = rng.choice(U8_ALPHA)             # replace one byte
                elif r < 0.8:
                    s.insert(k, rng.choice([0x80, 0xbf, 0xc0, 0xe0, 0xf0, 0xf8, 0xff]))
                else:
                    del s[k]
                ops.append('u8valid ' + hexs(s))
                ops.append('u8dec ' + hexs(s[rng.randrange(len(s)):] if s else s))
        out.append(Stream('utf8_text', chunk(ops, 50), note='encodings of random scalar sequences, then one truncation/replacement/insertion/deletion'))

        # -- hex ---------------------------------------------------------------------------------
        ops = ['hex -'] + ['hex %02x' % b for b in range(256)]
        for _ in range(400 if thorough else 80):
            ops.append('hex ' + hexs(bytes(rng.randrange(256) for _ in range(rng.randrange(0, 40)))))
        for n in (63, 64, 65, 300, 5000):                  # beyond any small-buffer / block-size threshold a rewrite might introduce
            ops.append('hex ' + hexs(bytes(rng.randrange(256) for _ in range(n))))
            ops.append('hex ' + hexs(bytes((i * 37 + n) & 0xff for i in range(n))))
        out.append(Stream('hex', chunk(ops, 64), note='every single byte; random byte strings up to 40 bytes; 63, 64, 65, 300 and 5000 bytes'))

        # -- base64: exhaustive short strings over a small alphabet ---------------------------------
        low = [0x41, 0x51, 0x66, 0x7a, 0x2f, 0x2b, 0x39, 0x3d, 0x7b, 0x00]      # A Q f z / + 9 = { NUL
        high = [0x80, 0xff]
        lo_ops, hi_ops = [], []
        for n in range(0, 5):
            for s in product(low + high, n):
                (hi_ops if any(b >= 0x80 for b in s) else lo_ops).append('b64 ' + hexs(s))
        out.append(Stream('b64_short_ascii', chunk(lo_ops, 256), exhaustive=True, note='all strings of length <= 4 over {A Q f z / + 9 = { NUL}'))
        out.append(Stream('b64_short_high', chunk(hi_ops, 128), exhaustive=True,
                          note='all strings of length <= 4 over {A Q f z / + 9 = { NUL 0x80 0xff} with at least one byte >= 0x80'))

        # -- base64: one position runs over all 256 byte values, the others over an alphabet ------------------
        alpha = (low + high) if thorough else [0x41, 0x7a, 0x2f, 0x3d, 0x80]
        ops = []
        for pos in range(4):
            for rest in product(alpha, 3):
                ops.append('b64sw %s %s' % (hexs(rest[:pos]), hexs(rest[pos:])))
        for pos in range(4):
            for rest in product([0x41, 0x7a, 0x3d, 0xff], 3):
                ops.append('b64sw %s %s' % (hexs(b'QUJD' + rest[:pos]), hexs(rest[pos:])))   # second group
        out.append(Stream('b64_sweep', chunk(ops, 32), exhaustive=True,
                          note='4-character strings: each position over all 256 byte values x the other three over %d symbols; the same in a second group' % len(alpha)))

        # -- base64: RFC 4648 encodings and their neighbourhood ---------------------------------------
        ops = []
        for n in range(0, 20):
            ops.append('b64 ' + hexs(b64enc(bytes((i * 37 + n) & 0xff for i in range(n)))))
            ops.append('b64 ' + hexs(b64enc(bytes([0xff] * n))))
            ops.append('b64 ' + hexs(b64enc(bytes(n))))
        for _ in range(3000 if thorough else 500):
            bs = bytes(rng.randrange(256) for _ in range(rng.choice([rng.randrange(0, 10), rng.randrange(0, 70), rng.randrange(0, 400)])))
            ops.append('b64 ' + hexs(b64enc(bs)))
        out.append(Stream('b64_rfc4648', chunk(ops, 40), note='RFC 4648 encodings of patterned and random byte strings (every length 0..19, random up to 400)'))
        ops = []
        for _ in range(4000 if thorough else 700):
            e = bytearray(b64enc(bytes(rng.randrange(256) for _ in range(rng.randrange(1, 16)))))
            k = rng.randrange(len(e))
            r = rng.random()
            if r < 0.25:
                e[k] = rng.choice([0x3d, 0x7b, 0x7f, 0x20, 0x0a, 0x2d, 0x5f, 0x00, 0x2c, 0x40, 0x5b, 0x60])
            elif r < 0.45:
                e[k] = rng.choice([0x80, 0x81, 0xbd, 0xc3, 0xfa, 0xfe, 0xff])
            elif r < 0.6:
                e = e[:k]
            elif r < 0.75:
                e.insert(k, rng.choice([0x3d, 0x41, 0x0a]))
            elif r < 0.9:
                e[k] = B64[rng.randrange(64)]                # still well-formed or non-zero padding bits
            else:
                e += b'===='[:rng.randrange(1, 5)]
            ops.append('b64 ' + hexs(e))
        out.append(Stream('b64_malformed', chunk(ops, 25), note='one mutation of an RFC 4648 encoding: foreign character, byte >= 0x80, truncation, insertion, other alphabet character, extra padding'))

        # -- readers on LONG inputs (beyond any block size / word-at-a-time / small-buffer threshold a rewrite might bring):
        #    mostly ASCII, every length mod 8 around 64, 128, 256; the non-ASCII part at the start, in the middle, as the last
        #    1-4 bytes, a truncated final sequence, an invalid byte as the very last one - on exactly sized blocks through the
        #    pointer overloads, the String overloads and the String overloads on an attached (non-owning) String
        ops = []
        lens = sorted(set(list(range(56, 74)) + [95, 96, 97, 120, 127, 128, 129, 191, 200, 255, 256, 257, 300, 511, 512, 513]
                          + (list(range(74, 140)) + [1023, 1024, 1025, 4095, 4096, 4097] if thorough else [])))
        for n in lens:
            base = bytes(rng.randrange(0x20, 0x7f) for _ in range(n))
            cp3, cp2, cp4 = rng.randrange(0x800, 0x10000), rng.randrange(0x80, 0x800), rng.randrange(0x10000, 0x110000)
            var = [base]
            for e in (self.enc(cp2), self.enc(cp3), self.enc(cp4)):
                var.append(base[:n - len(e)] + e)                           # complete sequence as the last bytes
                var.append(base[:n - len(e) + 1] + e[:-1])                  # the same sequence, cut one byte short, at the very end
                var.append(e + base[len(e):])                               # non-ASCII first, ASCII behind it
                k = n // 2 + rng.randrange(8)
                var.append(base[:k] + e + base[k + len(e):])                # in the middle, at some offset mod 8
            var.append(base[:n - 1] + bytes([rng.choice([0xe2, 0xf0, 0xc3])]))        # a lead byte as the last byte
            var.append(base[:n - 1] + bytes([rng.choice([0x80, 0xbf, 0xff, 0xf8])]))  # an impossible byte as the last byte
            var.append(base[:n - 2] + bytes([0xe2, 0x82]))
            var.append(base[:n - 3] + bytes([0xf0, 0x9f, 0x98]))
            for v in var:
                assert len(v) == n
                ops.append('u8valid ' + hexs(v))
                ops.append('u8valida %s -' % hexs(v))
            for v in (var[3], var[7], var[11], var[0]):
                ops.append('u8dec ' + hexs(v))
                ops.append('u8deca %s -' % hexs(v))
        big = []
        for n in ((65531, 65536, 65537, 70001) if not thorough else (32767, 32768, 65531, 65535, 65536, 65537, 70001, 131073, 200003)):
            base = bytes(0x20 + (i * 7 + n) % 0x5f for i in range(n))
            e = self.enc(0x20ac)
            big.append('u8valid ' + hexs(base[:n - 3] + e))                       # valid, the multi-byte sequence ends the range
            big.append('u8valid ' + hexs(base[:n - 2] + e[:2]))                   # the same cut short: the announced byte is not there
            big.append('u8valida %s -' % hexs(base[:n // 2] + e + base[n // 2 + 3:n - 1] + b'\xff'))
        out.append(Stream('readers_long', chunk(ops, 40) + chunk(big, 1),
                          note='mostly-ASCII text of %d lengths from 56 to %d bytes (every length mod 8 around 64), non-ASCII first / in the middle / as the last '
                               'bytes / cut short at the end / impossible last byte, on exactly sized blocks: pointer overload, String overload, attached '
                               'String; texts of %s bytes' % (len(lens), lens[-1], '65531..70001' if not thorough else '32767..200003')))

        # -- the String overloads on attached (non-owning) Strings: window ++ tail in one exactly sized block -----------
        ops = []
        short = [b''] + [bytes([b]) for b in range(256)] + [bytes([a, b]) for a in U8_ALPHA for b in U8_ALPHA]
        if thorough:
            short += [bytes([a, b, c]) for a in U8_ALPHA if a >= 0xc0 for b in U8_ALPHA for c in U8_ALPHA]
        else:
            short += [bytes([a, b, c]) for a in (0xc2, 0xe0, 0xe2, 0xed, 0xf0, 0xf4, 0xf8) for b in (0x41, 0x80, 0xbf, 0xc0) for c in (0x00, 0x7f, 0x80, 0xbf, 0xe2)]
        for w in short:
            ops.append('u8deca %s -' % hexs(w))
            ops.append('u8valida %s -' % hexs(w))
        # a window that ends inside a sequence, the missing bytes right behind it: a reader that trusts a terminator or the
        # announced length instead of the String's length decodes / accepts the whole sequence
        for _ in range(1500 if thorough else 250):
            cps = self.utf8_text(rng, rng.randrange(1, 6))
            e = b''.join(self.enc(c) for c in cps)
            last = self.enc(cps[-1])
            cut = rng.randrange(0, len(last)) if len(last) > 1 and rng.random() < 0.7 else 0
            w, tl = (e[:len(e) - cut], e[len(e) - cut:]) if cut else (e, b'')
            tl = tl + rng.choice([b'', b'\x00', b'\x80', b'\xbf\xbf\xbf', b'A', b'\xe2\x82\xac'])
            ops.append('u8valida %s %s' % (hexs(w), hexs(tl)))
            k = rng.randrange(len(w)) if w else 0
            ops.append('u8deca %s %s' % (hexs(w[k:]), hexs(tl)))
        out.append(Stream('readers_attached', chunk(ops, 64),
                          note='fromString(const String&) / isValid(const String&) on a String attached to a window of an exactly sized block: every window of '
                               'length <= 1, class alphabet^2, lead bytes x classes for length 3 with nothing behind the window; windows cut inside a '
                               'sequence with the missing bytes (or NUL, continuation bytes, another character) right behind them'))

        # -- fromBase64 on attached Strings: encodings and malformed strings, nothing / padding / alphabet characters behind the window ----
        ops = []
        for n in list(range(0, 14)) + [30, 31, 32, 33, 100, 191, 192, 193]:
            e = b64enc(bytes((i * 37 + n) & 0xff for i in range(n)))
            ops.append('b64a %s -' % hexs(e))
            ops.append('b64a %s %s' % (hexs(e), hexs(rng.choice([b'=', b'A', b'\x00', b'QUJD', b'\xff', b'==']))))
        for _ in range(1200 if thorough else 200):
            e = bytearray(b64enc(bytes(rng.randrange(256) for _ in range(rng.randrange(1, 16)))))
            r = rng.random()
            if r < 0.35:
                e[rng.randrange(len(e))] = rng.choice([0x3d, 0x7b, 0x20, 0x00, 0x80, 0xff, 0x2d])
            elif r < 0.7:
                k = rng.randrange(len(e) + 1)                # window = a prefix of the encoding, the rest lies right behind it
                ops.append('b64a %s %s' % (hexs(e[:k]), hexs(e[k:])))
                continue
            ops.append('b64a %s %s' % (hexs(e), hexs(rng.choice([b'', b'', b'=', b'A', b'\x00']))))
        out.append(Stream('b64_attached', chunk(ops, 40),
                          note='fromBase64 on a String attached to a window of an exactly sized block: RFC 4648 encodings of 0..13, 30..33, 100, 191..193 bytes and '
                               'mutated encodings with nothing behind the window, with padding / alphabet characters / NUL behind it, and windows that are a '
                               'prefix of an encoding whose rest follows'))

        # -- hex / base64 / toString(data, size) at sizes around 2^7, 2^8, 2^13, 2^15, 2^16 (index or length kept in a narrower type) ----
        ops = []
        for n in [127, 128, 129, 255, 256, 257, 8191, 8192, 8193, 32767, 32768, 32769, 65535, 65536, 65537] + ([100000, 200000] if thorough else []):
            ops.append('hex ' + hexs(bytes((i * 37 + n + (i >> 8)) & 0xff for i in range(n))))
        ops.append('hex ' + hexs(bytes(rng.randrange(256) for _ in range(rng.randrange(8193, 20000)))))
        for n in [191, 192, 193, 49151, 49152, 49153, 65535, 65536, 65537] + ([190, 49150, 65534, 70000, 98304, 99999, 200000] if thorough else []):
            ops.append('b64 ' + hexs(b64enc(bytes((i * 37 + n + (i >> 8)) & 0xff for i in range(n)))))
        ops.append('b64 ' + hexs(b64enc(bytes(rng.randrange(256) for _ in range(rng.randrange(65536, 90000))))))
        for n in [64, 70, 199, 200, 201, 300, 1000] + ([20000, 70000] if thorough else [5000]):
            ops.append('u8encn ' + ','.join(map(str, self.utf8_text(rng, n))))
        ops.append('u8encn ' + ','.join(str(0x10000 + (i * 4099) % 0x100000) for i in range(300)))   # 4-byte sequences only: 1200 bytes into a String reserved for 500
        out.append(Stream('long_inputs', chunk(ops, 2),
                          note='fromHex of 127..65537 bytes (8191/8192/8193, 2^15+-1, 2^16+-1%s), fromBase64 of the RFC 4648 encodings of 191..90000 bytes (input '
                               'length around 2^8 and 2^16: 191..193 and 49151..49153 bytes; output length around 2^16: 65535..65537 bytes%s), toString(data, size) of 64..%d code '
                               'points (beyond the size+200 bytes it reserves)' % ((', 100000, 200000', '; 98304, 99999, 200000', 70000) if thorough else ('', '', 5000))))

        # -- the member conversions on attached Strings: the digits go on right behind the window ---------------------------
        ops = []
        tails = [b'0', b'7', b'99', b'\x00', b'\x0099', b' ', b'x', b'\xff', b'-', b'12345678901234567890']
        for name, lo, hi in INT_TYPES:
            vals = {lo, hi, 0, 1, 9, 10, 12, lo + 1, hi - 1, hi // 10, lo // 10, hi // 10 + 1}
            for _ in range(300 if thorough else 40):
                vals.add(rng.randrange(lo, hi + 1))
                vals.add(rng.randrange(-10 ** rng.randrange(1, 19), 10 ** rng.randrange(1, 19)))
            for v in sorted(x for x in vals if lo <= x <= hi):
                for tl in ([rng.choice(tails), rng.choice(tails[:3])] if not thorough else tails):
                    ops.append('to%sa %s %s' % (name, hexs(str(v).encode()), hexs(tl)))
            for w in (b'', b'-', b'+', b' ', b' 4', b'+4', b'-0', b'007', b'4 ', b'4x', b'12\x0034'):
                for tl in (b'2', b'\x00', b'\x002', b'x'):
                    ops.append('to%sa %s %s' % (name, hexs(w), hexs(tl)))
        out.append(Stream('int_attached', chunk(ops, 60),
                          note='toInt/toUInt/toInt64/toUInt64 on a String attached to a window of a block: boundary and random values, the block going on with '
                               'digits / NUL / NUL and digits / white space / other bytes right behind the window (one readable byte there is the precondition)'))

        # -- integers: boundaries and random values ---------------------------------------------------
        ops = []
        for name, lo, hi in INT_TYPES:
            vals = {lo, hi, 0, 1, lo + 1, hi - 1, hi // 2, lo // 2}
            for k in range(0, 20):
                for d in (-1, 0, 1):
                    for sg in (1, -1):
                        vals.add(sg * (10 ** k + d))
                        vals.add(sg * (10 ** k * 9 + d))
            for k in range(0, 65):
                for d in (-1, 0, 1):
                    for sg in (1, -1):
                        vals.add(sg * (2 ** k + d))
            for _ in range(2000 if thorough else 250):
                nb = rng.randrange(1, 65)
                vals.add(rng.randrange(-2 ** nb, 2 ** nb))
                vals.add(rng.randrange(lo, hi + 1))
            for v in sorted(x for x in vals if lo <= x <= hi):
                ops.append('from%s %d' % (name, v))
                ops.append('to%s %s' % (name, hexs(str(v).encode())))
                ops.append('rt%s %d' % (name, v))
        out.append(Stream('int_boundaries', chunk(ops, 60), note='min/max, 0, +-1, 10^k+-1, 9*10^k+-1, 2^k+-1, random magnitudes; print, parse, print-then-parse'))

        # -- malformed / non-canonical decimal text (model of libc vs code; the reference leaves them open) ----
        ops = []
        fixed = [b'', b'-', b'+', b' ', b'-0', b'+0', b'00', b'007', b'+5', b' 42', b'\t\n\v\f\r 42', b'42 ', b'42abc', b'4 2', b'--5', b'+-5', b'-+5',
                 b'0x10', b'1e5', b'1.5', b'12\x0034', b'\xa012', b'12\xa0', b'\x0012', b'- 5', b'\x1c5', b'\x085', b'\x0e5',
                 b'2147483647', b'2147483648', b'-2147483648', b'-2147483649', b'4294967295', b'4294967296', b'-1', b'-4294967295', b'-4294967296',
                 b'9223372036854775807', b'9223372036854775808', b'-9223372036854775808', b'-9223372036854775809',
                 b'18446744073709551615', b'18446744073709551616', b'-18446744073709551615', b'-18446744073709551616', b'-9223372036854775807',
                 b'99999999999999999999', b'100000000000000000000', b'-100000000000000000000', b'340282366920938463463374607431768211456',
                 b'000000000000000000000000000001', b'18446744073709551615000', b'1844674407370955161', b'18446744073709551620', b'18446744073709551609']
        for s in fixed:
            for name, _, _ in INT_TYPES:
                ops.append('to%s %s' % (name, hexs(s)))
        pieces = [b' ', b'\t', b'-', b'+', b'0', b'1', b'9', b'00', b'12345', b'a', b'\x00', b'\xff', b'4294967296', b'9223372036854775808', b'18446744073709551616', b'99']
        for _ in range(3000 if thorough else 500):
            s = b''.join(rng.choice(pieces) for _ in range(rng.randrange(1, 5)))
            ops.append('to%s %s' % (rng.choice(INT_TYPES)[0], hexs(s)))
        out.append(Stream('int_text', chunk(ops, 60), note='white space, signs, leading zeros, trailing garbage, NUL and high bytes, values around and beyond every type limit'))

        # -- non-canonical forms, small scope: every string over {' ', '+', '-', '0', '1', '9', 'x'} up to length 5 (thorough; quick: up to
        #    length 3 and a sample of lengths 4-5), each through all four conversions.  Aimed at the case split of
        #    parsers_on_all_strings: amount of white space, which sign, leading zeros, where the digit prefix ends, what follows it.
        forms = [0x20, 0x2b, 0x2d, 0x30, 0x31, 0x39, 0x78]
        ops = []
        strs = [w for n in range(0, 6 if thorough else 4) for w in product(forms, n)]
        if not thorough:
            seen = set()
            while len(seen) < 450:
                seen.add(bytes(rng.choice(forms) for _ in range(rng.choice((4, 5)))))
            strs += sorted(seen)
        for w in strs:
            for name, _, _ in INT_TYPES:
                ops.append('to%s %s' % (name, hexs(w)))
        out.append(Stream('int_forms', chunk(ops, 256), exhaustive=thorough,
                          note="every string over {' ', '+', '-', '0', '1', '9', 'x'} of length <= %s through toInt/toUInt/toInt64/toUInt64 "
                               "(member function and static overload)" % ('5' if thorough else '3, and 450 random ones of length 4-5')))
        return out

    # ---- independent search oracles (never a proof) ----------------------------------------------
    def extra_checks(self, tier, rng, ctx):
        cases, want = [], []
        for _ in range(300):
            bs = bytes(rng.randrange(256) for _ in range(rng.randrange(0, 120)))
            cp = rng.choice([rng.randrange(0, 0xd800), rng.randrange(0xe000, 0x110000)])
            v = rng.randrange(-2 ** 63, 2 ** 63)
            cases.append(['b64 ' + hexs(base64.b64encode(bs)), 'hex ' + hexs(bs), 'u8enc %d' % cp, 'fromint64 %d' % v,
                          'u8valid ' + hexs(chr(cp).encode('utf-8') + bs[:3])])
            try:
                codecs.decode(chr(cp).encode('utf-8') + bs[:3], 'utf-8')
                strict_ok = True
            except UnicodeDecodeError:
                strict_ok = False
            want.append((hexs(bs), hexs(bs.hex().upper().encode()), hexs(chr(cp).encode('utf-8')), hexs(str(v).encode()), strict_ok))
        impl, _ = self.run_impl(cases, tag='impl_py')
        for c, o, w in zip(cases, impl, want):
            got = [l.split(' ')[0] for l in o]
            bad = len(got) < 5 or tuple(got[:4]) != w[:4] or (w[4] and got[4] != '1')   # strict python accepts => isValid must accept
            if bad:
                # keep only the calls that differ
                keep = [j for j in range(5) if j >= len(got) or (got[j] != w[j] if j < 4 else (w[4] and got[4] != '1'))]
                c = [c[j] for j in keep]
                p = self.write_replay('failing-input', 'python base64/codecs/int oracle', c,
                                      {'reason': 'python oracle: expected %s, implementation gives %s' % ([w[j] for j in keep], [got[j] if j < len(got) else '<nothing>' for j in keep])})
                ctx['violations'].append((p, ''))
                break


CHECK = C18
