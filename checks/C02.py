import os, re, sys, itertools
import vf
from vf import Check, Stream, REPO
sys.path.insert(0, os.path.join(os.path.dirname(os.path.abspath(__file__)), '..', 'gen'))
import tables

CAPS = [1, 2, 3, 7, 64, 500]
# large capacities: around 2^10, 2^15, 2^16 (a narrower index / a capped cell array), and a non-power
BIGCAPS = [1023, 1024, 1025, 5000, 32767, 32768, 32769, 65535, 65536, 65537]
KINDS = ['hm', 'hs', 'pm']
SELF_ASSIGN = [False]     # set by streams(): are x = x histories generated (see self_assign_enabled)


def hexs(b):
    return bytes(b).hex() if len(b) else '-'


# ---- key universes -----------------------------------------------------------------------------
def int_universe(rng, cap, fam):
    c = max(cap, 1)
    if fam == 0:      # small dense set
        return list(range(0, rng.randrange(3, 9)))
    if fam == 1:      # multiples of the capacity: one bucket
        return [i * c for i in range(0, rng.randrange(3, 8))]
    if fam == 2:      # negative keys (hash = sign extension to 64 bits, bucket = (2^64 - |k|) mod cap)
        return [-1, -2, -3, -c, -2 * c, -2147483648, 2147483647, 0, c][:rng.randrange(4, 10)]
    if fam == 3:      # same residue, mixed signs
        r = rng.randrange(c)
        return [r, r + c, r + 2 * c, r - c, r - 2 * c, r + 5 * c]
    return [rng.randrange(-20, 20) for _ in range(rng.randrange(3, 9))]


def long_universe(rng, cap, fam):
    c = max(cap, 1)
    if fam == 0:
        return [i * (1 << 32) for i in range(-3, 4)]
    if fam == 1:
        return [i * c * (1 << 33) + (1 << 40) for i in range(0, 6)]
    if fam == 2:
        return [-(1 << 61), (1 << 61), -1, 0, 1, (1 << 32) - 1, -(1 << 32), (1 << 31), -(1 << 31)]
    return [rng.randrange(-(1 << 50), 1 << 50) for _ in range(6)] + [0, c, -c]


def str_universe(rng, cap, fam):
    if fam == 0:      # differ only outside the three hashed positions (0, len/2, len-1)
        n = rng.choice([5, 6, 7, 9])
        base = [0x61 + i for i in range(n)]
        out = []
        free = [i for i in range(n) if i not in (0, n // 2, n - 1)]
        for j in range(rng.randrange(3, 8)):
            s = list(base)
            for p in free:
                s[p] = 0x41 + (j * (p + 1)) % 26
            out.append(hexs(s))
        return list(dict.fromkeys(out))
    if fam == 1:      # short strings incl. empty, one char, high bytes (signed char)
        return ['-', hexs([0x61]), hexs([0x80]), hexs([0xff]), hexs([0x61, 0x62]), hexs([0xff, 0x80]),
                hexs([0x80, 0x61, 0xff]), hexs([0x7f, 0x80])][:rng.randrange(4, 9)]
    if fam == 2:      # same length, differ in hashed positions
        n = rng.choice([1, 2, 3, 4])
        return list(dict.fromkeys(hexs([rng.choice([0x00, 0x41, 0x7f, 0x80, 0xfe]) for _ in range(n)]) for _ in range(8)))
    # embedded zero bytes and different lengths with equal hashed characters
    return [hexs([0x61] * k) for k in range(0, 7)] + [hexs([0x61, 0, 0x61])]


def uint_universe(rng, cap, fam):
    # uint32: hash = zero extension (an int32 with the same bits would be sign-extended to another bucket)
    c = max(cap, 1)
    if fam == 0:
        return [(1 << 32) - 1 - i for i in range(rng.randrange(3, 8))] + [0, 1]
    if fam == 1:      # one bucket
        return [(1 << 31) % c + i * c for i in range(rng.randrange(3, 8))]
    if fam == 2:
        return [0, 1, (1 << 31) - 1, 1 << 31, (1 << 31) + 1, (1 << 32) - 1, c, (1 << 32) - c][:rng.randrange(4, 9)]
    r = rng.randrange(c)
    return [r + i * c + (1 << 31) * (i % 2) // c * c for i in range(6)]


def ptr_universe(rng, cap, fam):
    # const void*: hash = address >> 3: the 8 addresses of one aligned word collide for EVERY capacity
    c = max(cap, 1)
    if fam == 0:
        base = 8 * rng.randrange(1, 1 << 20)
        return [base + i for i in range(rng.randrange(3, 9))]
    if fam == 1:      # one bucket: (address >> 3) multiples of the capacity
        return [8 * c * i + (i % 8) for i in range(rng.randrange(3, 8))]
    if fam == 2:
        return [0, 1, 7, 8, 9, 8 * c, 8 * c + 7, (1 << 47) - 8, (1 << 47), (1 << 61) + 5][:rng.randrange(4, 11)]
    r = rng.randrange(c)
    return [8 * (r + i * c) + rng.randrange(8) for i in range(6)]


# the integer key types by letter: (bits, signed);  hash(T v) = (usize)v = the value modulo 2^64
INT_TYPES = {'b': (8, True), 'B': (8, False), 'h': (16, True), 'H': (16, False), 'i': (32, True), 'u': (32, False),
             'l': (64, True), 'q': (64, False)}
ALL_KEY_TYPES = ['b', 'B', 'h', 'H', 'i', 'u', 'l', 'q', 'p', 's']


def bucket_of(v, cap):
    return (v % (1 << 64)) % max(cap, 1)


def type_range(kt):
    bits, signed = INT_TYPES[kt]
    return (-(1 << (bits - 1)), (1 << (bits - 1)) - 1) if signed else (0, (1 << bits) - 1)


def colliding_keys(kt, cap, n, anchor=None, rng=None):
    """n keys of the integer type kt that fall into ONE bucket of a table of `cap` cells under hash = (usize)v, negative and
    positive ones alternating for the signed types (a negative key is sign-extended: its bucket is (2^64 - |v|) mod cap, not
    -|v| mod cap).  Fewer than n when the type has not that many values in the bucket (int8 with 500 cells)."""
    lo, hi = type_range(kt)
    c = max(cap, 1)
    if anchor is None:
        anchor = -1 if lo < 0 else hi
    b = bucket_of(anchor, c)
    if hi - lo < (1 << 17):
        cand = [v for v in range(lo, hi + 1) if bucket_of(v, c) == b]
    else:
        # v = b + m*c for the non-negative ones; for the negative ones (2^64 + v) mod c == b
        span = (hi - b) // c
        ms = sorted(set([0, 1, 2, span, span - 1, span // 2, span // 3] + ([rng.randrange(span + 1) for _ in range(n)] if rng else [])))
        cand = [b + m * c for m in ms if 0 <= b + m * c <= hi]
        if lo < 0:
            r = (b - (1 << 64)) % c          # v = r - k*c is negative and (2^64 + v) mod c == b
            nspan = (r - lo) // c
            ks = sorted(set([1, 2, 3, nspan, nspan - 1, nspan // 2] + ([rng.randrange(1, nspan + 1) for _ in range(n)] if rng else [])))
            cand += [r - k * c for k in ks if lo <= r - k * c < 0]
    cand = [v for v in dict.fromkeys(cand) if bucket_of(v, c) == b and lo <= v <= hi]
    neg = [v for v in cand if v < 0]
    pos = [v for v in cand if v >= 0]
    if rng:
        rng.shuffle(neg)
        rng.shuffle(pos)
    else:
        neg.sort(key=lambda v: -v)
    out = []
    while (neg or pos) and len(out) < n:
        if neg:
            out.append(neg.pop(0))
        if pos and len(out) < n:
            out.append(pos.pop(0))
    return out


def small_int_universe(rng, kt, cap, fam):
    """int8 / uint8 / int16 / uint16 / uint64"""
    lo, hi = type_range(kt)
    c = max(cap, 1)
    if fam == 0:      # the ends of the range and the neighbourhood of zero
        return list(dict.fromkeys([lo, hi, 0, 1, lo + 1, hi - 1, (hi + 1) // 2, -1 if lo < 0 else hi // 2 + 1, c if c <= hi else 2]))[:rng.randrange(5, 10)]
    if fam == 1:      # one bucket, mixed signs
        ks = colliding_keys(kt, c, rng.randrange(4, 9), anchor=rng.choice([lo, hi, 0, -1 if lo < 0 else 1]), rng=rng)
        return ks if len(ks) >= 3 else ks + [lo, hi, 0]
    if fam == 2:      # same residue as mathematical integers, mixed signs: near-collisions (a negative key is sign-extended)
        r = rng.randrange(c)
        return [v for v in dict.fromkeys([r, r + c, r + 2 * c, r - c, r - 2 * c, r - 3 * c, hi - (hi - r) % c]) if lo <= v <= hi] + [lo]
    return [rng.randrange(lo, hi + 1) for _ in range(rng.randrange(3, 9))] + [rng.choice([lo, hi])]


def universe(rng, kt, cap, fam=None):
    fam = rng.randrange(5) if fam is None else fam
    if kt in ('b', 'B', 'h', 'H', 'q'):
        return [str(k) for k in dict.fromkeys(small_int_universe(rng, kt, cap, fam % 4))]
    if kt == 'i':
        return [str(k) for k in int_universe(rng, cap, fam)]
    if kt == 'l':
        return [str(k) for k in long_universe(rng, cap, fam % 4)]
    if kt == 'u':
        return [str(k) for k in dict.fromkeys(uint_universe(rng, cap, fam % 4))]
    if kt == 'p':
        return [str(k) for k in dict.fromkeys(ptr_universe(rng, cap, fam % 4))]
    return str_universe(rng, cap, fam % 4)


# ---- random histories ------------------------------------------------------------------------
def allowed(kd, name):
    if name == 'pre':
        return kd != 'pm'
    if name == 'rmv':
        return kd == 'pm'
    if name in ('copy', 'assign', 'eq'):
        return kd != 'pm'
    if name in ('appall', 'rmall'):
        return kd == 'hs'
    if name == 'setv':
        return kd != 'hs'
    return True


PROFILES = {
    # name: weight
    'mixed': dict(app=10, pre=5, ins=8, find=5, has=3, rmk=6, rmi=5, rmv=4, rmf=2, rmb=2, clear=1, swap=2, front=1, back=1,
                  copy=1, assign=2, eq=3, appall=2, rmall=2, setv=3, new=1, newd=0.5, fwd=1.5, bwd=4),
    'collide': dict(app=10, pre=4, ins=8, find=4, rmk=8, rmi=8, rmv=6, rmf=2, rmb=2, clear=0.5, swap=1, eq=1, assign=0.5, setv=2, appall=1, rmall=1, fwd=1, bwd=4),
    'multi': dict(app=8, ins=3, rmk=3, rmi=2, swap=6, copy=4, assign=5, eq=8, appall=5, rmall=5, clear=2, new=2, newd=1, find=2, setv=2, pre=2, fwd=1, bwd=5),
    'pool': dict(app=12, ins=3, rmk=6, rmi=5, rmv=4, rmf=3, rmb=3, clear=3, swap=1, assign=1, find=1, bwd=2),
}


def gen_ops(rng, kd, kt, nv, sizes_hint, uni, nops, profile, bad=0.0):
    """sizes_hint: python-side estimate of the sizes (a dict set per variable) to aim positions/ranks at valid values."""
    w = [(n, x) for n, x in PROFILES[profile].items() if allowed(kd, n)]
    names = [n for n, _ in w]
    weights = [x for _, x in w]
    keys = [dict() for _ in range(nv)]      # ordered dict of present keys (python reference only for aiming)
    ops = []

    def K():
        return rng.choice(uni)

    def V():
        return str(rng.randrange(0, 100)) if kd != 'hs' else '0'

    def put(x, pos, k):
        if k not in keys[x]:
            items = list(keys[x].keys())
            items.insert(pos, k)
            keys[x] = dict.fromkeys(items)

    for _ in range(nops):
        o = rng.choices(names, weights)[0]
        x = rng.randrange(nv)
        y = rng.randrange(nv)
        if rng.random() < bad:
            x = rng.choice([x, nv, nv + 3])
        n = len(keys[x]) if x < nv else 0
        if o in ('app', 'pre'):
            k = K()
            ops.append('%s %d %s %s' % (o, x, k, V()))
            if x < nv:
                put(x, n if o == 'app' else 0, k)
        elif o == 'ins':
            k = K()
            pos = rng.choice([0, n, rng.randrange(n + 1)])
            if rng.random() < bad:
                pos = n + rng.randrange(1, 3)
            ops.append('ins %d %d %s %s' % (x, pos, k, V()))
            if x < nv and pos <= n:
                put(x, pos, k)
        elif o in ('find', 'has', 'rmk'):
            k = K()
            ops.append('%s %d %s' % (o, x, k))
            if o == 'rmk' and x < nv:
                keys[x].pop(k, None)
        elif o in ('rmi', 'rmv'):
            if n == 0 and rng.random() > bad + 0.05:
                continue
            r = rng.choice([0, max(n - 1, 0), rng.randrange(max(n, 1))])
            if rng.random() < bad:
                r = n + rng.randrange(0, 2)
            ops.append('%s %d %d' % (o, x, r))
            if x < nv and r < n:
                del keys[x][list(keys[x].keys())[r]]
        elif o in ('rmf', 'rmb', 'front', 'back'):
            if n == 0 and rng.random() > bad + 0.05:
                continue
            ops.append('%s %d' % (o, x))
            if x < nv and n and o in ('rmf', 'rmb'):
                del keys[x][list(keys[x].keys())[0 if o == 'rmf' else -1]]
        elif o in ('fwd', 'bwd'):
            ops.append('%s %d' % (o, x))
        elif o == 'clear':
            ops.append('clear %d' % x)
            if x < nv:
                keys[x] = dict()
        elif o == 'setv':
            ops.append('setv %d %s %s' % (x, K(), V()))
        elif o == 'new':
            c = rng.choice(CAPS + [0, 1, 2]) if rng.random() < 0.9 else rng.choice(BIGCAPS)
            ops.append('new %d %d' % (x, c))
            if x < nv:
                keys[x] = dict()
        elif o == 'newd':
            ops.append('newd %d' % x)
            if x < nv:
                keys[x] = dict()
        else:
            if rng.random() < bad:
                y = rng.choice([y, nv, nv + 1])
            if o == 'assign' and x == y and not SELF_ASSIGN[0]:
                # x = x empties the container on the unchanged code: that is the C04 finding
                # (DESIGN section 5 row 2) and is kept out of this property's streams
                continue
            ops.append('%s %d %d' % (o, x, y))
            if x < nv and y < nv:
                if o == 'swap':
                    keys[x], keys[y] = keys[y], keys[x]
                elif o in ('copy', 'assign'):
                    keys[x] = dict(keys[y])
                elif o == 'appall':
                    for k in list(keys[y].keys()):
                        put(x, len(keys[x]), k)
                elif o == 'rmall':
                    for k in list(keys[y].keys()):
                        keys[x].pop(k, None)
    return ops


def traverse(nv):
    """every variable is traversed backwards (operator--) and forwards (operator++) through iterators"""
    out = []
    for x in range(nv):
        out += ['bwd %d' % x, 'fwd %d' % x]
    return out


def probe(nv, uni):
    """find every key of the universe in every variable + front/back"""
    out = []
    for x in range(nv):
        for k in uni:
            out.append('find %d %s' % (x, k))
    return out



# ---- load histories: tables of hundreds / thousands of entries -----------------------------------
def load_universe(rng, kt, cap, n):
    """about n distinct keys of type kt (as op-file texts) for a table of `cap` cells: a third in ONE bucket (arithmetic
    progression with step cap, as far as the type reaches), the rest spread over the whole index range 0..cap-1 (the top
    cells cap-1, cap-2 included) and, for the signed types, negative (sign-extended by hash())."""
    c = max(cap, 1)
    if kt == 's':
        out = ['-']
        alpha = [0x61, 0x62, 0x63, 0x64, 0x00, 0x80, 0xff, 0x41]
        # equal at the three hashed positions (0, len/2, len-1) and equal length: one bucket for every capacity
        for j in range(min(n // 3, 400)):
            out.append(hexs([0x61, 0x41 + j % 26, 0x41 + (j // 26) % 26, 0x62, 0x41 + (j // 676) % 26, 0x42, 0x63]))
        while len(out) < n:
            out.append(hexs([rng.choice(alpha) for _ in range(rng.randrange(1, 7))]))
            if len(out) % 64 == 0:
                out = list(dict.fromkeys(out))
        return list(dict.fromkeys(out))
    if kt == 'p':
        lo, hi = 0, (1 << 64) - 1
    else:
        lo, hi = type_range(kt)
    if hi - lo + 1 <= n:                       # int8 / uint8: every value of the type
        vals = list(range(lo, hi + 1))
        rng.shuffle(vals)
        return [str(v) for v in vals]
    unit = 8 if kt == 'p' else 1               # hash(const void*) = address >> 3
    vals = []
    r = rng.randrange(c)
    j = 0
    while len(vals) < min(n // 3, 400) and (r + j * c) * unit <= hi:      # (one chain of at most 400)
        vals.append((r + j * c) * unit + (rng.randrange(8) if kt == 'p' else 0))
        j += 1
    vals += [v * unit for v in (c - 1, c - 2, c, c + 1, 2 * c - 1, 0, 1) if lo <= v * unit <= hi]
    span = min(hi // unit, max(4 * c, 4 * n))
    tries = 0
    seen = set(vals)
    while len(seen) < n and tries < 20 * n:
        tries += 1
        v = rng.randrange(span + 1) * unit
        if lo < 0 and rng.random() < 0.3:
            v = -rng.randrange(1, min(-lo, span) + 1)
        elif rng.random() < 0.1:
            v = rng.randrange(lo, hi + 1)
        vals.append(v)
        seen.add(v)
    return [str(v) for v in dict.fromkeys(vals)]


class RefTables:
    """python-side reference of the key sequences (used only to aim keys, ranks and positions)"""
    def __init__(self, nv):
        self.l = [[] for _ in range(nv)]
        self.s = [set() for _ in range(nv)]

    def put(self, x, pos, k):
        if k not in self.s[x]:
            self.l[x].insert(pos, k)
            self.s[x].add(k)

    def rm_key(self, x, k):
        if k in self.s[x]:
            l = self.l[x]
            n = len(l)
            i = next((j for j in range(min(n, 48)) if l[j] == k), None)
            if i is None:
                i = next((n - 1 - j for j in range(min(n, 48)) if l[n - 1 - j] == k), None)
            if i is None:
                l.remove(k)
            else:
                del l[i]
            self.s[x].discard(k)

    def rm_at(self, x, r):
        k = self.l[x].pop(r)
        self.s[x].discard(k)

    def set(self, x, keys):
        self.l[x] = list(keys)
        self.s[x] = set(keys)


def load_history(rng, kd, kt, caps, target, mute_p=0.97, cheap=False, marks_from=0, tail=True):
    """One variable is grown to `target` entries by append / prepend / positional insert (distinct keys, now and then a
    present one), interleaved with removals of every flavour; nearly all of these operations are muted ('.op': result and
    sizes only).  Whenever the size crosses 2^7, 2^8, 2^15, 2^16 (and at the target) the table is looked at in full:
    find of the first / a middle / the last key, an absent key, traversal both ways.  Then copy / assignment / == / swap /
    bulk operations with the second variable, a removal burst down to a third, clear and refill.
    cheap: only operations that cost O(1) / O(chain) in the code under test and no positional ones (for 66000 entries)."""
    nv = len(caps)
    uni = load_universe(rng, kt, caps[0], int(target * 1.25) + 8)
    fresh = list(uni)
    rng.shuffle(fresh)
    ref = RefTables(nv)
    ops = []
    V = (lambda: str(rng.randrange(0, 100))) if kd != 'hs' else (lambda: '0')

    def emit(o, quiet=True):
        ops.append(('.' if quiet and rng.random() < mute_p else '') + o)

    def look(x):
        l = ref.l[x]
        if cheap:                   # every unmuted line shows the whole state: two per look for the very long tables
            ops.extend((['find %d %s' % (x, l[-1])] if l else []) + ['bwd %d' % x])
            return
        ks = [l[0], l[len(l) // 2], l[-1]] if l else []
        absent = [k for k in uni[:6] if k not in ref.s[x]][:1]
        for k in ks + absent:
            ops.append('find %d %s' % (x, k))
        ops.append('bwd %d' % x)
        ops.append('fwd %d' % x)

    def insert(x):
        n = len(ref.l[x])
        if fresh and rng.random() < 0.93:
            k = fresh.pop()
        else:
            k = rng.choice(uni)
        fl = rng.random()
        if kd != 'pm' and fl < (0.5 if cheap else 0.25):
            emit('pre %d %s %s' % (x, k, V()))
            ref.put(x, 0, k)
        elif fl < 0.45 and not cheap:
            pos = rng.choice([0, n, rng.randrange(n + 1), rng.randrange(n + 1)])
            emit('ins %d %d %s %s' % (x, pos, k, V()))
            ref.put(x, pos, k)
        else:
            emit('app %d %s %s' % (x, k, V()))
            ref.put(x, n, k)

    def remove(x):
        n = len(ref.l[x])
        if n == 0:
            return
        fl = rng.random()
        if fl < 0.35 or (cheap and fl < 0.6):
            k = rng.choice(ref.l[x][:40] + ref.l[x][-40:]) if cheap or rng.random() < 0.5 else rng.choice(ref.l[x])
            if rng.random() < 0.1:
                k = rng.choice(uni)
            emit('rmk %d %s' % (x, k))
            ref.rm_key(x, k)
        elif fl < 0.6 and not cheap:
            r = rng.choice([0, n - 1, rng.randrange(n), rng.randrange(n)])
            emit('%s %d %d' % ('rmv' if kd == 'pm' and rng.random() < 0.5 else 'rmi', x, r))
            ref.rm_at(x, r)
        elif fl < 0.8:
            emit('rmf %d' % x)
            ref.rm_at(x, 0)
        else:
            emit('rmb %d' % x)
            ref.rm_at(x, n - 1)

    marks = [m for m in (128, 129, 256, 257, 32768, 65536, 65537) if marks_from <= m < target] + [target]
    x = 0
    turns = 0
    while len(ref.l[x]) < target and (fresh or len(ref.l[x]) < len(uni) - 1) and turns < 3 * target + 200:
        turns += 1
        before = len(ref.l[x])
        if rng.random() < 0.12:
            remove(x)
        else:
            insert(x)
        if len(ref.l[x]) in marks and before < len(ref.l[x]):
            marks.remove(len(ref.l[x]))
            look(x)
        if not fresh and len(ref.l[x]) >= len(uni) - 2:
            break
    look(x)
    if nv > 1:
        y = 1
        if kd != 'pm':
            ops.append(rng.choice(['copy', 'assign']) + ' %d %d' % (y, x))
            ref.set(y, ref.l[x])
            ops.append('eq %d %d' % (x, y))
            remove(y)
            ops.append('eq %d %d' % (y, x))
            if kd == 'hs' and not cheap:
                for _ in range(20):
                    remove(y)
                ops.append('rmall %d %d' % (x, y))
                for k in list(ref.l[y]):
                    ref.rm_key(x, k)
                for _ in range(10):
                    insert(x)
                ops.append('appall %d %d' % (x, y))
                for k in list(ref.l[y]):
                    ref.put(x, len(ref.l[x]), k)
        ops.append('swap %d %d' % (x, y))
        ref.l[x], ref.l[y] = ref.l[y], ref.l[x]
        ref.s[x], ref.s[y] = ref.s[y], ref.s[x]
        for _ in range(6):
            insert(x)
            insert(y)
        look(y)
        x = y if len(ref.l[y]) > len(ref.l[x]) else x
    if not tail:
        return ['@%s %s %s' % (kd, kt, ' '.join(str(c) for c in caps))] + ops
    # removal burst down to about a third
    goal = len(ref.l[x]) // 3 if not cheap else max(len(ref.l[x]) - 1500, len(ref.l[x]) // 3)
    while len(ref.l[x]) > goal:
        remove(x)
    look(x)
    if rng.random() < 0.5:
        ops.append('clear %d' % x)
        ref.set(x, [])
    for _ in range(min(len(fresh), rng.randrange(30, 150))):
        insert(x)
    look(x)
    return ['@%s %s %s' % (kd, kt, ' '.join(str(c) for c in caps))] + ops


# ---- the reference object in python, for histories too long for the extracted reference -----------------------------
# The extracted reference (HashSpec.v) and model walk Peano numbers and Coq lists: linear per operation, minutes for
# one table of 66000 entries.  For such histories (only the stream `huge`) the expected lines are produced by this
# insertion-ordered unique-key list - the same object as HashSpec.v, restricted to the operations the stream uses.  Keys
# are compared as op-file texts: the generator writes every key in the canonical form the printers use (decimal inside
# the range of the key type).
PY_REF_OPS = ('app', 'pre', 'rmk', 'rmf', 'rmb', 'find', 'has', 'fwd', 'bwd', 'clear')
PY_REF_MIN_OPS = 5000


def py_ref_applies(case):
    if len(case) <= PY_REF_MIN_OPS or not case[0].startswith('@'):
        return False
    head = case[0][1:].split()
    if head[1] in ('s',):
        return False
    return all(l.split(' ', 1)[0].lstrip('.') in PY_REF_OPS for l in case[1:])


def py_reference(case):
    head = case[0][1:].split()
    kd, nv = head[0], len(head) - 2
    order = [[] for _ in range(nv)]          # keys in iteration order
    val = [dict() for _ in range(nv)]        # key -> value
    out = []

    def it(x, r):
        k = order[x][r]
        return 'it=%d:%s:%s' % (r, k, val[x][k])

    def entries(x, rev=False):
        ks = reversed(order[x]) if rev else order[x]
        return ' '.join('%s:%s' % (k, val[x][k]) for k in ks)

    for line in case[1:]:
        t = line.split()
        muted = t[0].startswith('.')
        o = t[0].lstrip('.')
        x = int(t[1])
        if not 0 <= x < nv:
            res = 'pre'
        elif o in ('app', 'pre'):
            k = t[2]
            if o == 'pre' and kd == 'pm':
                res = 'pre'
            else:
                if k in val[x]:
                    if kd == 'hm':
                        val[x][k] = str(int(t[3]))
                else:
                    val[x][k] = str(int(t[3])) if kd == 'hm' else ('0' if kd == 'hs' else '77')
                    if o == 'app':
                        order[x].append(k)
                    else:
                        order[x].insert(0, k)
                res = '-' if kd == 'hs' else 'v=' + val[x][k]
        elif o == 'rmk':
            k = t[2]
            if k in val[x]:
                # aimed at the two ends by the generator: look from the nearer end
                l = order[x]
                n = len(l)
                i = next((j for j in range(min(n, 64)) if l[j] == k), None)
                if i is None:
                    i = next((n - 1 - j for j in range(min(n, 64)) if l[n - 1 - j] == k), None)
                if i is None:
                    i = l.index(k)
                del l[i]
                del val[x][k]
            res = '-'
        elif o == 'rmf':
            if not order[x]:
                res = 'pre'
            else:
                del val[x][order[x].pop(0)]
                res = it(x, 0) if order[x] else 'it=end'
        elif o == 'rmb':
            if not order[x]:
                res = 'pre'
            else:
                del val[x][order[x].pop()]
                res = 'it=end'
        elif o == 'find':
            k = t[2]
            res = it(x, order[x].index(k)) if k in val[x] else 'it=end'
        elif o == 'has':
            res = 'b1' if t[2] in val[x] else 'b0'
        elif o == 'clear':
            order[x], val[x] = [], dict()
            res = '-'
        elif o in ('fwd', 'bwd'):
            res = 'w=[%s]' % entries(x, o == 'bwd')
        else:
            raise RuntimeError('py_reference: operation not covered: ' + line)
        if muted:
            out.append('%s | %s' % (res, ' '.join(str(len(order[y])) for y in range(nv))))
        else:
            out.append('%s | %s' % (res, ' '.join('%d:%d,%d,[%s]' % (y, len(order[y]), 0 if order[y] else 1, entries(y)) for y in range(nv))))
    return out


class C02(Check):
    id = 'C02'
    comp = 'Hash'
    extracted = ['coq/Hash/model.mli', 'coq/Hash/model.ml', 'ocaml/zconv.ml', 'ocaml/hash_driver.ml']
    harness_sources = ['harness/hash.cpp']
    technique = ('machine-checked proof in Coq about a hand-written Gallina model; model tied to the code by an '
                 'extracted-model vs implementation correspondence check')
    level_text = ('Theorems in Coq (36, all closed under the global context), for every key type with decidable equality, EVERY '
                  'hash function (Section variable: all keys in one bucket is an instance), every list of capacities and every '
                  'history over several container variables and all 24 operations (construct, find, contains, positional insert, '
                  'append, prepend, remove by key / iterator / value, removeFront/Back, clear, swap, front/back, copy, assignment, '
                  '==, bulk append/remove, write through the iterator, traversal through iterators forwards from begin() and '
                  'backwards from end()): the model of HashMap/HashSet/PoolMap (bucket chains + '
                  'insertion-order list + the two links around the end sentinel + free-item list) keeps the invariant "every listed '
                  'key is in bucket hash mod capacity exactly once, chains hold only listed keys, sizes agree, endItem.prev '
                  'designates the last item" (C02_invariant_init/_step/_reachable) and produces exactly the results (returned '
                  'iterators as rank:key:value, values, booleans) and observations (size, isEmpty - read from endItem.prev as the '
                  'code does -, iteration order of every variable after every operation) of a reference insertion-ordered '
                  'unique-key association list (C02_refines_ordered_map, C02_step_refines, per-operation lemmas). swap is modelled '
                  'by its mechanism - each object takes over the other\'s fields, branches on endItem.prev and re-anchors the list '
                  'on its own sentinel - and proved to exchange sequences, capacities, bucket arrays and free lists '
                  '(C02_swap_half_reanchors, C02_swap_refines; the proof needs the invariant); in every reachable state the list of '
                  'variable x runs into the sentinel of x (C02_sentinel_reachable). Inserting a present key keeps rank and all '
                  'other entries and replaces the value for HashMap (C02_insert_present_hashmap) and returns the table unchanged '
                  'for HashSet/PoolMap (C02_insert_present_set_pool_untouched). The iterator insert returns - and the reference append / '
                  'prepend return, which the code takes from it - designates the entry find(key) reaches after the call, and there is '
                  'one (C02_insert_returns_found_entry, C02_insert_ops_return_found_entry). Node recycling: live items and free list partition '
                  'the 4*blocks allocated items in every reachable state (C02_pool_reachable). Backward traversal is modelled '
                  'as the code does it - start at the end sentinel, follow prev pointers (endItem.prev, then the prev pointer of '
                  'each item, items identified by the address = slot the pointer holds), stop when _begin.item is met - and proved '
                  'to visit exactly the reverse of the forward order for every table that satisfies the invariant and in every '
                  'reachable state (C02_iter_back_is_rev_forward, C02_iter_back_reachable, C02_walk_back_from_rank, '
                  'C02_iter_step_results; the proof uses endItem.prev = last item and that no two live items share a slot, '
                  'C02_full_invariant_step carries chains + sentinel link + node recycling through every step). The model is tied to the code by '
                  'running the extracted model, the extracted reference and the ASan/UBSan build of the working tree on the same '
                  'histories and comparing, after every operation, the result, the public state of every variable, and the '
                  'internals read through an access override: capacity, data!=0, bucket index and chain order of every key, cell '
                  'back-pointers, prev links, slot (block, index) of every item, free list, number of blocks, the item endItem.prev '
                  'designates and the variable whose sentinel the list runs into. The reference append() / prepend() return must be '
                  'the ADDRESS of the element find(key) leads to, and a write through it must be read back through find() (token '
                  'REF! otherwise). front()/back() are called through the non-const '
                  'and the const overloads (same object required). The traversal operations make every step twice - through '
                  'the non-const operator++/-- and through the const operator of the same name on a const copy - and read every '
                  'item through operator*, operator* const, operator-> and operator-> const (same object required, token '
                  'CONSTMISMATCH otherwise); Iterator() is default-constructed, compared and assigned.')
    level_note = ('Trusted: Coq kernel, the reference object (HashSpec.v, 130 lines), extraction + OCaml driver, harness. The '
                  'theorems are about the model; that the model mirrors the C++ is validated by correspondence only (differential, '
                  'incl. the concrete hash functions: (usize)v = the key value modulo 2^64 (sign extension for negative keys) for '
                  'all eight integer overloads int8..uint64, address >> 3 for const void*, the String hash). The default capacity '
                  '500, the String-hash multiplier and the pointer-hash shift (Gen_Hash.v), and width and signedness of the eight '
                  'integer key types as the typedefs of Base.hpp give them (Gen_HashKeys.v) are regenerated from the headers on '
                  'every run; the bodies of hash(intN) are checked textually to be `return (usize)v;`, usize is the 64-bit type of '
                  'the x86-64 build (asserted in the harness). The order list is a Coq list: the items are not heap cells; the '
                  'prev pointer of the item at rank r+1 is BY REPRESENTATION the item at rank r (null at rank 0) and the chain of '
                  'next pointers IS the list - so the forward traversal is the list by definition and only the backward one has '
                  'content (it starts from the explicit field endItem.prev and looks items up by slot); the harness checks every '
                  'prev link against the iteration on every dump. Of the pointer structure only endItem.prev and the sentinel a '
                  'list ends in are explicit, swap moves a list as a whole and re-targets these two. C02_step_refines now carries '
                  'the premise "no two live items of a table share a slot" (used by the backward traversal only; part of pool_ok, '
                  'which C02_pool_step preserves); the whole-history theorem C02_refines_ordered_map is unconditional as before. '
                  'Iterators are used for complete traversals and as positions named by rank; decrementing begin() / '
                  'incrementing or dereferencing end() (null pointer / sentinel value) is outside the API and not driven. That a call compiles for a '
                  'key/value type is outside the model: two groups of calls (const front()/back() of HashMap<String,int> and '
                  'PoolMap<K,Val>; removeBack() with const void* keys) are probed with g++ -fsyntax-only and reported as a failure '
                  'with the compiler message when ill-formed. API preconditions (position <= size, rank < size, non-empty for '
                  'front/back/removeFront/removeBack, capacity >= 0) are modelled as "call not made". Key equality is assumed to '
                  'be a decidable Leibniz equality (true of the ten key types; equal String keys are presented through '
                  'differently stored String objects: heap, default-constructed, attached slices). x = x: model and code carry '
                  'the self-assignment guard (fixes/C02/01); self-assignment histories are generated when the tree carries the '
                  'guard or with VERIF_C02_SELF_ASSIGN=1. Value type int / default-constructed 77 for PoolMap; element '
                  'construction/destruction counts belong to C04. After 400 crashes (or 60 watchdog timeouts of 2 s) of the implementation in one run the remaining '
                  'cases are not run. Sizes and capacities actually run: tables of up to ~1100 entries in the quick tier (stream '
                  '`load`, sizes crossing 2^7 and 2^8) and of 65600 (quick) / 66000 (thorough) entries in the stream `huge` (crossing 2^15 and 2^16; '
                  'VERIF_C02_HUGE=0 switches it off), capacities up to 65537 (1023..1025, 5000, 32767..32769, 65535..65537 in the '
                  'constructor and in `new`). In the long histories most operations are written muted (`.app 0 5 1`): the same step of '
                  'the same model / reference, but only its result and the sizes of all variables are printed and compared; the whole '
                  'public state and the internals are compared at the unmuted operations (every crossing of 2^7, 2^8, 2^15, 2^16, '
                  'every phase end, ~3 % of the other operations). The extracted model and reference are linear per operation (Peano '
                  'positions, Coq lists): the three `huge` histories (~92000 operations each) are answered by a python '
                  'reference (checks/C02.py py_reference, 90 lines: the ordered unique-key list of HashSpec.v restricted to append / '
                  'prepend / remove by key / removeFront / removeBack / find / contains / clear / traversal) - public results only, '
                  'no internals; every run compares py_reference with the extracted reference on 12 histories of the '
                  'same generator (150..420 entries).')
    rule = ('case = history of up to ~70 operations (streams load / huge: up to ~2500 / ~94000) over 1-3 container variables of one kind (HashMap<K,int>, HashSet<K>, '
            'PoolMap<K,Val>), K in {int8,uint8,int16,uint16,int32,uint32,int64,uint64,const void*,String} (integer universes '
            'contain the ends of the range, negative keys and keys colliding in one bucket under the sign-extending hash), most '
            'random histories end with a backward and a forward traversal of every variable; capacities from {0,1,2,3,7,64,500} and, in every tenth '
            '`new`, from {1023,1024,1025,5000,32767,32768,32769,65535,65536,65537} (independently per '
            'variable, so swaps between tables of different capacities are frequent); streams: mixed, collide (capacity '
            '1..7 with keys that are multiples of the capacity / Strings equal at the three hashed positions / addresses inside '
            'one 8-byte word), multi (swap/copy/assign/==/bulk), pool (node recycling), malformed (precondition violations), load (one table grown to '
            '129..1100 entries by append / prepend / positional insert interleaved with every removal flavour, then copy / assign / == / '
            'swap / bulk operations, a removal burst, clear and refill; capacities 1..5000; key types int16..uint64, const void*, String, '
            'and ALL 256 values of int8 / uint8), bigcap (capacities 1023..65537 with keys aimed at cells 0, 1, 1023..1025, capacity-2, '
            'capacity-1, colliding partners, negative keys), huge (65600 / 66000 entries per kind), '
            'boundary (hand-written; incl. the empty String key met by every operation through every String storage), iterate '
            '(traversal both ways on empty / one-element tables, after each removal method at front / middle / back, after '
            'clear, swap, copy, assignment; 3 kinds x 10 key types x capacities 1, 7, 500), targeted '
            '(every chain position x every removal method; swap of tables of sizes 0..3 then use of both; order/value/prefix-'
            'sensitive ==; present key at every position for every insert flavour), exhaustive (all histories of length <= 3 '
            '(quick) / 4 (thorough) over a 14..18-op alphabet incl. the backward traversal, capacities 1 and 2, each followed by '
            'a traversal of both variables). A case is non-trivial when the '
            'implementation showed a bucket chain of length >= 2 and the history unlinks something (remove*/clear/assign/swap/'
            'bulk remove) and has >= 5 operations; distinct = distinct op text')
    assumptions = ['key equality decides Leibniz equality (int8..uint64, const void*, String)',
                   'API preconditions hold (violating calls are not made): position <= size, rank < size, non-empty for '
                   'front/back/removeFront/removeBack',
                   'x = x: model and code carry the self-assignment guard',
                   'the Model mirrors the C++ code: validated by correspondence only']

    # ---- member functions that are not instantiable for some key/value types -------------------------------------------
    # The harness calls the const overloads of front()/back() through a const reference and removeBack() for every key
    # type.  Two groups of these calls are behind a macro, because a defect of the headers can make them ill-formed
    # (a compile error cannot be observed at run time): each group is probed with `g++ -fsyntax-only -D<macro>`; a
    # group that compiles is switched on for the real build, a group that does not is reported as a failure of the
    # property on its witness history together with the compiler's message (extra_checks), and the harness then
    # reaches the same state through the neighbouring overload.
    FEATURES = {
        'C02_CONST_ALL': (['@pm s 7', 'app 0 6162 0', 'front 0', 'back 0'],
                          'front() const / back() const of HashMap<String,int> and PoolMap<K,Val> called through a const reference'),
        'C02_PTR_REMOVEBACK': (['@hm p 7', 'app 0 4096 1', 'app 0 4104 2', 'rmb 0'],
                               'removeBack() of HashMap / HashSet / PoolMap with key type const void*'),
    }
    not_instantiable = None
    fail_tags = []

    def gen_tables(self):
        # default capacity of the constructors, multiplier of hash(const String&), shift of hash(const void*);
        # the bodies of hash(intN) are checked to be `return (usize)v;`
        # Gen_HashKeys.v: width and signedness of the eight integer key types (typedefs of Base.hpp)
        return [tables.gen_hash(), tables.gen_hash_keys()]

    def build(self):
        import subprocess
        from vf import VERIF
        procs = {}
        for f in self.FEATURES:
            procs[f] = subprocess.Popen(['g++', '-fsyntax-only', '-w', '-DNDEBUG', '-DLIBNSTD_VERIF', '-D' + f,
                                         '-I' + os.path.join(REPO, 'include'), '-I' + os.path.join(VERIF, 'harness', 'common'),
                                         os.path.join(VERIF, 'harness', 'hash.cpp')], stdout=subprocess.PIPE, stderr=subprocess.STDOUT)
        self.not_instantiable = {}
        flags = []
        for f, p in procs.items():
            out, _ = p.communicate()
            if p.returncode == 0:
                flags.append('-D' + f)
            else:
                lines = [l.strip() for l in out.decode('utf-8', 'replace').split('\n') if ' error: ' in l]
                self.not_instantiable[f] = (lines[0] if lines else out.decode('utf-8', 'replace').strip())[:400]
        self.harness_flags = flags
        return Check.build(self)

    def extra_checks(self, tier, rng, ctx):
        for f, msg in (self.not_instantiable or {}).items():
            witness, what = self.FEATURES[f]
            p = self.write_replay('failing-input', 'member function not instantiable (harness built without -D%s)' % f, witness,
                                  {'reason': what + ' does not compile: ' + msg})
            ctx['violations'].append((p, ''))
        if self.huge_enabled():
            # the python reference that answers the `huge` histories is compared with the extracted reference
            # (HashSpec.v) on shorter histories of the same generator, every operation unmuted now and then
            cs = [load_history(rng, kd, kt, [cap], target, mute_p=0.8, cheap=True)
                  for kd in KINDS for kt, cap, target in (('i', 7, 150), ('q', 500, 420), ('l', 1, 90), ('h', 64, 300))]
            ref = Check.run_spec(self, cs, tag='pyref')
            for c, r in zip(cs, ref):
                mine = py_reference(c)
                if mine != r:
                    k = next((j for j in range(min(len(mine), len(r))) if mine[j] != r[j]), min(len(mine), len(r)))
                    p = self.write_replay('no-failing-input-found', 'checks/C02.py py_reference differs from the extracted reference '
                                          'at line %d of this history' % k, c, {'extracted': (r[k] if k < len(r) else '<nothing>')[:300],
                                                                               'python': (mine[k] if k < len(mine) else '<nothing>')[:300]})
                    ctx['violations'].append((p, ' no-failing-input-found'))
                    break

    def huge_enabled(self):
        return os.environ.get('VERIF_C02_HUGE', '1') != '0'

    def judge(self, cases, impl_obs, spec_obs):
        # the shared reporter groups failures by the first 80 characters of the reason: lead with the operation at
        # which implementation and reference part, so that one defect is reported once (with its shortest history)
        fails = []
        if self.fail_tags is C02.fail_tags:
            self.fail_tags = []
        for (i, k, reason) in Check.judge(self, cases, impl_obs, spec_obs):
            ops = [l for l in cases[i] if not l.startswith('@')]
            name = ops[k].split(' ')[0].lstrip('.') if k < len(ops) else 'end-of-history'
            if name in ('front', 'back'):
                name = 'front/back (non-const overload, then the const overload through a const reference)'
            elif name not in self.fail_tags:
                # one broken mechanism usually shows at many operations: three groups of their own, the rest together
                if len(self.fail_tags) < 3:
                    self.fail_tags.append(name)
                else:
                    name = 'other operations'
            fails.append((i, k, ('at operation `%s`: ' % name).ljust(82, '.') + ' ' + reason))
        fails.sort(key=lambda f: len(cases[f[0]]))
        return fails

    crash_total = 0
    timeout_total = 0
    per_case_timeout = 2      # a case takes milliseconds; a corrupted chain can make the code loop for ever

    def run_impl(self, cases, tag='impl'):
        # chunks of 350 cases: a broken tree may crash on most cases, and the shared runner gives up after 400
        # restarts per call - with chunks every crash still ends in a VIOLATION with a concrete failing input.
        # Every crash restarts the harness (slow): after 400 crashes (or 60 watchdog timeouts) over the whole run the remaining cases are
        # not run (marked `! notrun`, which the framework drops from the stream) - the failing inputs are there by then.
        res, crashes = [], {}
        shrinking = tag.startswith('shr_')
        for off in range(0, len(cases), 350):
            chunk = cases[off:off + 350]
            if not shrinking and (self.crash_total > 400 or self.timeout_total > 60):
                res += [['! notrun'] for _ in chunk]
                continue
            # symbolize=0: a sanitizer report is classified by its headline; symbolizing the stack costs ~1 s per crash
            # a history of ~100000 operations with whole-state dumps of 66000 entries takes the ASan build ~20 s
            pct = 120 if any(len(c) > PY_REF_MIN_OPS for c in chunk) else self.per_case_timeout
            r, c = vf.run_exe_on_cases(self.exes['impl'], chunk, os.path.join(vf.BUILD, self.id, 'run'), tag, is_impl=True,
                                       per_case_timeout=pct,
                                       env={'ASAN_OPTIONS': 'detect_leaks=0:abort_on_error=0:allocator_may_return_null=1:'
                                                            'max_allocation_size_mb=2048:symbolize=0'})
            res += r
            for k, v in c.items():
                crashes[off + k] = v
            if not shrinking:
                self.crash_total += len(c)
                self.timeout_total += sum(1 for v in c.values() if v[0] == 'timeout')
        return res, crashes

    def _with_py_reference(self, cases, tag, run):
        """histories too long for the extracted reference / model are answered by py_reference (public part only)"""
        longs = [i for i, c in enumerate(cases) if py_ref_applies(c)]
        if not longs:
            return run(self, cases, tag)
        rest = [c for i, c in enumerate(cases) if i not in longs]
        got = iter(run(self, rest, tag) if rest else [])
        return [py_reference(c) if i in longs else next(got) for i, c in enumerate(cases)]

    def run_spec(self, cases, tag='spec'):
        return self._with_py_reference(cases, tag, Check.run_spec)

    def run_model(self, cases, tag='model'):
        return self._with_py_reference(cases, tag, Check.run_model)

    def shrink(self, case, pred, budget=400):
        if len(case) > PY_REF_MIN_OPS:
            # every candidate of a `huge` history costs the implementation tens of seconds: a dozen halvings only
            return Check.shrink(self, case, pred, budget=12)
        # a candidate on which the broken code loops costs the whole watchdog time
        return Check.shrink(self, case, pred, budget=min(budget, 150))

    def nontrivial(self, case, obs):
        # a chain of length >= 2 was observed in the implementation's bucket dump, and something was unlinked
        chained = any(re.search(r'B\[[^\]]*=[^ \],]+,', l) for l in obs)
        unlink = any(l.split(' ')[0].lstrip('.') in ('rmk', 'rmi', 'rmv', 'rmf', 'rmb', 'clear', 'rmall', 'assign', 'swap') for l in case)
        return chained and unlink and len(case) >= 5

    def streams(self, tier, rng):
        thorough = tier == 'thorough'
        mul = 6 if thorough else 1
        SELF_ASSIGN[0] = self.self_assign_enabled()
        out = []

        def header(kd, kt, caps):
            return '@%s %s %s' % (kd, kt, ' '.join(str(c) for c in caps))

        def rand_cases(n, profile, kts, capsets=None, nops=(8, 40), bad=0.0, fams=None, probe_p=0.3):
            cases = []
            for i in range(n):
                kd = KINDS[i % 3]
                kt = kts[(i // 3) % len(kts)]
                nv = rng.choice([1, 2, 3]) if profile != 'multi' else rng.choice([2, 3])
                caps = [rng.choice(capsets or CAPS) for _ in range(nv)]
                uni = universe(rng, kt, caps[0], None if fams is None else rng.choice(fams))
                ops = gen_ops(rng, kd, kt, nv, None, uni, rng.randrange(*nops), profile, bad)
                if rng.random() < probe_p:
                    ops += probe(nv, uni)
                if ops and rng.random() < 0.7:
                    ops += traverse(nv)
                if ops:
                    cases.append([header(kd, kt, caps)] + ops)
            return cases

        out.append(Stream('mixed', rand_cases(1100 * mul, 'mixed', ['i', 's', 'u', 'l', 's', 'p', 'b', 'q', 'h', 'B', 'H']),
                          note='mostly valid random histories, all kinds/key types, capacities {1,2,3,7,64,500}'))
        out.append(Stream('collide', rand_cases(900 * mul, 'collide', ['i', 's', 'l', 'p', 'u', 'b', 'h', 'q', 'B', 'H'], capsets=[1, 1, 2, 3, 7], fams=[1, 3, 0, 2],
                                                nops=(12, 45)),
                          note='long chains: capacity 1..7, keys that are multiples of the capacity / share the hashed characters'))
        out.append(Stream('multi', rand_cases(500 * mul, 'multi', ['i', 's', 'p', 'b', 'q']),
                          note='several variables: swap, copy, assignment, ==, bulk append/remove'))
        out.append(Stream('pool', rand_cases(300 * mul, 'pool', ['i', 's'], nops=(20, 70), probe_p=0.1),
                          note='node recycling: more than one block, LIFO free list, clear then reuse'))
        out.append(Stream('malformed', rand_cases(300 * mul, 'mixed', ['i', 's'], bad=0.25, nops=(5, 25)),
                          note='precondition violations (bad variable, position > size, rank >= size, empty container): not executed, state unchanged'))
        out.append(Stream('load', self.load_cases(rng, thorough),
                          note='tables of 130..1000 entries (quick: 39 histories, thorough: 6 times as many), all three kinds, key types '
                               'int16..uint64, const void*, String and the 256 values of int8/uint8; capacities 1, 16, 64, 500, '
                               '1024, 5000 and the default; sizes cross 2^7 and 2^8; most operations muted (result + sizes), '
                               'the whole state and the internals are compared at every crossing and after every phase'))
        out.append(Stream('bigcap', self.bigcap_cases(rng, thorough),
                          note='capacities 1023, 1024, 1025, 5000, 32767..32769, 65535..65537 in the constructor and in `new`; '
                               'keys that land in cells 0, 1, 1023, 1024, 1025, capacity-2, capacity-1 and random ones, with colliding partners'))
        if self.huge_enabled():
            out.append(Stream('huge', self.huge_cases(rng) if thorough else self.huge_quick_cases(rng),
                              note='thorough: one table per kind grown to 66000 entries (across 2^15 and 2^16) by muted append / prepend with '
                                   'removals by key and at both ends; whole state compared at 128, 256, 32768, 65536, 65537, at the end, after '
                                   'a removal burst and a refill. quick: one such table per kind grown to 65600 entries, whole state '
                                   'compared at 65536, 65537 and at the end. Expected lines from py_reference (public part only)'))
        out.append(Stream('boundary', self.boundary_cases(rng), note='hand-written boundary histories'))
        out.append(Stream('iterate', self.iterate_cases(),
                          note='traversal through iterators in both directions (operator++ / operator--, const and non-const forms, '
                               'operator* / operator->, Iterator()): empty table, one element, after every kind of removal at the '
                               'front / middle / back, after clear and re-insertion, after swap with empty and non-empty tables, after '
                               'copy / assignment; all ten key types with keys that collide in one bucket (negative keys of the signed '
                               'types are sign-extended by hash()), capacities 1 (one chain), 7, 500'))
        out.append(Stream('targeted', self.targeted_cases(rng, thorough),
                          note='case splits of the proofs: every chain position x every removal method, then the chain neighbours; '
                               'swap of tables of sizes 0..3 followed by use of both; order/value/prefix-sensitive ==; present key '
                               'at every position x insert flavour'))
        if self.self_assign_enabled():
            out.append(Stream('selfassign', self.self_assign_cases(),
                              note='x = x; generated when VERIF_C02_SELF_ASSIGN=1 or when operator= of HashMap and HashSet '
                                   'carries a self-assignment guard (the unguarded operator= is the C04 finding)'))
        out.append(Stream('exhaustive', self.exhaustive_cases(4 if thorough else 3), exhaustive=True,
                          note='every history of length <= %d over a 14..18-op alphabet (incl. the backward traversal), 2 variables, capacities 1 and 2, '
                               'keys {0,1,2}; each followed by a traversal of both variables' % (4 if thorough else 3)))
        return out


    def load_cases(self, rng, thorough):
        cases = []
        kts = ['i', 'l', 'u', 'q', 'p', 's', 'h', 'H', 'i', 's', 'b', 'B', 'i']
        targets = [130, 131, 200, 257, 260, 300, 520, 1000, 140, 258, 330, 700, 129]
        caps0 = [1, 16, 64, 500, 1024, 5000, 16, 500, 1, 64, 3, 500, 16]
        n = 13 * (6 if thorough else 1)
        for i in range(n):
            for kd in KINDS:
                j = (i + KINDS.index(kd) * 4) % 13
                kt = kts[j]
                target = targets[(i * 5 + KINDS.index(kd)) % 13] if i < 13 else rng.randrange(129, 1100)
                if kt in ('b', 'B'):
                    target = min(target, rng.choice([200, 250, 256]))
                cap = caps0[(i * 3 + KINDS.index(kd) * 2) % 13] if i < 13 else rng.choice(caps0 + [2, 7, 1023, 1025])
                if target >= 500 and cap == 1:
                    cap = 16            # one chain of 1000: every find walks it, the model's chain is a list
                caps = [cap] + ([rng.choice([1, 7, 16, 500])] if rng.random() < 0.6 else [])
                cases.append(load_history(rng, kd, kt, caps, target))
        return cases

    def bigcap_cases(self, rng, thorough):
        cases = []
        reps = 3 if thorough else 1
        for rep in range(reps):
            for kd in KINDS:
                v = (lambda: str(rng.randrange(1, 99))) if kd != 'hs' else (lambda: '0')
                for cap in BIGCAPS:
                    for kt in (['i', 'q', 'p', 's'] if rep == 0 else [rng.choice(['l', 'u', 'i', 'q', 'h', 'H', 'p', 's'])]):
                        other = rng.choice(BIGCAPS + [7])
                        h = '@%s %s %d %d' % (kd, kt, cap, other)
                        if kt == 's':
                            keys = load_universe(rng, 's', cap, 40)[:40]
                        else:
                            unit = 8 if kt == 'p' else 1
                            lo, hi = (0, (1 << 64) - 1) if kt == 'p' else type_range(kt)
                            cells = [0, 1, 1023, 1024, 1025, 4999, cap // 2, cap - 2, cap - 1] + [rng.randrange(cap) for _ in range(6)]
                            keys = []
                            for c in cells:
                                if c >= cap:
                                    continue
                                for m in (0, 1, rng.randrange(2, 1000)):        # m > 0: colliding partners
                                    val = (c + m * cap) * unit + (rng.randrange(8) if kt == 'p' else 0)
                                    if lo <= val <= hi:
                                        keys.append(str(val))
                                if lo < 0:
                                    # a negative key in the same cell: (2^64 + val) mod cap == c
                                    val = -(((1 << 64) - c) % cap) - cap * rng.randrange(0, 3)
                                    if lo <= val < 0 and bucket_of(val, cap) == c:
                                        keys.append(str(val))
                            keys = list(dict.fromkeys(keys))
                        rng.shuffle(keys)
                        ops = []
                        ins = ['app', 'app', 'pre', 'ins'] if kd != 'pm' else ['app', 'app', 'ins']
                        live = []
                        for k in keys[:24]:
                            o = rng.choice(ins)
                            if o == 'ins':
                                pos = rng.randrange(len(live) + 1)
                                ops.append('.ins 0 %d %s %s' % (pos, k, v()))
                                live.insert(pos, k)
                            else:
                                ops.append('.%s 0 %s %s' % (o, k, v()))
                                live.insert(0 if o == 'pre' else len(live), k)
                        ops += ['find 0 %s' % k for k in keys[:8]] + ['has 0 %s' % keys[-1]]
                        for k in rng.sample(live, min(6, len(live))):
                            ops.append('.rmk 0 ' + k)
                            live.remove(k)
                        ops += ['.rmf 0', '.rmb 0', 'rmi 0 1', 'bwd 0', 'swap 0 1', '.app 0 %s %s' % (keys[0], v()), 'app 1 %s %s' % (keys[1], v()),
                                'find 1 ' + keys[2], 'fwd 0']
                        nb = rng.choice(BIGCAPS)
                        ops += ['.new 0 %d' % nb] + ['.app 0 %s %s' % (k, v()) for k in keys[3:12]] + ['find 0 ' + keys[5], '.rmk 0 ' + keys[4]]
                        if kd != 'pm':
                            ops += ['.assign 0 1', 'eq 0 1', '.copy 1 0', '.rmk 1 ' + keys[2], 'eq 0 1']
                        if kd == 'hs':
                            ops += ['.appall 0 1', 'rmall 1 0']
                        ops += ['.clear 1'] + ['.app 1 %s %s' % (k, v()) for k in keys[10:16]] + ['bwd 1', 'bwd 0']
                        cases.append([h] + ops)
        return cases

    HUGE = (('hm', 'i', 500), ('hs', 'q', 5000), ('pm', 'l', 1024))

    def huge_cases(self, rng):
        return [load_history(rng, kd, kt, [cap], 66000, mute_p=1.0, cheap=True) for kd, kt, cap in self.HUGE]

    def huge_quick_cases(self, rng):
        # quick tier: per kind ONE table of 65600 entries, whole-state looks at 65536 / 65537 / the end only
        return [load_history(rng, kd, kt, [cap], 65600, mute_p=1.0, cheap=True, marks_from=65536, tail=False) for kd, kt, cap in self.HUGE]

    def boundary_cases(self, rng):
        cases = []
        for kd in KINDS:
            for kt, ks in (('i', ['0', '7', '-7', '14', '1']), ('s', ['-', '61', '6162', 'ff', '80ff'])):
                for cap in (0, 1, 7, 500):
                    h = '@%s %s %d %d' % (kd, kt, cap, cap)
                    k0, k1, k2, k3, k4 = ks
                    v = (lambda n: str(n)) if kd != 'hs' else (lambda n: '0')
                    # empty-container observations and ops
                    cases.append([h, 'find 0 ' + k0, 'has 0 ' + k0, 'rmk 0 ' + k0, 'clear 0', 'swap 0 1', 'swap 0 0', 'eq 0 1', 'eq 0 0',
                                  'copy 0 1', 'copy 0 0', 'assign 0 1', 'appall 0 1', 'appall 0 0', 'rmall 0 1', 'rmall 0 0', 'rmf 0', 'rmb 0',
                                  'front 0', 'back 0', 'rmi 0 0', 'ins 0 1 %s %s' % (k0, v(1)), 'setv 0 %s 5' % k0])
                    # single element: insert, remove every way, reinsert (slot reuse)
                    for rm in ('rmk 0 ' + k0, 'rmi 0 0', 'rmf 0', 'rmb 0', 'clear 0', 'rmv 0 0'):
                        cases.append([h, 'app 0 %s %s' % (k0, v(1)), 'front 0', 'back 0', rm, 'find 0 ' + k0, 'app 0 %s %s' % (k1, v(2)), 'find 0 ' + k1])
                    # existing key keeps its position at every insert position
                    base = ['app 0 %s %s' % (k, v(i)) for i, k in enumerate(ks)]
                    for pos in range(0, 6):
                        cases.append([h] + base + ['ins 0 %d %s %s' % (pos, k2, v(99)), 'find 0 ' + k2, 'pre 0 %s %s' % (k3, v(98)), 'app 0 %s %s' % (k0, v(97))])
                    # new key at every position
                    for pos in range(0, 6):
                        cases.append([h] + base[:4] + ['ins 0 %d %s %s' % (pos, k4, v(50)), 'find 0 ' + k4, 'rmi 0 %d' % min(pos, 4)])
                    # remove at every rank, returned iterator
                    for r in range(0, 5):
                        cases.append([h] + base + ['rmi 0 %d' % r] + ['find 0 ' + k for k in ks])
                    # swap / copy / assign / == with non-empty tables, different capacities
                    cases.append([h] + base + ['new 1 3', 'app 1 %s %s' % (k4, v(1)), 'app 1 %s %s' % (k0, v(2)), 'eq 0 1', 'swap 0 1', 'find 0 ' + k4,
                                               'find 1 ' + k1, 'app 0 %s %s' % (k2, v(3)), 'app 1 %s %s' % (k2, v(4)), 'swap 1 0', 'swap 1 1', 'copy 0 1', 'eq 0 1',
                                               'rmk 0 ' + k2, 'eq 0 1', 'assign 1 0', 'eq 0 1', 'eq 1 0', 'clear 0', 'eq 0 1', 'assign 1 0', 'eq 0 1'])
                    # order-sensitive equality, value-sensitive equality
                    cases.append([h, 'app 0 %s %s' % (k0, v(1)), 'app 0 %s %s' % (k1, v(2)), 'app 1 %s %s' % (k1, v(2)), 'app 1 %s %s' % (k0, v(1)), 'eq 0 1',
                                  'rmf 1', 'pre 1 %s %s' % (k1, v(2)), 'eq 0 1', 'rmf 1', 'app 1 %s %s' % (k1, v(2)), 'eq 0 1', 'setv 1 %s 9' % k1, 'eq 0 1'])
                    # bulk ops with overlap
                    cases.append([h] + base[:3] + ['app 1 %s 0' % k2, 'app 1 %s 0' % k4, 'app 1 %s 0' % k0, 'appall 0 1', 'rmall 0 1', 'appall 1 0', 'rmall 1 1', 'appall 0 0'])
                    # the empty String key (and a one-byte key) met by every operation through every kind of String
                    # storage: the harness presents successive keys as heap copy / attached slice behind a non-NUL byte /
                    # default-constructed / attached unterminated slice, so `shift` lookups first rotate the assignment
                    if kt == 's':
                        for shift in range(4):
                            for e in ('-', '61'):
                                seq = ['app 0 %s %s' % (e, v(1)), 'find 0 ' + e, 'has 0 ' + e, 'app 0 %s %s' % (e, v(2)), 'find 0 ' + e,
                                       'ins 0 0 %s %s' % (e, v(3)), 'has 0 ' + e, 'find 0 ' + e, 'app 0 %s %s' % (k2, v(4)), 'app 0 %s %s' % (e, v(5)),
                                       'rmk 0 ' + e, 'find 0 ' + e, 'has 0 ' + e, 'app 0 %s %s' % (e, v(6)), 'app 0 %s %s' % (e, v(7)), 'rmk 0 ' + e, 'rmk 0 ' + e,
                                       'app 1 %s %s' % (e, v(8))]
                                if kd == 'hs':
                                    seq += ['app 0 %s 0' % e, 'rmall 0 1', 'has 0 ' + e, 'appall 0 1', 'appall 0 1', 'eq 0 1']
                                if kd != 'hs':
                                    seq += ['app 0 %s %s' % (e, v(9)), 'setv 0 %s 11' % e, 'setv 0 %s 12' % e, 'setv 0 %s 13' % e]
                                cases.append([h] + ['has 1 ' + k1] * shift + seq)
                    # two blocks, clear, reuse order
                    many = [str(i * max(cap, 1)) for i in range(9)] if kt == 'i' else [hexs([0x61, 0x41 + i, 0x62, 0x41 + 2 * i, 0x63]) for i in range(9)]
                    cases.append([h] + ['app 0 %s %s' % (k, v(i)) for i, k in enumerate(many)] + ['rmi 0 4', 'rmk 0 ' + many[1], 'rmb 0', 'rmf 0',
                                 'app 0 %s %s' % (many[1], v(7)), 'clear 0'] + ['pre 0 %s %s' % (k, v(i)) for i, k in enumerate(many)] + ['rmi 0 8', 'rmi 0 0'])
        return cases

    def iterate_cases(self):
        cases = []
        strs = [hexs([0x61, 0x41 + i, 0x62, 0x41 + 3 * i, 0x63]) for i in range(8)]      # equal at positions 0, len/2, len-1
        for kd in KINDS:
            v = (lambda n: str(n)) if kd != 'hs' else (lambda n: '0')
            for kt in ALL_KEY_TYPES:
                for cap in (1, 7, 500):
                    if kt == 's':
                        keys = strs[:6] + ['-', hexs([0xff])]
                    elif kt == 'p':
                        keys = [str(8 * cap * i + (i % 8)) for i in range(1, 7)] + ['0', str((1 << 47) + 5)]
                    else:
                        lo, hi = type_range(kt)
                        keys = colliding_keys(kt, cap, 6)
                        keys = [str(k) for k in dict.fromkeys(keys + [lo, hi, 0, 1, hi - 1, lo + 1, 2, 3, 4, 5, 6, 7])][:8]
                    k = keys
                    h = '@%s %s %d %d' % (kd, kt, cap, 1 if cap != 1 else 7)
                    both = ['bwd 0', 'fwd 0']
                    app = lambda x, i: 'app %d %s %s' % (x, k[i], v(i + 1))
                    # empty tables: never used / emptied by every kind of removal / cleared
                    cases.append([h] + both + ['bwd 1', 'fwd 1', 'swap 0 1'] + both + ['clear 0'] + both)
                    for rm in ('rmk 0 ' + k[0], 'rmi 0 0', 'rmf 0', 'rmb 0', 'clear 0') + (('rmv 0 0',) if kd == 'pm' else ()):
                        # one element; emptied; refilled (slot reuse)
                        cases.append([h, app(0, 0)] + both + [rm] + both + [app(0, 1)] + both + [app(0, 0)] + both)
                    base = [app(0, i) for i in range(5)]
                    cases.append([h] + base + both)
                    # removal at the front / in the middle / at the back by every method, then traversal both ways
                    for r in (0, 2, 4):
                        meths = ['rmk 0 ' + k[r], 'rmi 0 %d' % r]
                        if kd == 'pm':
                            meths.append('rmv 0 %d' % r)
                        if r == 0:
                            meths.append('rmf 0')
                        if r == 4:
                            meths.append('rmb 0')
                        for m in meths:
                            cases.append([h] + base + [m] + both + [app(0, 5)] + both + ['rmb 0', 'rmf 0'] + both)
                    # two removals next to each other (the successor's prev link was written by the first one)
                    for r in (0, 1, 3):
                        cases.append([h] + base + ['rmi 0 %d' % r, 'rmi 0 %d' % r] + both + ['rmi 0 %d' % max(r - 1, 0)] + both)
                    # insertion at the front / middle / end of a list, present key
                    for pos in (0, 2, 5):
                        cases.append([h] + base + ['ins 0 %d %s %s' % (pos, k[5], v(9))] + both + ['ins 0 %d %s %s' % (pos, k[2], v(8))] + both)
                    if kd != 'pm':
                        cases.append([h] + base[:2] + ['pre 0 %s %s' % (k[5], v(6)), 'pre 0 %s %s' % (k[6], v(7))] + both)
                    # clear, then refill in another order
                    cases.append([h] + base + ['clear 0'] + both + [app(0, 3), app(0, 1), app(0, 4)] + both)
                    # swap with an empty table, with a non-empty one, with itself; both sides traversed
                    cases.append([h] + base + ['swap 0 1', 'bwd 0', 'bwd 1', 'fwd 1', app(0, 6), 'swap 0 1', 'bwd 0', 'bwd 1', 'fwd 0', 'swap 0 0'] + both +
                                 ['rmb 0', 'rmb 1', 'bwd 0', 'bwd 1'])
                    cases.append([h] + base[:3] + [app(1, 5), app(1, 6), 'swap 1 0', 'bwd 0', 'bwd 1', 'rmf 0', 'rmb 1', 'bwd 0', 'bwd 1', 'fwd 0', 'fwd 1'])
                    if kd != 'pm':
                        cases.append([h] + base + [app(1, 6), 'copy 1 0', 'bwd 1', 'assign 0 1', 'bwd 0', 'rmk 1 ' + k[1], 'assign 0 1', 'bwd 0', 'fwd 0', 'eq 0 1'])
                    if kd == 'hs':
                        cases.append([h] + base + [app(1, 6), app(1, 2), 'appall 0 1', 'bwd 0', 'rmall 0 1', 'bwd 0', 'fwd 0'])
                    # more than one block of items, every second removed
                    many = base + [app(0, 5), app(0, 6), app(0, 7)]
                    cases.append([h] + many + both + ['rmi 0 1', 'rmi 0 2', 'rmi 0 3'] + both + ['clear 0'] + many[::-1] + both)
        return cases

    def targeted_cases(self, rng, thorough):
        cases = []
        strs = [hexs([0x61, 0x41 + i, 0x62, 0x41 + 3 * i, 0x63]) for i in range(8)]      # equal at positions 0, len/2, len-1
        for kd in KINDS:
            v = (lambda n: str(n)) if kd != 'hs' else (lambda n: '0')
            for kt in ('i', 's', 'l', 'h', 'q'):
                for cap in ((1, 3, 7) if not thorough else (1, 2, 3, 7, 64)):
                    if kt == 'h':
                        # int16, one bucket, negative and positive keys alternating (sign extension: (2^64 - |k|) mod cap)
                        keys = [str(k) for k in colliding_keys('h', cap, 6, anchor=2)]
                        other = [str(2 + 100 * cap + 1)]
                    elif kt == 'q':
                        # uint64, one bucket, spread over the whole range up to 2^64 - 1
                        top = ((1 << 64) - 3) // cap - 1
                        keys = [str(2 + cap * (top * i // 5)) for i in range(6)]
                        other = [str(3 + cap * (1 << 40))]
                    elif kt == 'i':
                        keys = [str(2 + i * cap) for i in range(6)]
                        other = [str(2 + 100 * cap + 1)]                        # a neighbouring bucket (the same one for capacity 1)
                    elif kt == 'l':
                        keys = [str((2 + i * cap) + (i % 2) * cap * (1 << 40)) for i in range(6)]
                        other = [str(3 - cap * (1 << 35))]
                    else:
                        keys = strs[:6]
                        other = [hexs([0x62, 0x41, 0x62, 0x41, 0x63])]
                    h = '@%s %s %d %d' % (kd, kt, cap, max(cap - 1, 0))
                    # 1. one chain of n keys (+ a bystander), remove chain position j by every method, then its
                    #    chain neighbours, probe, re-insert (slot reuse), remove again
                    for n in (2, 3, 4, 5):
                        build = ['app 0 %s %s' % (other[0], v(9))] + ['app 0 %s %s' % (k, v(i)) for i, k in enumerate(keys[:n])]
                        for j in range(n):
                            rank = j + 1
                            meths = ['rmk 0 ' + keys[j], 'rmi 0 %d' % rank]
                            if kd == 'pm':
                                meths.append('rmv 0 %d' % rank)
                            if j == n - 1:
                                meths.append('rmb 0')
                            for m in meths:
                                tail = []
                                if j + 1 < n:
                                    tail.append('rmk 0 ' + keys[j + 1])          # chain predecessor (inserted later = nearer the head)
                                if j > 0:
                                    tail.append('rmk 0 ' + keys[j - 1])          # chain successor
                                tail += ['find 0 ' + k for k in keys[:n]] + ['app 0 %s %s' % (keys[j], v(50)), 'find 0 ' + keys[j],
                                         'rmf 0', 'rmk 0 ' + keys[j], 'find 0 ' + keys[0], 'find 0 ' + keys[n - 1]]
                                cases.append([h] + build + [m, 'bwd 0'] + tail + ['bwd 0', 'fwd 0'])
                        # removeFront when the front is the chain tail (oldest)
                        cases.append([h] + build[1:] + ['rmf 0', 'rmf 0'] + ['find 0 ' + k for k in keys[:n]] + ['rmb 0', 'clear 0',
                                     'find 0 ' + keys[0], 'app 0 %s %s' % (keys[0], v(1)), 'find 0 ' + keys[0]])
                    # 2. swap of tables of sizes m, n in 0..3, then both are used: append, iterate to the (re-anchored) end,
                    #    remove at both ends, swap back, clear
                    for m in range(4):
                        for n in range(4):
                            a = ['app 0 %s %s' % (k, v(i)) for i, k in enumerate(keys[:m])]
                            b = ['app 1 %s %s' % (k, v(10 + i)) for i, k in enumerate(reversed(keys[6 - n:]))] if n else []
                            use = ['swap 0 1', 'bwd 0', 'bwd 1', 'back 0', 'back 1', 'app 0 %s %s' % (other[0], v(7)), 'app 1 %s %s' % (other[0], v(8)),
                                   'find 0 ' + keys[5], 'find 1 ' + keys[0], 'rmb 0', 'rmb 1', 'rmb 0', 'rmb 1', 'rmf 0', 'rmf 1',
                                   'ins 0 0 %s %s' % (keys[1], v(3)), 'ins 1 0 %s %s' % (keys[1], v(4)), 'swap 1 0', 'swap 0 0',
                                   'app 0 %s %s' % (keys[2], v(5)), 'clear 1', 'app 1 %s %s' % (keys[3], v(6)), 'swap 0 1',
                                   'rmb 0', 'rmb 1', 'front 0', 'front 1', 'bwd 0', 'bwd 1', 'fwd 0', 'fwd 1']
                            if kd != 'pm':
                                use += ['eq 0 1', 'assign 0 1', 'eq 0 1', 'eq 1 0']
                            cases.append([h] + a + b + use)
                    # 3. ==: same keys other order / same order other value / proper prefix both ways / after swap / empty
                    if kd != 'pm':
                        k0, k1, k2 = keys[0], keys[1], keys[2]
                        for a, b in (([k0, k1, k2], [k0, k2, k1]), ([k0, k1, k2], [k1, k0, k2]), ([k0, k1, k2], [k0, k1]),
                                     ([k0, k1], [k0, k1, k2]), ([k0, k1, k2], [k0, k1, k2]), ([], [k0]), ([k0], []), ([], []),
                                     ([k0, k1, k2], [k2, k1, k0]), ([k0], [k1])):
                            pre = ['app 0 %s %s' % (k, v(i)) for i, k in enumerate(a)] + ['app 1 %s %s' % (k, v(b.index(k) if k not in a else a.index(k))) for k in b]
                            cases.append([h] + pre + ['eq 0 1', 'eq 1 0', 'swap 0 1', 'eq 0 1', 'eq 1 0', 'eq 0 0', 'eq 1 1'])
                        if kd == 'hm':
                            pre = ['app 0 %s 1' % k0, 'app 0 %s 2' % k1, 'app 1 %s 1' % k0, 'app 1 %s 3' % k1]
                            cases.append([h] + pre + ['eq 0 1', 'eq 1 0', 'setv 1 %s 2' % k1, 'eq 0 1', 'app 1 %s 1' % k0, 'eq 0 1',
                                                      'ins 1 0 %s 9' % k1, 'eq 0 1', 'eq 1 0', 'pre 0 %s 9' % k1, 'eq 0 1'])
                        # copy / assign into and from tables with chains, then independence
                        cases.append([h] + ['app 0 %s %s' % (k, v(i)) for i, k in enumerate(keys[:4])] + ['app 1 %s %s' % (keys[5], v(1)),
                                     'copy 1 0', 'eq 0 1', 'rmk 1 ' + keys[1], 'eq 0 1', 'find 0 ' + keys[1], 'assign 0 1', 'eq 0 1',
                                     'app 0 %s %s' % (keys[4], v(2)), 'find 1 ' + keys[4], 'eq 1 0', 'new 1 %d' % cap, 'assign 1 0', 'eq 1 0'])
                    # 4. present key at every position x insert flavour: rank and neighbours unchanged
                    build = ['app 0 %s %s' % (k, v(i)) for i, k in enumerate(keys[:4])]
                    for j in range(4):
                        for pos in range(5):
                            cases.append([h] + build + ['ins 0 %d %s %s' % (pos, keys[j], v(90)), 'find 0 ' + keys[j]] +
                                         ['find 0 ' + k for k in keys[:4] if k != keys[j]])
                        cases.append([h] + build + ['app 0 %s %s' % (keys[j], v(91)), 'find 0 ' + keys[j], 'rmb 0', 'find 0 ' + keys[j]])
                        if kd != 'pm':
                            cases.append([h] + build + ['pre 0 %s %s' % (keys[j], v(92)), 'find 0 ' + keys[j], 'rmf 0', 'find 0 ' + keys[j]])
                    if kd == 'hs':
                        cases.append([h] + build + ['app 1 %s 0' % keys[2], 'app 1 %s 0' % keys[5], 'app 1 %s 0' % keys[0], 'appall 0 1',
                                                    'find 0 ' + keys[5], 'rmall 0 1', 'find 0 ' + keys[1], 'rmall 0 0', 'appall 0 1', 'appall 1 1'])
        return cases

    def self_assign_enabled(self):
        e = os.environ.get('VERIF_C02_SELF_ASSIGN')
        if e in ('0', '1'):
            return e == '1'
        try:
            for f in ('HashMap', 'HashSet'):
                txt = open(os.path.join(REPO, 'include', 'nstd', f + '.hpp')).read()
                m = re.search(r'operator=\(const %s& other\)\s*\{(.*?)clear\(\);' % f, txt, flags=re.S)
                if not m or 'this' not in m.group(1):
                    return False
            return True
        except OSError:
            return False

    def self_assign_cases(self):
        cases = []
        for kd in ('hm', 'hs'):
            v = '5' if kd == 'hm' else '0'
            for kt, ks in (('i', ['1', '8', '15']), ('s', ['61', '6162', '-'])):
                for cap in (1, 7, 500):
                    cases.append(['@%s %s %d' % (kd, kt, cap)] + ['app 0 %s %s' % (k, v) for k in ks] + ['assign 0 0', 'find 0 ' + ks[1], 'eq 0 0'])
        return cases

    def exhaustive_cases(self, depth):
        cases = []
        for kd in KINDS:
            v = '0' if kd == 'hs' else '5'
            alpha = ['app 0 0 ' + v, 'app 0 1 ' + v, 'app 0 2 ' + v, 'ins 0 0 2 ' + ('0' if kd == 'hs' else '6'), 'ins 0 1 1 ' + ('0' if kd == 'hs' else '7'),
                     'rmk 0 0', 'rmk 0 2', 'rmi 0 0', 'rmi 0 1', 'rmb 0', 'clear 0', 'swap 0 1', 'find 0 2', 'bwd 0']
            if kd != 'pm':
                alpha += ['assign 1 0', 'eq 0 1']
            if kd == 'hs':
                alpha += ['appall 0 1', 'rmall 0 1']
            for cap in (1, 2):
                h = '@%s i %d %d' % (kd, cap, 3 - cap)
                pre = ['app 1 2 ' + v, 'app 1 0 ' + v]
                for n in range(1, depth + 1):
                    for seq in itertools.product(alpha, repeat=n):
                        # every history ends with a backward and a forward traversal of both variables
                        cases.append([h] + pre + list(seq) + (['bwd 0', 'bwd 1', 'fwd 0'] if seq[-1] != 'bwd 0' else ['bwd 1', 'fwd 0']))
        return cases


CHECK = C02
